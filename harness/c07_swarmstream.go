//go:build verif

//verif:dir p2p/net/swarm
//verif:obligation C07.d swarm Stream.SetProtocol, for every sequence of 2 calls with the same or different protocol IDs and every answer of the stream's resource scope: the stream reports a protocol ID only if the scope accepted exactly that ID (the stream is charged to the protocol it reports); a refused call returns the error and leaves the reported protocol unchanged; every call consults the scope
//verif:bound 2 calls, 2 protocol IDs
//verif:stub the stream scope is a harness stub with symbolic answers that records what it accepted
//verif:outside the resource manager behind the scope (C03.d checks SetProtocol re-parenting)
package swarm

import (
	"errors"

	"github.com/libp2p/go-libp2p/core/network"
	"github.com/libp2p/go-libp2p/core/protocol"
)

type vC07dScope struct {
	network.StreamManagementScope
	refuse   []bool
	calls    int
	accepted []protocol.ID
}

func (s *vC07dScope) SetProtocol(p protocol.ID) error {
	i := s.calls
	s.calls++
	if s.refuse[i] {
		return errors.New("already attached to a protocol / limit exceeded")
	}
	s.accepted = append(s.accepted, p)
	return nil
}

func VerifC07dStreamSetProtocol() {
	sc := &vC07dScope{refuse: vBoolSlice(2)}
	st := &Stream{scope: sc}
	ids := []protocol.ID{"/proto/a", "/proto/b"}
	vAssert(st.Protocol() == "", "a fresh stream reports no protocol")
	for i := 0; i < 2; i++ {
		before := st.Protocol()
		p := ids[vCase(2)]
		err := st.SetProtocol(p)
		vAssert(sc.calls == i+1, "every SetProtocol call consults the stream's resource scope")
		if sc.refuse[i] {
			vCover("refused")
			vAssert(err != nil, "a refusal is returned to the caller")
			vAssert(st.Protocol() == before, "a refused SetProtocol leaves the reported protocol unchanged")
		} else {
			vCover("accepted")
			vAssert(err == nil && st.Protocol() == p, "an accepted SetProtocol is reported")
		}
		if st.Protocol() != "" {
			vAssert(len(sc.accepted) > 0 && sc.accepted[len(sc.accepted)-1] == st.Protocol(), "the stream reports only the protocol its scope is charged to")
		}
	}
}
