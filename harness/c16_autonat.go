//go:build verif

//verif:dir p2p/protocol/autonatv2
//verif:hook p2p/protocol/autonatv2 msgReader.ReadMsg
//verif:replace github.com/libp2p/go-msgio/pbio.NewDelimitedWriter vC16stubWriter
//verif:shard VerifC16aLimiterStep 12
//verif:shard VerifC16aLimiterHistory 6
//verif:obligation C16.a sliding-window limiter, inductive step: from any limiter state (<= 3 (thorough 4) recorded requests of 2 peers or <= 3 (4) dial-data requests, arbitrary non-decreasing instants, arbitrary limits) satisfying the representation invariant (reqs sorted; peerReqs[p] is exactly the subsequence of reqs of p; no empty lists), one Accept / AcceptDialDataRequest / CompleteRequest at any later instant preserves the invariant, forgets no request younger than one minute, admits only while the global, per-peer and dial-data windows and the per-peer concurrency are below their limits; after Close nothing is admitted
//verif:obligation C16.a' bounded history from the constructor state: k = 3 (thorough 4) calls with an arbitrary non-decreasing clock; every admitted call sees at most RPM / PerPeerRPM / DialDataRPM admitted calls in its trailing minute and at most MaxConcurrent in flight
//verif:obligation C16.b readDialData accounting: returns nil only after the client sent at least numBytes bytes; a message crediting < 100 bytes while data is still owed is an error
//verif:obligation C16.c dialBack: the peer's only address is the requested one with the temporary TTL, the dial context demands a direct connection, and on every exit (connect error, stream error, write error, success) the dialer host closes the peer, clears its addresses and removes it
//verif:bound limiter pre-state: <= 3 requests (thorough 4), 2 peers, limits 0..5, instants anywhere in [0, 2^60] ns; history k <= 3 (4); readDialData numBytes <= 300 (thorough 600; the real 30..100 kB range is outside the bound - the loop body does not depend on the magnitude), message length 0..8192
//verif:stub msgReader.ReadMsg returns a message of symbolic length or an error (hook, both modes); pbio.NewDelimitedWriter is replaced in the symbolic run by a writer that fails iff the stub stream's Write fails (natively the real protobuf writer runs on the stub stream); host/peerstore/network/stream are harness stub types behind the real interfaces
//verif:outside serveDialRequest's message parsing (protobuf reflection), concurrent requests, the real dialer host
package autonatv2

import (
	"context"
	"errors"
	"time"

	"github.com/libp2p/go-libp2p/core/host"
	"github.com/libp2p/go-libp2p/core/network"
	"github.com/libp2p/go-libp2p/core/peer"
	"github.com/libp2p/go-libp2p/core/peerstore"
	"github.com/libp2p/go-libp2p/core/protocol"
	"github.com/libp2p/go-libp2p/p2p/protocol/autonatv2/pb"
	"github.com/libp2p/go-msgio/pbio"
	ma "github.com/multiformats/go-multiaddr"
	"google.golang.org/protobuf/proto"
)

var vC16now time.Time
var vC16peers = []peer.ID{"p1", "p2"}

const vC16minute = int(time.Minute)

// ---- C16.a inductive step ----

type vC16req struct {
	p int
	t int
}

func vC16buildLimiter(n, nd int, inflightPeer int) (*rateLimiter, []vC16req, []int, int) {
	r := &rateLimiter{RPM: vRange(0, 5), PerPeerRPM: vRange(0, 5), DialDataRPM: vRange(0, 5), MaxConcurrentRequestsPerPeer: vRange(0, 3)}
	r.now = func() time.Time { return vC16now }
	r.init()
	var reqs []vC16req
	t := vRange(0, 1<<60)
	for i := 0; i < n; i++ {
		t = t + vRange(0, 1<<40)
		p := vCase(2)
		reqs = append(reqs, vC16req{p, t})
		r.reqs = append(r.reqs, entry{PeerID: vC16peers[p], Time: time.Unix(0, int64(t))})
		r.peerReqs[vC16peers[p]] = append(r.peerReqs[vC16peers[p]], time.Unix(0, int64(t)))
	}
	var dd []int
	td := vRange(0, 1<<60)
	for i := 0; i < nd; i++ {
		td = td + vRange(0, 1<<40)
		dd = append(dd, td)
		r.dialDataReqs = append(r.dialDataReqs, time.Unix(0, int64(td)))
	}
	if inflightPeer >= 0 {
		if c := vRange(0, 3); c > 0 {
			r.inProgressReqs[vC16peers[inflightPeer]] = c
		}
	}
	last := t
	if td > last {
		last = td
	}
	return r, reqs, dd, last
}

// representation invariant + "exactly these requests are remembered"
func vC16inv(r *rateLimiter, want []vC16req, wantDD []int) bool {
	ok := len(r.reqs) == len(want)
	if !ok {
		return false
	}
	cnt := [2]int{}
	for i, e := range r.reqs {
		ok = vAnd(ok, vAnd(e.PeerID == vC16peers[want[i].p], e.Time.Equal(time.Unix(0, int64(want[i].t)))))
		pl := r.peerReqs[e.PeerID]
		k := cnt[want[i].p]
		if k >= len(pl) {
			return false
		}
		ok = vAnd(ok, pl[k].Equal(e.Time))
		cnt[want[i].p]++
	}
	for p := 0; p < 2; p++ {
		pl, present := r.peerReqs[vC16peers[p]]
		if len(pl) != cnt[p] || (present && len(pl) == 0) {
			return false
		}
	}
	if len(r.dialDataReqs) != len(wantDD) {
		return false
	}
	for i, t := range r.dialDataReqs {
		ok = vAnd(ok, t.Equal(time.Unix(0, int64(wantDD[i]))))
	}
	return ok
}

func VerifC16aLimiterStep() {
	maxReqs := 3 + vTier()
	k := vCase(3 * (maxReqs + 1)) // split over shards: operation x number of remembered requests
	op, n := k%3, k/3
	p := 0
	if op != 1 {
		p = vCase(2)
	}
	nd := 0
	if op == 1 {
		nd = n
		n = n / 2
	}
	r, reqs, dd, last := vC16buildLimiter(n, nd, p)
	now := last + vRange(0, 1<<40)
	vC16now = time.Unix(0, int64(now))
	// requests that are still inside the trailing minute must survive the call
	var fresh []vC16req
	for _, q := range reqs {
		if now-q.t < vC16minute {
			fresh = append(fresh, q)
		}
	}
	var freshDD []int
	for _, t := range dd {
		if now-t < vC16minute {
			freshDD = append(freshDD, t)
		}
	}
	switch op {
	case 0:
		inflight := r.inProgressReqs[vC16peers[p]]
		nPeer := 0
		for _, q := range fresh {
			nPeer += vB2I(q.p == p)
		}
		ok := r.Accept(vC16peers[p])
		if ok {
			vCover("accepted")
			vAssert(len(fresh) < r.RPM, "admitted-only-below-global-limit-in-the-trailing-minute")
			vAssert(nPeer < r.PerPeerRPM, "admitted-only-below-per-peer-limit-in-the-trailing-minute")
			vAssert(inflight < r.MaxConcurrentRequestsPerPeer && r.inProgressReqs[vC16peers[p]] == inflight+1, "admitted-only-below-concurrency-limit")
			fresh = append(fresh, vC16req{p, now})
		} else {
			vCover("rejected")
			vAssert(r.inProgressReqs[vC16peers[p]] == inflight, "rejection-does-not-count-as-in-flight")
		}
		vAssert(vC16inv(r, fresh, freshDD), "limiter remembers exactly the requests of the trailing minute")
	case 1:
		ok := r.AcceptDialDataRequest()
		if ok {
			vCover("dial-data-accepted")
			vAssert(len(freshDD) < r.DialDataRPM, "dial-data-admitted-only-below-limit-in-the-trailing-minute")
			freshDD = append(freshDD, now)
		}
		vAssert(vC16inv(r, fresh, freshDD), "limiter remembers exactly the requests of the trailing minute")
	case 2:
		inflight := r.inProgressReqs[vC16peers[p]]
		vAssume(inflight > 0)
		r.CompleteRequest(vC16peers[p])
		vAssert(r.inProgressReqs[vC16peers[p]] == inflight-1, "complete-releases-one-slot")
		_, present := r.inProgressReqs[vC16peers[p]]
		vAssert(present == (inflight > 1), "no-zero-entries")
		vAssert(vC16inv(r, reqs, dd), "complete-does-not-touch-windows")
	}
}

func VerifC16aClosed() {
	r, _, _, last := vC16buildLimiter(1, 1, 0)
	vC16now = time.Unix(0, int64(last))
	r.Close()
	vAssert(!r.Accept(vC16peers[vCase(2)]), "closed-limiter-admits-nothing")
	vAssert(!r.AcceptDialDataRequest(), "closed-limiter-admits-no-dial-data")
	r.CompleteRequest(vC16peers[0])
}

// ---- C16.a' bounded history through the API ----

func VerifC16aLimiterHistory() {
	first := vCase(6)
	K := 3 + vTier()
	r := &rateLimiter{RPM: vRange(0, 3), PerPeerRPM: vRange(0, 3), DialDataRPM: vRange(0, 3), MaxConcurrentRequestsPerPeer: vRange(1, 2)}
	r.now = func() time.Time { return vC16now }
	accT, accP, acc := make([]int, K), make([]int, K), make([]bool, K)
	ddT, dd := make([]int, K), make([]bool, K)
	inflight := [2]int{}
	t := vRange(0, 1<<50)
	for i := 0; i < K; i++ {
		t = t + vRange(0, 1<<40)
		vC16now = time.Unix(0, int64(t))
		var op, p int
		if i == 0 {
			op, p = first/2, first%2
		} else {
			op = vCase(3)
			if op != 1 {
				p = vCase(2)
			}
		}
		switch op {
		case 0:
			if r.Accept(vC16peers[p]) {
				vCover("accepted")
				acc[i], accT[i], accP[i] = true, t, p
				inflight[p]++
				n, np := 0, 0
				for j := 0; j <= i; j++ {
					in := vAnd(acc[j], t-accT[j] < vC16minute)
					n += vB2I(in)
					np += vB2I(vAnd(in, accP[j] == p))
				}
				vAssert(n <= r.RPM, "global-window")
				vAssert(np <= r.PerPeerRPM, "peer-window")
				vAssert(inflight[p] <= r.MaxConcurrentRequestsPerPeer, "concurrency")
			}
		case 1:
			if r.AcceptDialDataRequest() {
				dd[i], ddT[i] = true, t
				n := 0
				for j := 0; j <= i; j++ {
					n += vB2I(vAnd(dd[j], t-ddT[j] < vC16minute))
				}
				vAssert(n <= r.DialDataRPM, "dialdata-window")
			}
		case 2:
			if inflight[p] > 0 {
				r.CompleteRequest(vC16peers[p])
				inflight[p]--
			}
		}
	}
}

// ---- C16.b dial data accounting ----

func VerifC16bReadDialData() {
	maxBytes := 300 * (1 + vTier())
	numBytes := vRange(1, maxBytes)
	received := 0
	msgs := 0
	VerifHook_msgReader_ReadMsg = func(m *msgReader) ([]byte, error) {
		if vBool() {
			return nil, errors.New("stream error")
		}
		n := vRange(0, maxMsgSize)
		received += n
		msgs++
		return m.Buf[:n], nil
	}
	defer func() { VerifHook_msgReader_ReadMsg = nil }()
	vSetUnwind(16)
	err := readDialData(numBytes, nil)
	if err == nil {
		vCover("enough-data")
		vAssert(received >= numBytes, "dial-only-after-at-least-the-requested-bytes-were-received")
		vAssert(msgs*100 <= received+100*1, "no-dribbling: every message but the last credits >= 100 bytes")
	} else {
		vCover("refused")
	}
}

// ---- C16.c dialBack ----

type vC16peerstore struct {
	peerstore.Peerstore
	log []string
}

func (ps *vC16peerstore) AddAddr(p peer.ID, a ma.Multiaddr, ttl time.Duration) {
	if p == vC16peers[0] && a.Equal(vC16addr) && ttl == peerstore.TempAddrTTL {
		ps.log = append(ps.log, "add")
	} else {
		ps.log = append(ps.log, "add-other")
	}
}
func (ps *vC16peerstore) ClearAddrs(p peer.ID) {
	if p == vC16peers[0] {
		ps.log = append(ps.log, "clear")
	}
}
func (ps *vC16peerstore) RemovePeer(p peer.ID) {
	if p == vC16peers[0] {
		ps.log = append(ps.log, "remove")
	}
}

type vC16network struct {
	network.Network
	ps *vC16peerstore
}

func (n *vC16network) ClosePeer(p peer.ID) error {
	if p == vC16peers[0] {
		n.ps.log = append(n.ps.log, "closepeer")
	}
	return nil
}

type vC16stream struct {
	network.Stream
	failWrite bool
	closed    int
	reset     int
}

func (s *vC16stream) Write(b []byte) (int, error) {
	if s.failWrite {
		return 0, errors.New("write failed")
	}
	return len(b), nil
}
func (s *vC16stream) Read(b []byte) (int, error)    { return 0, errors.New("eof") }
func (s *vC16stream) Close() error                  { s.closed++; return nil }
func (s *vC16stream) CloseWrite() error             { return nil }
func (s *vC16stream) Reset() error                  { s.reset++; return nil }
func (s *vC16stream) SetDeadline(t time.Time) error { return nil }

type vC16host struct {
	host.Host
	ps          *vC16peerstore
	nw          *vC16network
	failConnect bool
	failStream  bool
	stream      *vC16stream
	forceDirect bool
	connectTo   peer.ID
	connectAddr int
}

func (h *vC16host) Peerstore() peerstore.Peerstore { return h.ps }
func (h *vC16host) Network() network.Network       { return h.nw }
func (h *vC16host) Connect(ctx context.Context, pi peer.AddrInfo) error {
	h.forceDirect, _ = network.GetForceDirectDial(ctx)
	h.connectTo, h.connectAddr = pi.ID, len(pi.Addrs)
	h.ps.log = append(h.ps.log, "connect")
	if h.failConnect {
		return errors.New("dial failed")
	}
	return nil
}
func (h *vC16host) NewStream(ctx context.Context, p peer.ID, pids ...protocol.ID) (network.Stream, error) {
	if h.failStream {
		return nil, errors.New("stream failed")
	}
	return h.stream, nil
}

type vC16writer struct{ s *vC16stream }

func (w *vC16writer) WriteMsg(m proto.Message) error {
	_, err := w.s.Write([]byte{1})
	return err
}

// engine-only replacement of pbio.NewDelimitedWriter (protobuf marshalling is reflection-driven)
func vC16stubWriter(w interface{ Write([]byte) (int, error) }) pbio.WriteCloser {
	return vC16wc{&vC16writer{w.(*vC16stream)}}
}

type vC16wc struct{ *vC16writer }

func (vC16wc) Close() error { return nil }

var vC16addr ma.Multiaddr

func VerifC16cDialBack() {
	vC16addr = ma.StringCast("/ip4/1.2.3.4/tcp/4001")
	ps := &vC16peerstore{}
	h := &vC16host{ps: ps, nw: &vC16network{ps: ps}, failConnect: vBool(), failStream: vBool(), stream: &vC16stream{failWrite: vBool()}}
	as := &server{dialerHost: h, now: func() time.Time { return vC16now }}
	st := as.dialBack(context.Background(), vC16peers[0], vC16addr, 7)
	vAssert(h.connectTo == vC16peers[0] && h.connectAddr == 0, "dials-only-the-requesting-peer-using-only-the-stored-address")
	vAssert(h.forceDirect, "dial-back-demands-a-direct-connection")
	n := len(ps.log)
	vAssert(n >= 5 && ps.log[0] == "add" && ps.log[1] == "connect", "requested-address-added-with-temporary-ttl-before-the-dial")
	vAssert(n >= 5 && ps.log[n-3] == "closepeer" && ps.log[n-2] == "clear" && ps.log[n-1] == "remove", "every-exit-closes-the-peer-clears-its-addresses-and-removes-it")
	if h.failConnect {
		vCover("connect-failed")
		vAssert(st == pb.DialStatus_E_DIAL_ERROR, "status-dial-error")
	} else if h.failStream {
		vCover("stream-failed")
		vAssert(st == pb.DialStatus_E_DIAL_BACK_ERROR, "status-dial-back-error")
	} else if h.stream.failWrite {
		vCover("write-failed")
		vAssert(st == pb.DialStatus_E_DIAL_BACK_ERROR && h.stream.reset == 1, "write-error-resets")
	} else {
		vCover("ok")
		vAssert(st == pb.DialStatus_OK && h.stream.closed == 1, "ok-closes-stream")
	}
}
