//go:build verif

//verif:dir p2p/host/resource-manager
//verif:shard VerifC03fConnLimiterV4 14
//verif:shard VerifC03fConnLimiterV6 14
//verif:obligation C03.f per-subnet connection limiter, the real connLimiter.addConn / rmConn with the real net/netip prefix arithmetic, on every history of 3 (thorough 5) add / remove operations over 3 symbolic addresses (IPv4: two in a /24 family with symbolic last two bytes, one that may also lie in a configured network prefix or be loopback; IPv6 likewise with symbolic bytes inside and outside the /48 and /56), symbolic per-subnet caps (narrow 1..2, wide 1..3) and network-prefix cap (0..2): after every operation the number of open connections of every subnet at every configured prefix length, and of the network prefix, is at most its cap and equals the limiter's own counter; a connection is admitted exactly when every applicable cap has room (an address inside a configured network prefix is governed by that prefix alone); a refused connection changes no count; when every connection has been removed every counter reads zero
//verif:bound 3 addresses, 3 (5) operations, caps <= 3, two per-subnet limits per family, one configured network prefix plus loopback
//verif:stub none (netip.AddrFrom4/16 pack the bytes arithmetically in the engine, everything else of net/netip is executed)
//verif:outside zones, IPv4-mapped IPv6 remotes, more than two limits per family, concurrent callers (the limiter holds one mutex for the whole operation)
package rcmgr

import (
	"math"
	"net/netip"
)

type vC03fIP struct {
	addr   netip.Addr
	class  int // 0: per-subnet limits, 1: inside the configured network prefix, 2: loopback
	f0, f1 uint8
	open   int
}

func vC03fMk(v6 bool, class int) *vC03fIP {
	ip := &vC03fIP{class: class}
	ip.f0, ip.f1 = vUint8(), vUint8()
	f2 := vUint8()
	vAssume(vAnd(vAnd(ip.f0 <= 1, ip.f1 <= 1), f2 <= 1))
	if !v6 {
		// a.b.f0.f1 : f0 is inside the /24, f1 only inside the /32
		first := []byte{11, 10, 127}[class]
		ip.addr = netip.AddrFrom4([4]byte{first, 0, ip.f0, ip.f1})
		return ip
	}
	// 2001:0:00f0:f1f2:: : f0 is inside the /48, f1 only inside the /56, f2 in neither
	b := [16]byte{0x20, 0x01, 0, 0, 0, ip.f0, ip.f1, f2, 0, 0, 0, 0, 0, 0, 0, 1}
	switch class {
	case 1:
		b[0] = 0xfd
	case 2:
		b = [16]byte{15: 1}
		ip.f0, ip.f1 = 0, 0
	}
	ip.addr = netip.AddrFrom16(b)
	return ip
}

func vC03fRun(v6 bool) {
	first := vCase(108) // split: class of the third address x kinds of operations 2 and 3 x addresses of operations 1 and 2
	narrowCap, wideCap, prefixCap := vRange(1, 2), vRange(1, 3), vRange(0, 2)
	cl := &connLimiter{}
	var np netip.Prefix
	if v6 {
		np = netip.PrefixFrom(netip.AddrFrom16([16]byte{0: 0xfd}), 8)
		cl.connLimitPerSubnetV6 = []ConnLimitPerSubnet{{PrefixLength: 56, ConnCount: narrowCap}, {PrefixLength: 48, ConnCount: wideCap}}
		cl.networkPrefixLimitV6 = []NetworkPrefixLimit{{Network: netip.PrefixFrom(netip.AddrFrom16([16]byte{15: 1}), 128), ConnCount: math.MaxInt}}
	} else {
		np = netip.PrefixFrom(netip.AddrFrom4([4]byte{10, 0, 0, 0}), 8)
		cl.connLimitPerSubnetV4 = []ConnLimitPerSubnet{{PrefixLength: 32, ConnCount: narrowCap}, {PrefixLength: 24, ConnCount: wideCap}}
		cl.networkPrefixLimitV4 = []NetworkPrefixLimit{{Network: netip.PrefixFrom(netip.AddrFrom4([4]byte{127, 0, 0, 0}), 8), ConnCount: math.MaxInt}}
	}
	cl.addNetworkPrefixLimit(v6, NetworkPrefixLimit{Network: np, ConnCount: prefixCap}) // the real insertion + sort
	ips := []*vC03fIP{vC03fMk(v6, 0), vC03fMk(v6, 0), vC03fMk(v6, first%3)}
	narrow := func(j int) int {
		n := 0
		for _, k := range ips {
			if k.class == 0 {
				n += k.open * vB2I(vAnd(k.f0 == ips[j].f0, k.f1 == ips[j].f1))
			}
		}
		return n
	}
	wide := func(j int) int {
		n := 0
		for _, k := range ips {
			if k.class == 0 {
				n += k.open * vB2I(k.f0 == ips[j].f0)
			}
		}
		return n
	}
	inPrefix := func() int {
		n := 0
		for _, k := range ips {
			if k.class == 1 {
				n += k.open
			}
		}
		return n
	}
	prefixCounters := func() []int {
		if v6 {
			return cl.connsPerNetworkPrefixV6
		}
		return cl.connsPerNetworkPrefixV4
	}
	subnetCounters := func() []map[netip.Prefix]int {
		if v6 {
			return cl.ip6connsPerLimit
		}
		return cl.ip4connsPerLimit
	}
	lens := []int{32, 24}
	if v6 {
		lens = []int{56, 48}
	}
	check := func() {
		vAssert(inPrefix() <= prefixCap, "open connections inside the configured network prefix never exceed its cap")
		if pc := prefixCounters(); len(pc) == 2 {
			// most specific first, stable: loopback (/128, or the /8 inserted first) precedes the configured /8
			vAssert(pc[1] == inPrefix(), "the network-prefix counter equals the open connections inside the prefix")
		}
		for j, ip := range ips {
			if ip.class != 0 {
				continue
			}
			if ip.open > 0 {
				vAssert(narrow(j) <= narrowCap, "open connections of one narrow subnet never exceed the per-subnet cap")
				vAssert(wide(j) <= wideCap, "open connections of one wide subnet never exceed the per-subnet cap")
			}
			if sc := subnetCounters(); len(sc) == 2 {
				p0, _ := ip.addr.Prefix(lens[0])
				p1, _ := ip.addr.Prefix(lens[1])
				vAssert(sc[0][p0] == narrow(j), "the narrow subnet's counter equals its open connections")
				vAssert(sc[1][p1] == wide(j), "the wide subnet's counter equals its open connections")
			}
		}
	}
	nops := 3 + 2*vTier()
	for step := 0; step < nops; step++ {
		var j int
		var add bool
		switch step {
		case 0:
			j, add = (first/6)%3, true
		case 1:
			j, add = (first/18)%3, (first/3)%2 == 0
		case 2:
			j, add = vCase(3), (first/54)%2 == 0
		default:
			j, add = vCase(3), vBool()
		}
		ip := ips[j]
		if add {
			room := true
			switch ip.class {
			case 0:
				room = vAnd(narrow(j)+1 <= narrowCap, wide(j)+1 <= wideCap)
			case 1:
				room = inPrefix()+1 <= prefixCap
			}
			ok := cl.addConn(ip.addr)
			vAssert(ok == room, "a connection is admitted exactly when every applicable cap has room")
			if ok {
				ip.open++
				vCover("admitted")
			} else {
				vCover("refused")
			}
		} else {
			if ip.open == 0 {
				vAssume(false) // callers pair every rmConn with an admitted addConn
			}
			cl.rmConn(ip.addr)
			ip.open--
			vCover("removed")
		}
		check()
	}
	// drain
	for _, ip := range ips {
		for ip.open > 0 {
			cl.rmConn(ip.addr)
			ip.open--
		}
	}
	check()
	for _, m := range subnetCounters() {
		// (entries that read zero may remain: a connection refused by a wider limit leaves the zero entry
		// addConn created for the narrower one - noted in DESIGN.md, not demanded by the property)
		for _, n := range m {
			vAssert(n == 0, "when the last connection is removed every subnet counter reads zero")
		}
	}
	for _, c := range prefixCounters() {
		vAssert(c == 0, "when the last connection is removed every network-prefix counter reads zero")
	}
}

func VerifC03fConnLimiterV4() { vC03fRun(false) }
func VerifC03fConnLimiterV6() { vC03fRun(true) }
