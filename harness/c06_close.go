//go:build verif

//verif:dir p2p/net/swarm
//verif:also C17 VerifC06dCloseWaitsForAdmission
//verif:obligation C06.d swarm shutdown waits for a connection that is still being admitted: while addConn is inside the Connected notification of a connection (slow handler), the connection is closed (through the swarm, by the remote at transport level - which the swarm only learns from its accept loop -, or not at all) and Swarm.Close's final wait on the swarm's references starts: the wait does not return before the connection's Connected notification has returned, its Disconnected notification has been delivered and its accept loop has ended - so an admitted connection is never left without its notifications by a shutdown that overtook it - and it does return once they have
//verif:obligation C06.e every call of the real Swarm.Close - also a second call that overlaps a Close still waiting for a slow Disconnected handler - returns only after Disconnected has been delivered; the event emitter is closed exactly once
//verif:bound one connection, one slow Connected handler; cooperative schedule with the handler parked at an explicit gate
//verif:stub transport connection stub whose AcceptStream fails once the connection is closed; event emitter stub; the real connection events emitter, addConn, Conn.start, Conn.Close
//verif:outside preemption inside addConn between its critical sections, several connections at once
package swarm

import (
	"context"
	"errors"

	"github.com/libp2p/go-libp2p/core/network"
	"github.com/libp2p/go-libp2p/core/peer"
	"github.com/libp2p/go-libp2p/core/transport"
)

type vC06dTc struct {
	vC06tc
	closedCh  chan struct{}
	closeGate chan struct{}
}

func (c *vC06dTc) Close() error {
	if g := c.closeGate; g != nil { // tearing a transport connection down takes a while: everything started before it gets to run
		c.closeGate = nil
		<-g
	}
	c.closes++
	if c.closes == 1 {
		close(c.closedCh)
	}
	return nil
}
func (c *vC06dTc) CloseWithError(network.ConnErrorCode) error { return c.Close() }
func (c *vC06dTc) AcceptStream() (network.MuxedStream, error) {
	<-c.closedCh
	return nil, errors.New("connection closed")
}
func (c *vC06dTc) Stat() network.ConnStats { return network.ConnStats{} }

func VerifC06dCloseWaitsForAdmission() {
	vDeadlockIsViolation()
	s := &Swarm{peers: vC06ps{}}
	s.conns.m = map[peer.ID][]*Conn{}
	s.directConnNotifs.m = map[peer.ID][]chan struct{}{}
	gate := make(chan struct{})
	inConnected, connectedDone, disconnected, closedAtDisconnect := false, false, false, false
	s.connectionEventsEmitter = newConnectionEventsEmitter(func(peer.ID) network.Connectedness { return network.Connected }, &vC06emitter{},
		func(c *Conn) {
			inConnected = true
			<-gate // a slow Connected handler
			connectedDone = true
		}, func(c *Conn) { disconnected, closedAtDisconnect = true, c.conn.IsClosed() })
	tc := &vC06dTc{vC06tc: vC06tc{p: "peerA"}, closedCh: make(chan struct{})}
	var admitted *Conn
	returned := false
	go func() {
		admitted, _ = s.addConn(tc, network.DirOutbound)
		returned = true
	}()
	settle := func() {
		for i := 0; i < 25; i++ {
			vYield()
		}
	}
	settle()
	vAssert(inConnected && !returned, "harness: addConn is inside the Connected notification")
	closeEarly := vBool()
	if closeEarly {
		// the connection goes away while it is still being announced
		s.conns.RLock()
		c := s.conns.m["peerA"][0]
		s.conns.RUnlock()
		slow := make(chan struct{})
		tc.closeGate = slow
		go c.Close()
		settle()
		vAssert(!disconnected, "Disconnected is not announced while the transport connection is still being torn down (it would still read as open)")
		close(slow)
		settle()
		vCover("closed-while-being-admitted")
	}
	hangup := !closeEarly && vBool()
	if hangup {
		// the remote hangs up: only the transport connection knows, the swarm learns it from its accept loop
		tc.Close()
		vCover("remote-hung-up-while-being-admitted")
	}
	waited := false
	go func() {
		s.refs.Wait() // the tail of Swarm.Close
		waited = true
	}()
	settle()
	vAssert(!waited, "shutdown does not overtake a connection that is still being admitted")
	close(gate)
	settle()
	vAssert(returned && connectedDone, "the admission completes")
	if !closeEarly && !hangup {
		vAssert(!waited, "shutdown keeps waiting while the connection's accept loop runs")
		slow := make(chan struct{})
		tc.closeGate = slow
		go admitted.Close()
		settle()
		vAssert(!disconnected, "Disconnected is not announced while the transport connection is still being torn down (it would still read as open)")
		close(slow)
		settle()
	}
	vAssert(disconnected, "the connection's Disconnected notification is delivered (also when the remote hung up before the accept loop started)")
	vAssert(closedAtDisconnect, "when Disconnected is delivered the connection already reports itself closed (observers use IsClosed to discard reports that arrive late)")
	s.conns.RLock()
	left := len(s.conns.m["peerA"])
	s.conns.RUnlock()
	vAssert(left == 0, "a connection that is gone is no longer listed for the peer")
	vAssert(waited, "shutdown returns once the notifications are delivered and the accept loop has ended")
	s.connectionEventsEmitter.Close()
}

type vC06eBusEmitter struct{ closed int }

func (e *vC06eBusEmitter) Emit(interface{}) error { return nil }
func (e *vC06eBusEmitter) Close() error           { e.closed++; return nil }

// Every call of Swarm.Close - also one that overlaps a Close already in progress - returns only after the
// notifications have been delivered.
func VerifC06eOverlappingClose() {
	vDeadlockIsViolation()
	ctx, cancel := context.WithCancel(context.Background())
	bus := &vC06eBusEmitter{}
	s := &Swarm{peers: vC06ps{}, ctx: ctx, ctxCancel: cancel, emitter: bus}
	s.conns.m = map[peer.ID][]*Conn{}
	s.listeners.m = map[transport.Listener]struct{}{}
	s.transports.m = map[int]transport.Transport{}
	s.directConnNotifs.m = map[peer.ID][]chan struct{}{}
	gate := make(chan struct{})
	disconnected, inDisconnected := false, false
	s.connectionEventsEmitter = newConnectionEventsEmitter(func(peer.ID) network.Connectedness { return network.NotConnected }, &vC06emitter{},
		func(c *Conn) {}, func(c *Conn) {
			inDisconnected = true
			<-gate // a slow Disconnected handler
			disconnected = true
		})
	tc := &vC06dTc{vC06tc: vC06tc{p: "peerA"}, closedCh: make(chan struct{})}
	_, err := s.addConn(tc, network.DirInbound)
	vAssert(err == nil, "connection admitted")
	settle := func() {
		for i := 0; i < 30; i++ {
			vYield()
		}
	}
	settle()
	aDone, bDone := false, false
	go func() { s.Close(); aDone = true }()
	settle()
	vAssert(inDisconnected && !aDone, "harness: the first Close is waiting for the Disconnected handler")
	go func() { s.Close(); bDone = true }()
	settle()
	vAssert(!bDone, "an overlapping Close call does not return before the notifications have been delivered")
	close(gate)
	settle()
	vAssert(disconnected && aDone && bDone, "both Close calls return once Disconnected has been delivered")
	vAssert(bus.closed == 1 && tc.closes >= 1, "the event emitter is closed once, the connection is closed")
}
