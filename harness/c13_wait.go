//go:build verif

//verif:dir p2p/protocol/identify
//verif:hook p2p/protocol/identify idService.handleIdentifyResponse
//verif:obligation C13.d IdentifyWait / identifyConn / newStreamAndNegotiate with the real multistream SelectProtoOrFail: for every outcome of opening the stream, SetProtocol, and a remote that answers the negotiation correctly, answers "not available", or stops answering after 0..2 reads: no read or write is issued on the identify stream before a deadline bounds it (so a stalled remote cannot hold the wait forever), the wait channel is closed once the attempt has ended - whatever its outcome -, both callers of IdentifyWait for one connection share one attempt, a failed attempt resets its stream and publishes EvtPeerIdentificationFailed, and for an already closed unknown connection the wait is released at once; handlePush bounds its stream before reading
//verif:bound one connection, two IdentifyWait callers; negotiation answers as listed
//verif:stub connection / stream stubs (the stream serves concrete negotiation bytes; a read past a stall reports a deadline error if a deadline was set and is recorded as unbounded otherwise); handleIdentifyResponse hooked (symbolic result; C13.b checks what it does with a message)
//verif:outside the identify message exchange after negotiation, real timers expiring, push sending
package identify

import (
	"context"
	"errors"
	"io"
	"os"
	"time"

	"github.com/libp2p/go-libp2p/core/event"
	"github.com/libp2p/go-libp2p/core/network"
	"github.com/libp2p/go-libp2p/core/protocol"
)

type vC13dStream struct {
	network.Stream
	in         []byte
	pos        int
	stallAfter int // reads answered before the remote goes silent (-1: never)
	reads      int
	deadlines  int
	unbounded  bool // an I/O call was issued while no deadline was set
	resets     int
	protoFail  bool
	conn       network.Conn
}

func (s *vC13dStream) io() {
	if s.deadlines == 0 {
		s.unbounded = true
	}
}
func (s *vC13dStream) Read(b []byte) (int, error) {
	s.io()
	if s.stallAfter >= 0 && s.reads >= s.stallAfter {
		if s.deadlines == 0 {
			return 0, errors.New("harness: this read would block forever")
		}
		return 0, os.ErrDeadlineExceeded
	}
	s.reads++
	if s.pos >= len(s.in) {
		return 0, io.EOF
	}
	n := copy(b, s.in[s.pos:])
	s.pos += n
	return n, nil
}
func (s *vC13dStream) Write(b []byte) (int, error) { s.io(); return len(b), nil }
func (s *vC13dStream) SetDeadline(time.Time) error { s.deadlines++; return nil }
func (s *vC13dStream) SetProtocol(protocol.ID) error {
	if s.protoFail {
		return errors.New("resource limit exceeded")
	}
	return nil
}
func (s *vC13dStream) Reset() error       { s.resets++; return nil }
func (s *vC13dStream) Close() error       { return nil }
func (s *vC13dStream) Conn() network.Conn { return s.conn }

type vC13dConn struct {
	vC13conn
	st       *vC13dStream
	openFail bool
	opened   int
	closed   bool
}

func (c *vC13dConn) IsClosed() bool { return c.closed }
func (c *vC13dConn) NewStream(ctx context.Context) (network.Stream, error) {
	c.opened++
	if c.openFail {
		return nil, errors.New("connection closed")
	}
	return c.st, nil
}

func vC13dMsg(s string) []byte {
	b := []byte{byte(len(s) + 1)}
	b = append(b, s...)
	return append(b, '\n')
}

func VerifC13dIdentifyWait() {
	ids, _, _, em := vC13service()
	ids.conns = map[network.Conn]entry{}
	ids.timeout = 30 * time.Second
	ids.setupCompleted = make(chan struct{})
	close(ids.setupCompleted)
	respErr := vBool()
	handled := 0
	VerifHook_idService_handleIdentifyResponse = func(ids *idService, s network.Stream, isPush bool) error {
		handled++
		if respErr {
			return errors.New("bad identify message")
		}
		return nil
	}
	defer func() { VerifHook_idService_handleIdentifyResponse = nil }()
	st := &vC13dStream{protoFail: vBool(), stallAfter: vCase(4) - 1}
	switch vCase(2) {
	case 0:
		st.in = append(vC13dMsg("/multistream/1.0.0"), vC13dMsg(string(ID))...)
	case 1:
		st.in = append(vC13dMsg("/multistream/1.0.0"), vC13dMsg("na")...)
		vCover("protocol-not-available")
	}
	c := &vC13dConn{st: st, openFail: vBool()}
	st.conn = c
	if vBool() {
		// an unknown connection that is already closed: nothing to wait for
		c.closed = true
		ch := ids.IdentifyWait(c)
		select {
		case <-ch:
		default:
			vAssert(false, "the wait for a closed, unknown connection is released at once")
		}
		vAssert(c.opened == 0, "no identify attempt on a closed, unknown connection")
		return
	}
	vSetUnwind(400)
	ch1 := ids.IdentifyWait(c)
	ch2 := ids.IdentifyWait(c)
	vAssert(ch1 == ch2, "callers waiting for the same connection share one wait")
	for i := 0; i < 60; i++ {
		vYield()
	}
	released := false
	select {
	case <-ch1:
		released = true
	default:
	}
	vAssert(released, "the identify wait is released when the attempt has ended, whatever its outcome")
	vAssert(c.opened == 1, "one identify attempt per connection")
	vAssert(!st.unbounded, "no I/O is issued on the identify stream before a deadline bounds it")
	failed := 0
	for _, e := range em.events {
		if _, ok := e.(event.EvtPeerIdentificationFailed); ok {
			failed++
		}
	}
	if handled == 1 && !respErr {
		vCover("identified")
		vAssert(failed == 0 && st.resets == 0, "a completed identify is not reported as failed")
	} else {
		vCover("attempt-failed")
		vAssert(failed == 1, "a failed attempt is published")
		if !c.openFail && handled == 0 {
			vAssert(st.resets >= 1, "a stream whose negotiation failed is reset")
		}
	}
	if st.stallAfter >= 0 && !c.openFail && !st.protoFail {
		vCover("remote-went-silent")
	}
}

func VerifC13dHandlePush() {
	ids, _, _, _ := vC13service()
	ids.timeout = 30 * time.Second
	st := &vC13dStream{stallAfter: -1}
	VerifHook_idService_handleIdentifyResponse = func(ids *idService, s network.Stream, isPush bool) error {
		s.Read(make([]byte, 1))
		return nil
	}
	defer func() { VerifHook_idService_handleIdentifyResponse = nil }()
	ids.handlePush(st)
	vAssert(st.deadlines >= 1 && !st.unbounded, "an incoming push stream is bounded by a deadline before it is read")
}
