//go:build verif

//verif:dir p2p/host/basic
//verif:obligation C12.f BasicHost.Connect (what the hole puncher and applications call), for every connectedness the network reports (none, connected, limited) and every combination of the force-direct and allow-limited options: a caller that demands a direct connection ALWAYS reaches the swarm's dial (which alone can tell a direct connection from a relayed one: a connection through a relay that sets no limits counts as "connected") and gets the dial's verdict; without that demand an existing full connection - or a limited one when the caller allows it - is used without dialing, anything else dials
//verif:bound one Connect call; the network's answer and the dial result symbolic
//verif:stub network.Network and the peerstore are harness stubs; identify is not reached (the stub dial fails or the call returns before)
//verif:outside the swarm's own force-direct handling (C12.a-c, C05.e/f), the identify wait after a successful dial
package basichost

import (
	"context"
	"errors"
	"time"

	"github.com/libp2p/go-libp2p/core/network"
	"github.com/libp2p/go-libp2p/core/peer"
	"github.com/libp2p/go-libp2p/core/peerstore"
	ma "github.com/multiformats/go-multiaddr"
)

type vC12fNet struct {
	network.Network
	state network.Connectedness
	dials int
	ps    peerstore.Peerstore
}

var errC12fDial = errors.New("no direct connection possible")

func (n *vC12fNet) Connectedness(peer.ID) network.Connectedness { return n.state }
func (n *vC12fNet) LocalPeer() peer.ID                          { return "self" }
func (n *vC12fNet) Peerstore() peerstore.Peerstore              { return n.ps }
func (n *vC12fNet) DialPeer(ctx context.Context, p peer.ID) (network.Conn, error) {
	n.dials++
	return nil, errC12fDial
}

type vC12fPs struct {
	peerstore.Peerstore
	added int
}

func (p *vC12fPs) AddAddrs(peer.ID, []ma.Multiaddr, time.Duration) { p.added++ }

func VerifC12fHostConnect() {
	ps := &vC12fPs{}
	nw := &vC12fNet{ps: ps}
	switch vCase(3) {
	case 0:
		nw.state = network.NotConnected
	case 1:
		nw.state = network.Connected
	default:
		nw.state = network.Limited
	}
	forceDirect, allowLimited := vBool(), vBool()
	ctx := context.Background()
	if forceDirect {
		ctx = network.WithForceDirectDial(ctx, "verif")
	}
	if allowLimited {
		ctx = network.WithAllowLimitedConn(ctx, "verif")
	}
	h := &BasicHost{network: nw}
	err := h.Connect(ctx, peer.AddrInfo{ID: "peerA", Addrs: []ma.Multiaddr{ma.StringCast("/ip4/1.2.3.4/tcp/1")}})
	vAssert(ps.added == 1, "the addresses given are recorded")
	if forceDirect {
		vCover("direct-connection-demanded")
		vAssert(nw.dials == 1 && errors.Is(err, errC12fDial), "a demand for a direct connection always reaches the swarm's dial and reports its verdict, whatever connectedness says")
		return
	}
	useExisting := nw.state == network.Connected || (nw.state == network.Limited && allowLimited)
	if useExisting {
		vCover("existing-connection-used")
		vAssert(nw.dials == 0 && err == nil, "an acceptable existing connection is used without dialing")
	} else {
		vAssert(nw.dials == 1 && err != nil, "otherwise the peer is dialed; a limited connection is not enough unless the caller allows it")
	}
}
