//go:build verif

//verif:dir p2p/transport/tcp
//verif:also C05 VerifC04dTCPDial
//verif:hook p2p/transport/tcp TcpTransport.maDial
//verif:hook p2p/transport/tcp newTracingConn
//verif:subst p2p/transport/tcp github.com/multiformats/go-multiaddr/net.DialArgs verifDialArgs
//verif:subst p2p/transport/tcp github.com/multiformats/go-multiaddr/net.WrapNetConn verifWrapNetConn
//verif:hook p2p/transport/tcp aggregatingCollector.ClosedConn
//verif:obligation C04.d TcpTransport.DialWithUpdates / dialWithScope, every exit (resource manager refuses the connection, refuses the peer, the raw dial fails, wrapping the connection for metrics fails, the upgrade fails) with metrics on / off, with and without an update channel (free or full), for both simultaneous-connect roles: on error the connection scope that was opened is released exactly once and the raw connection, if one was established, is closed; on success neither happens and the upgrade received the scope, the (possibly wrapped) connection and the right direction
//verif:obligation C04.d' TcpTransport.customDial (WithDialerForAddr): whenever it returns an error after the custom dialer produced a connection (the connection cannot be wrapped into a multiaddr connection), that connection has been closed; on success the wrapped connection is returned open
//verif:bound one dial per run, all stage outcomes symbolic
//verif:stub manet.DialArgs / manet.WrapNetConn substituted at their call sites in customDial (symbolic failures); maDial (raw dial) and newTracingConn (fails for connections that are not *net.TCPConn, e.g. from a custom dialer) hooked with symbolic outcomes; the upgrader is a harness stub honouring C04.a's contract (on failure it has closed the connection it was given; it never releases the scope), resource manager / scope / conn are counting stubs
//verif:outside the kernel socket, reuseport / shared listeners, the real metrics collector
package tcp

import (
	"context"
	"errors"
	"net"

	"github.com/libp2p/go-libp2p/core/network"
	"github.com/libp2p/go-libp2p/core/peer"
	"github.com/libp2p/go-libp2p/core/transport"
	ma "github.com/multiformats/go-multiaddr"
	manet "github.com/multiformats/go-multiaddr/net"
)

type vC04dconn struct {
	manet.Conn
	closed int
}

func (c *vC04dconn) Close() error                  { c.closed++; return nil }
func (c *vC04dconn) RemoteMultiaddr() ma.Multiaddr { return nil }
func (c *vC04dconn) LocalMultiaddr() ma.Multiaddr  { return nil }
func (c *vC04dconn) RemoteAddr() net.Addr          { return nil }
func (c *vC04dconn) LocalAddr() net.Addr           { return nil }

type vC04dscope struct {
	network.ConnManagementScope
	done, setPeers int
	failPeer       bool
}

func (s *vC04dscope) Done() { s.done++ }
func (s *vC04dscope) SetPeer(peer.ID) error {
	s.setPeers++
	if s.failPeer {
		return errors.New("peer refused")
	}
	return nil
}

type vC04drcmgr struct {
	network.ResourceManager
	scope  *vC04dscope
	refuse bool
	opened int
	dir    network.Direction
	usefd  bool
}

func (r *vC04drcmgr) OpenConnection(dir network.Direction, usefd bool, a ma.Multiaddr) (network.ConnManagementScope, error) {
	if r.refuse {
		return nil, errors.New("connection refused by the resource manager")
	}
	r.opened++
	r.dir, r.usefd = dir, usefd
	return r.scope, nil
}

type vC04dcapable struct{ transport.CapableConn }

type vC04dupgrader struct {
	transport.Upgrader
	fail  bool
	calls int
	conn  manet.Conn
	scope network.ConnManagementScope
	dir   network.Direction
	p     peer.ID
}

func (u *vC04dupgrader) Upgrade(ctx context.Context, t transport.Transport, c manet.Conn, dir network.Direction, p peer.ID, s network.ConnManagementScope) (transport.CapableConn, error) {
	u.calls++
	u.conn, u.scope, u.dir, u.p = c, s, dir, p
	if u.fail {
		c.Close() // C04.a: a failed upgrade has closed the connection
		return nil, errors.New("upgrade failed")
	}
	return &vC04dcapable{}, nil
}

func VerifC04dTCPDial() {
	raw := &vC04dconn{}
	dialFails, traceFails := vBool(), vBool()
	dialed := 0
	VerifHook_TcpTransport_maDial = func(t *TcpTransport, ctx context.Context, raddr ma.Multiaddr) (manet.Conn, error) {
		dialed++
		if dialFails {
			return nil, errors.New("connection refused")
		}
		return raw, nil
	}
	var traced *tracingConn
	VerifHook_newTracingConn = func(c manet.Conn, collector *aggregatingCollector, isClient bool) (*tracingConn, error) {
		if traceFails {
			return nil, errors.New("unknown connection type")
		}
		traced = &tracingConn{Conn: c, isClient: isClient, collector: &aggregatingCollector{}}
		return traced, nil
	}
	VerifHook_aggregatingCollector_ClosedConn = func(c *aggregatingCollector, conn *tracingConn, direction string) {}
	defer func() {
		VerifHook_TcpTransport_maDial, VerifHook_newTracingConn, VerifHook_aggregatingCollector_ClosedConn = nil, nil, nil
	}()
	scope := &vC04dscope{failPeer: vBool()}
	rm := &vC04drcmgr{scope: scope, refuse: vBool()}
	up := &vC04dupgrader{fail: vBool()}
	t := &TcpTransport{upgrader: up, rcmgr: rm, enableMetrics: vBool()}
	ctx := context.Background()
	wantDir := network.DirOutbound
	switch vCase(3) {
	case 1:
		ctx = network.WithSimultaneousConnect(ctx, true, "verif")
	case 2:
		ctx = network.WithSimultaneousConnect(ctx, false, "verif")
		wantDir = network.DirInbound
	}
	var upd chan transport.DialUpdate
	switch vCase(3) {
	case 1:
		upd = make(chan transport.DialUpdate, 1)
	case 2:
		upd = make(chan transport.DialUpdate, 1)
		upd <- transport.DialUpdate{} // full: the update is skipped, never waited for
	}
	addr := ma.StringCast("/ip4/1.2.3.4/tcp/1")
	c, err := t.DialWithUpdates(ctx, addr, "peerA", upd)
	vAssert(vGoroutines() == 0, "when the dial returns no goroutine of the attempt is left behind (a progress update nobody reads is skipped, not waited for)")
	if err != nil {
		vCover("dial-failed")
		vAssert(c == nil, "no connection on error")
		vAssert(scope.done == rm.opened, "on error the opened connection scope is released exactly once")
		if dialed == 1 && !dialFails {
			vCover("failed-after-the-raw-connection-was-established")
			vAssert(raw.closed >= 1, "on error the established raw connection is closed")
		}
		return
	}
	vCover("dialed")
	vAssert(rm.opened == 1 && rm.dir == network.DirOutbound && rm.usefd, "an outbound fd-consuming connection scope was opened")
	vAssert(scope.done == 0 && raw.closed == 0, "on success nothing is released")
	vAssert(scope.setPeers == 1 && up.calls == 1 && up.scope == network.ConnManagementScope(scope) && up.p == "peerA", "the upgrade received the scope, attached to the dialed peer")
	vAssert(up.dir == wantDir, "the upgrade direction follows the simultaneous-connect role")
	if t.enableMetrics {
		vAssert(up.conn == manet.Conn(traced) && traced.Conn == manet.Conn(raw) && traced.isClient, "with metrics the upgraded connection is the tracing wrapper of the raw one")
	} else {
		vAssert(up.conn == manet.Conn(raw), "the raw connection is upgraded")
	}
}

type vC04dnetconn struct {
	net.Conn
	closed int
}

func (c *vC04dnetconn) Close() error { c.closed++; return nil }

type vC04dwrapped struct {
	manet.Conn
	under net.Conn
}

func (c *vC04dwrapped) Close() error { return c.under.Close() }

type vC04ddialer struct {
	c     *vC04dnetconn
	fail  bool
	calls int
}

func (d *vC04ddialer) DialContext(ctx context.Context, network, address string) (net.Conn, error) {
	d.calls++
	if d.fail {
		return nil, errors.New("connection refused")
	}
	return d.c, nil
}

func VerifC04dCustomDial() {
	savedA, savedW := verifDialArgs, verifWrapNetConn
	defer func() { verifDialArgs, verifWrapNetConn = savedA, savedW }()
	argsFail, wrapFail := vBool(), vBool()
	nets := []string{"tcp", "tcp4", "udp", "ip4"}
	rnet := nets[vCase(4)]
	verifDialArgs = func(m ma.Multiaddr) (string, string, error) {
		if argsFail {
			return "", "", errors.New("not a dialable address")
		}
		return rnet, "1.2.3.4:1", nil
	}
	verifWrapNetConn = func(c net.Conn) (manet.Conn, error) {
		if wrapFail {
			return nil, errors.New("failed to convert nconn.LocalAddr: unknown network pipe")
		}
		return &vC04dwrapped{under: c}, nil
	}
	d := &vC04ddialer{c: &vC04dnetconn{}, fail: vBool()}
	noDialer, dialerErr := vBool(), vBool()
	t := &TcpTransport{overrideDialerForAddr: func(raddr ma.Multiaddr) (ContextDialer, error) {
		if dialerErr {
			return nil, errors.New("no dialer for this address")
		}
		if noDialer {
			return nil, nil
		}
		return d, nil
	}}
	c, err := t.maDial(context.Background(), ma.StringCast("/ip4/1.2.3.4/tcp/1"))
	if err != nil {
		vCover("custom-dial-failed")
		vAssert(c == nil, "no connection on error")
		if d.calls == 1 && !d.fail {
			vCover("failed-after-the-custom-dialer-connected")
			vAssert(d.c.closed >= 1, "on error the connection produced by the custom dialer is closed")
		}
		return
	}
	vCover("custom-dialed")
	vAssert(d.calls == 1 && d.c.closed == 0, "on success the connection is open")
	w, ok := c.(*vC04dwrapped)
	vAssert(ok && w.under == net.Conn(d.c), "the returned connection wraps the dialer's connection")
}
