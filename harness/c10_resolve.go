//go:build verif

//verif:dir p2p/net/swarm
//verif:obligation C10.e name resolution in front of the address gate (chainResolvers, the loop behind Swarm.resolveAddrs): for every 1..2 input addresses from {an IP address, a name for the first resolver, a name for the second resolver} and every outcome of each resolution (fails, yields an IP address, yields a name for the second resolver): an address whose resolution failed is reported as an error and is NOT passed on - so a name that could not be turned into IP addresses never reaches the gater (which can only judge IP addresses) and the transports (which would resolve it themselves, behind the gater's back); addresses no resolver handles pass through unchanged, resolved addresses replace their name, in order
//verif:bound 2 chained resolvers, <= 2 input addresses, one result per resolution, output limit above the bound
//verif:stub resolvers are harness stubs with symbolic outcomes; addresses are atoms
//verif:outside the output limit (its cut-off is a denial-of-service bound, not a gating question), the DNS resolvers themselves
package swarm

import (
	"context"
	"errors"

	ma "github.com/multiformats/go-multiaddr"
)

func VerifC10eChainResolvers() {
	ip1, ip2 := ma.StringCast("/ip4/1.1.1.1/tcp/1"), ma.StringCast("/ip4/2.2.2.2/tcp/1")
	nameA := ma.StringCast("/dnsaddr/a.example")    // handled by the first resolver
	nameB := ma.StringCast("/dns4/b.example/tcp/1") // handled by the second resolver
	universe := []ma.Multiaddr{ip1, nameA, nameB}
	failA, failB := vBool(), vBool()
	aYieldsName := vBool() // the first resolver answers with a name for the second
	var failed []ma.Multiaddr
	r1 := resolver{
		canResolve: func(a ma.Multiaddr) bool { return a.Equal(nameA) },
		resolve: func(ctx context.Context, a ma.Multiaddr, limit int) ([]ma.Multiaddr, error) {
			if failA {
				failed = append(failed, a)
				return nil, errors.New("no such record")
			}
			if aYieldsName {
				return []ma.Multiaddr{nameB}, nil
			}
			return []ma.Multiaddr{ip2}, nil
		},
	}
	r2 := resolver{
		canResolve: func(a ma.Multiaddr) bool { return a.Equal(nameB) },
		resolve: func(ctx context.Context, a ma.Multiaddr, limit int) ([]ma.Multiaddr, error) {
			if failB {
				failed = append(failed, a)
				return nil, errors.New("no such host")
			}
			return []ma.Multiaddr{ip2}, nil
		},
	}
	n := 1 + vCase(2)
	var in []ma.Multiaddr
	for i := 0; i < n; i++ {
		in = append(in, universe[vCase(3)])
	}
	// the statement: what each input address becomes
	var want []ma.Multiaddr
	for _, a := range in {
		cur := []ma.Multiaddr{a}
		if a.Equal(nameA) {
			switch {
			case failA:
				cur = nil
			case aYieldsName:
				cur = []ma.Multiaddr{nameB}
			default:
				cur = []ma.Multiaddr{ip2}
			}
		}
		if len(cur) == 1 && cur[0].Equal(nameB) {
			if failB {
				cur = nil
			} else {
				cur = []ma.Multiaddr{ip2}
			}
		}
		want = append(want, cur...)
	}
	out, errs := chainResolvers(context.Background(), in, 100, []resolver{r1, r2})
	for _, o := range out {
		vAssert(!o.Equal(nameA) && !o.Equal(nameB), "no unresolved name is passed on towards the gater and the transports")
	}
	same := len(out) == len(want)
	if same {
		for i := range want {
			if !out[i].Equal(want[i]) {
				same = false
			}
		}
	}
	vAssert(same, "the output is the inputs with every name replaced by what it resolved to, failed names dropped, order kept")
	vAssert(len(errs) == len(failed), "every failed resolution is reported")
	if len(failed) > 0 {
		vCover("a-resolution-failed")
	}
}
