//go:build verif

//verif:dir core/peer
//verif:hook core/crypto MarshalPublicKey
//verif:hook core/crypto UnmarshalPublicKey
//verif:replace github.com/multiformats/go-multihash.Sum vC08mhSum
//verif:obligation C08.c peer IDs are a deterministic function of the public key: ID.MatchesPublicKey(pk) holds iff the ID equals IDFromPublicKey(pk) - in particular an identity-multihash ID that wraps a different (non-canonical) encoding of the same key, or the encoding of another key, does not match; keys whose marshalled form is at most 42 bytes are embedded (identity multihash) and recoverable with ExtractPublicKey, longer ones are hashed
//verif:bound marshalled key lengths 1..60 (crossing the 42-byte inlining threshold), one canonical and one alternative encoding that unmarshal to the same key object, one foreign key
//verif:stub crypto.MarshalPublicKey / UnmarshalPublicKey hooked (reflection-driven protobuf); the real go-multihash Sum / Decode run for the identity code; for hashed IDs only the multihash header is inspected
//verif:outside base58 / CID text forms, the SHA-256 digest itself, key types
package peer

import (
	"bytes"
	"errors"

	ic "github.com/libp2p/go-libp2p/core/crypto"
	mh "github.com/multiformats/go-multihash"
)

// symbolic-run model of multihash.Sum (the native replay runs the real one): identity embeds the data,
// SHA2-256 yields the 0x12 0x20 header and a 32-byte digest standing for the hash
func vC08mhSum(data []byte, code uint64, length int) (mh.Multihash, error) {
	if code == mh.IDENTITY {
		return mh.Multihash(append([]byte{0x00, byte(len(data))}, data...)), nil
	}
	d := make([]byte, 32)
	copy(d, data)
	return mh.Multihash(append([]byte{0x12, 0x20}, d...)), nil
}

type vC08key struct {
	ic.PubKey
	name string
}

func (k *vC08key) Equals(o ic.Key) bool { ok, _ := o.(*vC08key); return ok == k }

func VerifC08cMatches() {
	n := vCase(60) + 1
	canon := bytes.Repeat([]byte{0xAA}, n)
	alt := append(bytes.Repeat([]byte{0xAA}, n-1), 0xAB) // another encoding that decodes to the same key
	other := bytes.Repeat([]byte{0xCC}, n)
	k, k2 := &vC08key{name: "k"}, &vC08key{name: "other"}
	ic.VerifHook_MarshalPublicKey = func(pk ic.PubKey) ([]byte, error) {
		if pk == ic.PubKey(k) {
			return canon, nil
		}
		return other, nil
	}
	ic.VerifHook_UnmarshalPublicKey = func(b []byte) (ic.PubKey, error) {
		switch {
		case bytes.Equal(b, canon), bytes.Equal(b, alt):
			return k, nil
		case bytes.Equal(b, other):
			return k2, nil
		}
		return nil, errors.New("bad key")
	}
	defer func() { ic.VerifHook_MarshalPublicKey, ic.VerifHook_UnmarshalPublicKey = nil, nil }()
	id, err := IDFromPublicKey(k)
	vAssert(err == nil, "an ID is derived")
	vAssert(id.MatchesPublicKey(k), "the derived ID matches its key")
	vAssert(!id.MatchesPublicKey(k2), "the derived ID matches no other key")
	inline := n <= 42
	if inline {
		vCover("embedded")
		vAssert(len(id) == 2+n && id[0] == 0x00 && int(id[1]) == n && string(id[2:]) == string(canon), "short keys are embedded with the identity multihash")
		pk, err := id.ExtractPublicKey()
		vAssert(err == nil && pk == ic.PubKey(k), "the key is recoverable from an ID that embeds it")
		// an ID that embeds a different encoding of the same key is a different ID and must not match
		forged := ID(append([]byte{0x00, byte(n)}, alt...))
		vAssert(forged != id, "different bytes, different ID")
		vAssert(!forged.MatchesPublicKey(k), "an ID embedding a non-canonical encoding of the key does not match the key")
		foreign := ID(append([]byte{0x00, byte(n)}, other...))
		vAssert(!foreign.MatchesPublicKey(k) && foreign.MatchesPublicKey(k2), "an ID embedding another key matches only that key")
	} else {
		vCover("hashed")
		vAssert(len(id) == 34 && id[0] == 0x12 && id[1] == 0x20, "long keys are hashed with SHA2-256")
		_, err := id.ExtractPublicKey()
		vAssert(err == ErrNoPublicKey, "a hashed ID embeds no key")
	}
}
