//go:build verif

//verif:dir p2p/host/basic
//verif:obligation C07.a BasicHost.newStreamHandler with the real multistream muxer: an application handler runs iff deadline setting, negotiation and SetProtocol all succeeded; it is exactly the handler registered for the negotiated protocol, it runs on a stream that already reports that protocol (so the stream is charged to that protocol's scope), handlers of other protocols and removed handlers never run; a handler registered with a match function runs on a stream reporting the protocol ID the dialer actually requested never run; in every other case the stream is reset and no handler runs
//verif:obligation C07.c streamWrapper (optimistically negotiated stream): CloseWrite flushes the pending multistream header before half-closing the stream; Read / Write / Close go through the lazy multistream connection, never around it
//verif:bound listener with handlers for /proto/a, /proto/b (optionally removed again) and a match-function handler for /proto/m/*; the dialer's wire bytes are one of: a correct multistream-select request for /proto/a, /proto/b, an unregistered /proto/c, /proto/m/1.3.0, or an immediate EOF; SetDeadline / SetProtocol outcomes symbolic
//verif:stub network.Stream / Conn / event emitter harness stubs; the stream serves concrete request bytes so the real go-multistream Negotiate code is executed (symbolically and natively)
//verif:outside the dialer side of the negotiation (BasicHost.NewStream is covered under C04.e), stale peerstore knowledge end-to-end, both hosts connected over a real transport
package basichost

import (
	"errors"
	"io"
	"time"

	"github.com/libp2p/go-libp2p/core/network"
	"github.com/libp2p/go-libp2p/core/peer"
	"github.com/libp2p/go-libp2p/core/protocol"
	ma "github.com/multiformats/go-multiaddr"
	msmux "github.com/multiformats/go-multistream"
)

type vC07conn struct{ network.Conn }

func (vC07conn) RemotePeer() peer.ID           { return "remote" }
func (vC07conn) RemoteMultiaddr() ma.Multiaddr { return nil }

type vC07stream struct {
	network.Stream
	in           []byte
	pos          int
	proto        protocol.ID
	setProtoFail bool
	deadlineFail int // fail the n-th SetDeadline call (1-based), 0 = never
	deadlines    int
	rdArmed      bool // a read / write deadline is currently set
	wrArmed      bool
	resets       int
	log          []string
}

func (s *vC07stream) Read(b []byte) (int, error) {
	if s.pos >= len(s.in) {
		return 0, io.EOF
	}
	n := copy(b, s.in[s.pos:])
	s.pos += n
	return n, nil
}
func (s *vC07stream) Write(b []byte) (int, error) { return len(b), nil }
func (s *vC07stream) Close() error                { s.log = append(s.log, "close"); return nil }
func (s *vC07stream) CloseWrite() error           { s.log = append(s.log, "closewrite"); return nil }
func (s *vC07stream) Reset() error                { s.resets++; return nil }
func (s *vC07stream) ResetWithError(network.StreamErrorCode) error {
	s.resets++
	return nil
}
func (s *vC07stream) SetDeadline(t time.Time) error {
	s.deadlines++
	if s.deadlines == s.deadlineFail {
		return errors.New("deadline")
	}
	s.rdArmed, s.wrArmed = !t.IsZero(), !t.IsZero()
	return nil
}
func (s *vC07stream) SetReadDeadline(t time.Time) error {
	s.log = append(s.log, "readdeadline")
	s.rdArmed = !t.IsZero()
	return nil
}
func (s *vC07stream) SetWriteDeadline(t time.Time) error {
	s.wrArmed = !t.IsZero()
	return nil
}
func (s *vC07stream) Conn() network.Conn    { return vC07conn{} }
func (s *vC07stream) ID() string            { return "s1" }
func (s *vC07stream) Protocol() protocol.ID { return s.proto }
func (s *vC07stream) SetProtocol(p protocol.ID) error {
	if s.setProtoFail {
		return errors.New("resource limit exceeded")
	}
	s.proto = p
	return nil
}

type vC07emitter struct{}

func (vC07emitter) Emit(interface{}) error { return nil }
func (vC07emitter) Close() error           { return nil }

func vC07msg(s string) []byte {
	b := []byte{byte(len(s) + 1)}
	b = append(b, s...)
	return append(b, '\n')
}

var vC07protos = []protocol.ID{"/proto/a", "/proto/b", "/proto/c", "", "/proto/m/1.3.0"}

func vC07match(p protocol.ID) bool { return len(p) > 9 && p[:9] == "/proto/m/" }

func VerifC07aNewStreamHandler() {
	h := &BasicHost{mux: msmux.NewMultistreamMuxer[protocol.ID]()}
	h.emitters.evtLocalProtocolsUpdated = vC07emitter{}
	var ran []string
	var seenProto []protocol.ID
	var armed []bool
	h.SetStreamHandler("/proto/a", func(s network.Stream) {
		ran = append(ran, "a")
		seenProto = append(seenProto, s.Protocol())
		armed = append(armed, vC07armed(s))
	})
	h.SetStreamHandler("/proto/b", func(s network.Stream) {
		ran = append(ran, "b")
		seenProto = append(seenProto, s.Protocol())
		armed = append(armed, vC07armed(s))
	})
	h.SetStreamHandlerMatch("/proto/m/1.0.0", vC07match, func(s network.Stream) {
		ran = append(ran, "m")
		seenProto = append(seenProto, s.Protocol())
		armed = append(armed, vC07armed(s))
	})
	removedB := vBool()
	if removedB {
		h.Mux().RemoveHandler("/proto/b")
	}
	if vBool() {
		h.negtimeout = time.Second
	}
	req := vCase(5) // 0 a, 1 b, 2 unregistered c, 3 EOF, 4 a version accepted by m's match function
	st := &vC07stream{setProtoFail: vBool(), deadlineFail: vCase(3)}
	if req != 3 {
		st.in = append(vC07msg("/multistream/1.0.0"), vC07msg(string(vC07protos[req]))...)
	}
	vSetUnwind(400)
	h.newStreamHandler(st)
	negotiable := req == 0 || (req == 1 && !removedB) || req == 4
	deadlineOK := h.negtimeout == 0 || st.deadlineFail == 0 || st.deadlineFail > st.deadlines
	if len(ran) > 0 {
		vCover("handler-ran")
		vAssert(len(ran) == 1, "exactly one handler runs")
		vAssert(negotiable && !st.setProtoFail && deadlineOK, "a handler runs only if negotiation, deadlines and SetProtocol all succeeded")
		want := "a"
		if req == 1 {
			want = "b"
		}
		if req == 4 {
			want = "m"
			vCover("match-function-handler")
		}
		vAssert(ran[0] == want, "the handler registered for the negotiated protocol runs, no other")
		vAssert(seenProto[0] == vC07protos[req] && st.proto == vC07protos[req], "the handler runs on a stream that already reports the negotiated protocol")
		vAssert(st.resets == 0, "a stream handed to a handler is not reset")
		vAssert(!armed[0], "when the handler runs neither half of the negotiation deadline is still armed: the bytes the two sides then exchange are not cut off by it")
	} else {
		vCover("no-handler")
		vAssert(!(negotiable && !st.setProtoFail && deadlineOK), "when every step succeeds the handler does run")
		vAssert(st.resets >= 1, "a stream that reaches no handler is reset")
	}
	if req == 1 && removedB {
		vCover("removed-handler-requested")
	}
}

func vC07armed(s network.Stream) bool {
	if st, ok := s.(*vC07stream); ok {
		return st.rdArmed || st.wrArmed
	}
	return false
}

// ---- C07.c ----

type vC07lazy struct {
	st  *vC07stream
	log *[]string
}

func (l *vC07lazy) Read(b []byte) (int, error) {
	*l.log = append(*l.log, "lazy-read")
	return 0, io.EOF
}
func (l *vC07lazy) Write(b []byte) (int, error) {
	*l.log = append(*l.log, "lazy-write")
	return len(b), nil
}
func (l *vC07lazy) Close() error { *l.log = append(*l.log, "lazy-close"); return nil }
func (l *vC07lazy) Flush() error {
	*l.log = append(*l.log, "flush")
	return errors.New("remote closed for reading")
}

func VerifC07cStreamWrapper() {
	st := &vC07stream{}
	lz := &vC07lazy{st: st, log: &st.log}
	w := &streamWrapper{Stream: st, rw: lz}
	switch vCase(4) {
	case 0:
		w.CloseWrite()
		vAssert(len(st.log) == 2 && st.log[0] == "flush" && st.log[1] == "closewrite", "CloseWrite flushes the pending protocol header before half-closing (a flush error is not fatal)")
	case 1:
		w.Read(make([]byte, 1))
		vAssert(len(st.log) == 1 && st.log[0] == "lazy-read", "Read goes through the lazy multistream connection")
	case 2:
		w.Write([]byte{1})
		vAssert(len(st.log) == 1 && st.log[0] == "lazy-write", "Write goes through the lazy multistream connection")
	case 3:
		w.Close()
		vAssert(len(st.log) == 2 && st.log[0] == "readdeadline" && st.log[1] == "lazy-close", "Close bounds the handshake wait and closes through the lazy connection")
	}
}
