//go:build verif

//verif:dir p2p/protocol/autonatv2
//verif:subst p2p/protocol/autonatv2 github.com/libp2p/go-msgio/pbio.NewDelimitedReader verifNewDelimitedReader
//verif:subst p2p/protocol/autonatv2 github.com/libp2p/go-msgio/pbio.NewDelimitedWriter verifNewDelimitedWriter
//verif:subst p2p/protocol/autonatv2 github.com/multiformats/go-multiaddr/net.IsPublicAddr verifIsPublicAddr
//verif:hook p2p/protocol/autonatv2 getDialData
//verif:hook p2p/protocol/autonatv2 server.dialBack
//verif:replace github.com/multiformats/go-multiaddr.NewMultiaddrBytes vC16addrFromBytes
//verif:shard VerifC16dServeDialRequest 16
//verif:obligation C16.d serveDialRequest dominance, on every path through the real function for requests of <= 3 addresses with symbolic flags per address (unparsable, public, dialable, foreign IP = dial data required), every limiter answer and every read / write / resource failure: the server dials back at most once, only the requesting peer, only an address taken from the request - the first one that parses, is public (unless private addresses are allowed) and dialable, and the response reports exactly that index; when that address requires dial data the dial happens only after the dial-data rate limiter admitted the request AND the client's dial data was received in full; a request naming no public dialable address is answered E_DIAL_REFUSED without any dial; a request the limiter rejects is answered E_REQUEST_REJECTED without any dial; every admitted request releases its concurrency slot exactly once (also while another request of the same peer is in flight) and its reserved memory
//verif:obligation C16.f the limits given to WithServerRateLimit (symbolic values) are exactly the limits the server's rate limiter enforces - global, per peer, dial data, per-peer concurrency - and the default server is limited in every dimension
//verif:bound <= 3 addresses per request, one request per run
//verif:stub stream / scope / host / network stubs; pbio reader and writer substituted at their call sites (protobuf I/O); getDialData (whose byte accounting is C16.b) and dialBack (C16.c) hooked to ghost events; multiaddr parsing replaced by atoms in the symbolic run, IsPublicAddr substituted by the per-address flag; zero dial wait
//verif:outside more than 3 addresses, concurrent requests, the deadline expiring during the anti-thundering-herd wait
package autonatv2

import (
	"context"
	"errors"
	"fmt"
	"io"
	"time"

	"github.com/libp2p/go-libp2p/core/host"
	"github.com/libp2p/go-libp2p/core/network"
	"github.com/libp2p/go-libp2p/core/peer"
	"github.com/libp2p/go-libp2p/p2p/protocol/autonatv2/pb"
	"github.com/libp2p/go-msgio/pbio"
	ma "github.com/multiformats/go-multiaddr"
	"google.golang.org/protobuf/proto"
)

func vC16addrFromBytes(b []byte) (ma.Multiaddr, error) {
	if len(b) < 2 {
		return nil, errors.New("invalid multiaddr")
	}
	return ma.StringCast(string(b[1:])), nil
}

func vC16mkAddr(i int) ma.Multiaddr {
	if vNative() {
		return ma.StringCast(fmt.Sprintf("/ip4/8.8.%d.1/tcp/4001", i))
	}
	return ma.StringCast(fmt.Sprintf("/atom/%d", i))
}

type vC16sscope struct {
	network.StreamScope
	failService, failMemory bool
	reserved, released      int
}

func (s *vC16sscope) SetService(string) error {
	if s.failService {
		return errors.New("service refused")
	}
	return nil
}
func (s *vC16sscope) ReserveMemory(n int, p uint8) error {
	if s.failMemory {
		return errors.New("memory refused")
	}
	s.reserved += n
	return nil
}
func (s *vC16sscope) ReleaseMemory(n int) { s.released += n }

type vC16sconn struct {
	network.Conn
	addr ma.Multiaddr
}

func (c *vC16sconn) RemotePeer() peer.ID           { return "client" }
func (c *vC16sconn) RemoteMultiaddr() ma.Multiaddr { return c.addr }

type vC16sstream struct {
	network.Stream
	scope  *vC16sscope
	conn   *vC16sconn
	resets int
	closes int
}

func (s *vC16sstream) Scope() network.StreamScope  { return s.scope }
func (s *vC16sstream) Conn() network.Conn          { return s.conn }
func (s *vC16sstream) Reset() error                { s.resets++; return nil }
func (s *vC16sstream) Close() error                { s.closes++; return nil }
func (s *vC16sstream) SetDeadline(time.Time) error { return nil }
func (s *vC16sstream) Read(b []byte) (int, error)  { return 0, io.EOF }
func (s *vC16sstream) Write(b []byte) (int, error) { return len(b), nil }

type vC16snet struct {
	network.Network
	can   []bool
	addrs []ma.Multiaddr
}

func (n *vC16snet) CanDial(p peer.ID, a ma.Multiaddr) bool {
	for i := range n.addrs {
		if n.addrs[i].Equal(a) {
			return n.can[i] && p == "client"
		}
	}
	return false
}

type vC16shost struct {
	host.Host
	nw *vC16snet
}

func (h *vC16shost) Network() network.Network { return h.nw }

type vC16sreader struct {
	msg  *pb.Message
	fail bool
}

func (r *vC16sreader) ReadMsg(m proto.Message) error {
	if r.fail {
		return errors.New("read failed")
	}
	*(m.(*pb.Message)) = *r.msg
	return nil
}
func (r *vC16sreader) Close() error { return nil }

type vC16swriter struct {
	log    []string
	failAt int
	idx    []uint32
}

func (w *vC16swriter) WriteMsg(m proto.Message) error {
	msg := m.(*pb.Message)
	switch {
	case msg.GetDialResponse() != nil:
		switch msg.GetDialResponse().GetStatus() { // no String(): protobuf descriptors are not initialised in the symbolic run
		case pb.DialResponse_E_DIAL_REFUSED:
			w.log = append(w.log, "response:E_DIAL_REFUSED")
		case pb.DialResponse_E_REQUEST_REJECTED:
			w.log = append(w.log, "response:E_REQUEST_REJECTED")
		case pb.DialResponse_OK:
			w.log = append(w.log, "response:OK")
		default:
			w.log = append(w.log, "response:other")
		}
		w.idx = append(w.idx, msg.GetDialResponse().GetAddrIdx())
	case msg.GetDialDataRequest() != nil:
		w.log = append(w.log, "dial-data-request")
	default:
		w.log = append(w.log, "other")
	}
	if len(w.log) == w.failAt {
		return errors.New("write failed")
	}
	return nil
}
func (w *vC16swriter) Close() error { return nil }

func VerifC16dServeDialRequest() {
	first := vCase(16) // split: flags of the first address x another request of the same peer in flight
	shape, other := first%8, first/8
	n := 1 + vCase(3)
	addrs := make([]ma.Multiaddr, n)
	bad, pub, can, foreign := make([]bool, n), make([]bool, n), make([]bool, n), make([]bool, n)
	req := &pb.DialRequest{Nonce: 42}
	for i := 0; i < n; i++ {
		addrs[i] = vC16mkAddr(i)
		if i == 0 {
			bad[i], pub[i], can[i] = shape&1 != 0, shape&2 != 0, shape&4 != 0
			foreign[i] = vBool()
		} else {
			bad[i], pub[i], can[i], foreign[i] = vBool(), vBool(), vBool(), vBool()
		}
		if bad[i] {
			req.Addrs = append(req.Addrs, []byte{0xff})
		} else {
			req.Addrs = append(req.Addrs, addrs[i].Bytes())
		}
	}
	idxOf := func(a ma.Multiaddr) int {
		for i := range addrs {
			if addrs[i].Equal(a) {
				return i
			}
		}
		return -1
	}
	savedR, savedW, savedP := verifNewDelimitedReader, verifNewDelimitedWriter, verifIsPublicAddr
	rd := &vC16sreader{msg: &pb.Message{Msg: &pb.Message_DialRequest{DialRequest: req}}, fail: vBool()}
	if vBool() {
		rd.msg = &pb.Message{} // not a dial request
		vCover("wrong-message-type")
	}
	wr := &vC16swriter{failAt: vCase(3)}
	verifNewDelimitedReader = func(r io.Reader, max int) pbio.ReadCloser { return rd }
	verifNewDelimitedWriter = func(w io.Writer) pbio.WriteCloser { return wr }
	verifIsPublicAddr = func(a ma.Multiaddr) bool { i := idxOf(a); return i >= 0 && pub[i] }
	var events []string
	dataFail := vBool()
	VerifHook_getDialData = func(w pbio.Writer, s network.Stream, msg *pb.Message, addrIdx int) error {
		events = append(events, fmt.Sprint("dial-data:", addrIdx))
		if dataFail {
			return errors.New("dial data refused")
		}
		return nil
	}
	var dialedPeer peer.ID
	dialedIdx := -1
	VerifHook_server_dialBack = func(as *server, ctx context.Context, p peer.ID, a ma.Multiaddr, nonce uint64) pb.DialStatus {
		events = append(events, "dial-back")
		dialedPeer, dialedIdx = p, idxOf(a)
		return pb.DialStatus_OK
	}
	defer func() {
		verifNewDelimitedReader, verifNewDelimitedWriter, verifIsPublicAddr = savedR, savedW, savedP
		VerifHook_getDialData, VerifHook_server_dialBack = nil, nil
	}()
	allowPrivate := vBool()
	vC16now = time.Unix(1000, 0)
	lim := &rateLimiter{RPM: vCase(2), PerPeerRPM: 1, DialDataRPM: vCase(2), MaxConcurrentRequestsPerPeer: 2, now: func() time.Time { return vC16now }}
	if other > 0 {
		lim.peerReqs = map[peer.ID][]time.Time{} // init() creates both maps together
		lim.inProgressReqs = map[peer.ID]int{"client": other}
	}
	as := &server{dialerHost: &vC16shost{nw: &vC16snet{can: can, addrs: addrs}}, limiter: lim, allowPrivateAddrs: allowPrivate,
		now: func() time.Time { return vC16now }, dialDataRequestPolicy: func(observed, dial ma.Multiaddr) bool { return foreign[idxOf(dial)] }}
	sc := &vC16sscope{failService: vBool(), failMemory: vBool()}
	st := &vC16sstream{scope: sc, conn: &vC16sconn{addr: ma.StringCast("/ip4/9.9.9.9/tcp/1")}}
	evt := as.serveDialRequest(st)
	_ = evt
	// the address the statement allows: first parsable, public (or private allowed), dialable
	want := -1
	for i := 0; i < n; i++ {
		if !bad[i] && (pub[i] || allowPrivate) && can[i] {
			want = i
			break
		}
	}
	ndials := 0
	sawData, dataBeforeDial := false, false
	for _, e := range events {
		if e == "dial-back" {
			ndials++
			dataBeforeDial = sawData
		} else {
			sawData = true
		}
	}
	vAssert(ndials <= 1, "at most one dial-back per request")
	vAssert(sc.reserved == sc.released, "memory reserved for the request is released")
	vAssert(lim.inProgressReqs["client"] == other, "the request's concurrency slot is released exactly once")
	if ndials == 1 {
		vCover("dialed-back")
		vAssert(dialedPeer == "client", "the server dials back only the requesting peer")
		vAssert(want >= 0 && dialedIdx == want, "the server dials only the first public, dialable address of the request")
		if foreign[dialedIdx] {
			vCover("dial-after-data")
			vAssert(lim.DialDataRPM >= 1, "a dial that needs dial data happens only if the dial-data limiter admitted it")
			vAssert(dataBeforeDial && !dataFail, "a dial to a foreign IP happens only after the client's dial data was received")
		}
		if len(wr.idx) > 0 {
			vAssert(int(wr.idx[len(wr.idx)-1]) == dialedIdx, "the response reports the index of the address that was dialed")
		}
	} else {
		vCover("no-dial")
		last := ""
		if len(wr.log) > 0 {
			last = wr.log[len(wr.log)-1]
		}
		accepted := lim.RPM >= 1
		if accepted && !sc.failService && !sc.failMemory && !rd.fail && rd.msg.GetDialRequest() != nil && want < 0 {
			vCover("refused")
			vAssert(last == "response:E_DIAL_REFUSED", "a request naming no public, dialable address is refused without any dial")
		}
		if !accepted && !sc.failService && !sc.failMemory {
			vCover("rate-limited")
			vAssert(last == "response:E_REQUEST_REJECTED", "a request over the rate limit is rejected without any dial")
		}
	}
}

// ---- C16.f: the configured limits reach the limiter ----

func VerifC16fConfiguredLimits() {
	rpm, perPeer, dialData, conc := vRange(0, 1000), vRange(0, 1000), vRange(0, 1000), vRange(0, 10)
	set := defaultSettings()
	vAssert(WithServerRateLimit(rpm, perPeer, dialData, conc)(set) == nil, "option applies")
	as := newServer(nil, set)
	lim := as.limiter
	vAssert(lim.RPM == rpm, "the configured global limit is the one enforced")
	vAssert(lim.PerPeerRPM == perPeer, "the configured per-peer limit is the one enforced")
	vAssert(lim.DialDataRPM == dialData, "the configured dial-data limit is the one enforced")
	vAssert(lim.MaxConcurrentRequestsPerPeer == conc, "the configured per-peer concurrency is the one enforced")
	def := newServer(nil, defaultSettings()).limiter
	vAssert(def.RPM > 0 && def.PerPeerRPM > 0 && def.DialDataRPM > 0 && def.MaxConcurrentRequestsPerPeer > 0, "the default server is rate limited in every dimension")
}
