//go:build verif

//verif:dir p2p/net/conngater
//verif:subst p2p/net/conngater github.com/multiformats/go-multiaddr/net.ToIP verifToIP
//verif:replace (net.IP).String vC10ipString
//verif:replace (*net.IPNet).String vC10netString
//verif:replace (github.com/libp2p/go-libp2p/core/peer.ID).String vC10peerString
//verif:replace net.ParseCIDR vC10parseCIDR
//verif:replace (net/netip.Addr).String vC10netipString
//verif:replace github.com/ipfs/go-datastore.NewKey vC10newKey
//verif:shard VerifC10aDecision 8
//verif:shard VerifC10bPersistence 16
//verif:obligation C10.a gater decisions over symbolic IP bytes: for every remote IPv4 address, every blocked-address rule (stored from the 4-byte or the 16-byte v4-mapped form) and every blocked subnet (network given in 4-byte or 16-byte form, prefix lengths /0 /8 /12 /16 /24 /31 /32), InterceptAddrDial and InterceptAccept give the same answer for the 4-byte form of the remote and for its IPv4-mapped IPv6 form, refuse an exactly blocked address, refuse every address inside a blocked subnet, and admit when no rule matches; native IPv6 remotes against IPv6 subnets likewise; InterceptPeerDial / InterceptSecured refuse exactly the blocked peers (inbound)
//verif:obligation C10.b persistence: every Block*/Unblock* call writes to the datastore before touching memory; if the datastore fails the error is returned and memory is unchanged; after every acknowledged call of every history of 3 calls over peers, addresses and subnets (including two subnets with the same network address and different prefix lengths) the persisted rule set decodes to exactly the in-memory rule set, so a restart at any point enforces every acknowledged block and no acknowledged unblock; after the history a fresh gater loads the rules through the REAL loadRules from the same datastore: exactly the same rules are in force under the same names, and every subnet rule (also one given with host bits set, e.g. 10.1.2.3/16) can then be lifted: it is no longer in force, listed or persisted
//verif:bound one blocked address + one blocked subnet per decision; histories of 3 Block/Unblock calls over 2 peers, 2 addresses, 4 subnets, then one restart; datastore failures symbolic per call
//verif:stub manet.ToIP substituted at its call sites by a harness function returning the symbolic IP; net.IP.String / net.IPNet.String / peer.ID.String / datastore.NewKey replaced in the symbolic run by injective functions (and net.ParseCIDR by the inverse of that IPNet text form, host bits cleared as the real one does) of the (To4-normalised) bytes - their stdlib / library contract; datastore = harness map with symbolic failures
//verif:outside the inbound gating call sites of each transport (the upgrader and the gated listener are covered under C04.a/b, the swarm's outbound sites under C10.c), QUIC/WebTransport/WebRTC listeners, a real datastore's crash semantics, a real datastore's query engine (the stub filters by prefix and returns go-datastore's ResultsWithEntries)
package conngater

import (
	"context"
	"errors"
	"net"
	"net/netip"

	"github.com/ipfs/go-datastore"
	"github.com/ipfs/go-datastore/query"
	"github.com/libp2p/go-libp2p/core/network"
	"github.com/libp2p/go-libp2p/core/peer"
	ma "github.com/multiformats/go-multiaddr"
)

// ---- injective text forms (symbolic run only; natively the real functions run) ----

func vC10norm(ip net.IP) []byte {
	if len(ip) == 16 {
		z := true
		for i := 0; i < 10; i++ {
			z = vAnd(z, ip[i] == 0)
		}
		if vAnd(z, vAnd(ip[10] == 0xff, ip[11] == 0xff)) {
			return ip[12:16]
		}
	}
	return ip
}

func vC10ipString(ip net.IP) string {
	b := vC10norm(ip)
	if len(b) == 4 {
		return "4:" + string(b)
	}
	return "6:" + string(b)
}

// net/netip's text form (not used by the gater today; a change that formats addresses through netip is then
// decided instead of running into the formatter with symbolic bytes): injective, and - like the real one -
// it does NOT unmap IPv4-mapped IPv6 addresses
func vC10netipString(a netip.Addr) string {
	if a.Is4() {
		b := a.As4()
		return "4:" + string(b[:])
	}
	b := a.As16()
	return "6:" + string(b[:])
}

func vC10netString(n *net.IPNet) string {
	return vC10ipString(n.IP) + "/" + string(n.Mask)
}

func vC10peerString(p peer.ID) string { return "b58:" + string(p) }

// inverse of vC10netString with net.ParseCIDR's semantics (the returned network has its host bits cleared)
func vC10parseCIDR(s string) (net.IP, *net.IPNet, error) {
	n := 4
	if len(s) > 2 && s[0] == '6' {
		n = 16
	}
	if len(s) < 2+n+1+n || s[1] != ':' || s[2+n] != '/' {
		return nil, nil, errors.New("invalid CIDR address")
	}
	ip := net.IP(s[2 : 2+n])
	mask := net.IPMask(s[3+n:])
	return ip, &net.IPNet{IP: ip.Mask(mask), Mask: mask}, nil
}

func vC10newKey(s string) datastore.Key { return datastore.RawKey(s) }

var vC10ip net.IP

func vC10toIP(a ma.Multiaddr) (net.IP, error) { return vC10ip, nil }

type vC10cma struct{ network.ConnMultiaddrs }

func (vC10cma) RemoteMultiaddr() ma.Multiaddr { return nil }

func vC10mapped(ip4 net.IP) net.IP {
	return net.IP{0, 0, 0, 0, 0, 0, 0, 0, 0, 0, 0xff, 0xff, ip4[0], ip4[1], ip4[2], ip4[3]}
}

var vC10prefixes = []int{0, 8, 12, 16, 24, 31, 32}

func vC10decide(cg *BasicConnectionGater, ip net.IP, accept bool) bool {
	vC10ip = ip
	if accept {
		return cg.InterceptAccept(vC10cma{})
	}
	return cg.InterceptAddrDial("p", nil)
}

func VerifC10aDecision() {
	shape := vCase(8) // split: rule forms
	saved := verifToIP
	verifToIP = vC10toIP
	defer func() { verifToIP = saved }()
	cg := &BasicConnectionGater{blockedPeers: map[peer.ID]struct{}{}, blockedAddrs: map[string]struct{}{}, blockedSubnets: map[string]*net.IPNet{}}
	remote := net.IP{vUint8(), vUint8(), vUint8(), vUint8()}
	// a blocked address, stored through the real BlockAddr from either form
	hasAddr := shape&1 != 0
	blocked := net.IP{vUint8(), vUint8(), vUint8(), vUint8()}
	if hasAddr {
		b := blocked
		if vBool() {
			b = vC10mapped(blocked)
		}
		vAssert(cg.BlockAddr(b) == nil, "block-addr")
	}
	// a blocked subnet, network in 4- or 16-byte form
	hasNet := shape&2 != 0
	netIP := net.IP{vUint8(), vUint8(), vUint8(), vUint8()}
	bits := vC10prefixes[vCase(len(vC10prefixes))]
	var subnet *net.IPNet
	if hasNet {
		if shape&4 != 0 {
			subnet = &net.IPNet{IP: vC10mapped(netIP), Mask: net.CIDRMask(96+bits, 128)}
			vCover("subnet-in-16-byte-form")
		} else {
			subnet = &net.IPNet{IP: netIP, Mask: net.CIDRMask(bits, 32)}
		}
		cg.blockedSubnets["subnet"] = subnet
	}
	accept := vBool()
	d4 := vC10decide(cg, remote, accept)
	d16 := vC10decide(cg, vC10mapped(remote), accept)
	vAssert(d4 == d16, "an IPv4 remote and its IPv4-mapped IPv6 form get the same decision")
	same := vAnd(vAnd(remote[0] == blocked[0], remote[1] == blocked[1]), vAnd(remote[2] == blocked[2], remote[3] == blocked[3]))
	// membership in the subnet, computed from the prefix length
	m := net.CIDRMask(bits, 32)
	in := true
	for i := 0; i < 4; i++ {
		in = vAnd(in, remote[i]&m[i] == netIP[i]&m[i])
	}
	expectBlock := vOr(vAnd(hasAddr, same), vAnd(hasNet, in))
	if !d4 {
		vCover("refused")
	} else {
		vCover("admitted")
	}
	vAssert(d4 == !expectBlock, "refused iff the address is blocked exactly or lies inside a blocked subnet")
}

func VerifC10aDecisionV6() {
	saved := verifToIP
	verifToIP = vC10toIP
	defer func() { verifToIP = saved }()
	cg := &BasicConnectionGater{blockedPeers: map[peer.ID]struct{}{}, blockedAddrs: map[string]struct{}{}, blockedSubnets: map[string]*net.IPNet{}}
	remote := make(net.IP, 16)
	netIP := make(net.IP, 16)
	remote[0], netIP[0] = 0x20, 0x20
	for i := 1; i < 4; i++ {
		remote[i], netIP[i] = vUint8(), vUint8()
	}
	remote[15] = vUint8()
	bits := []int{8, 16, 20, 32, 128}[vCase(5)]
	cg.blockedSubnets["subnet"] = &net.IPNet{IP: netIP, Mask: net.CIDRMask(bits, 128)}
	m := net.CIDRMask(bits, 128)
	in := true
	for i := 0; i < 16; i++ {
		in = vAnd(in, remote[i]&m[i] == netIP[i]&m[i])
	}
	accept := vBool()
	d := vC10decide(cg, remote, accept)
	vAssert(d == !in, "an IPv6 remote is refused iff it lies inside the blocked IPv6 subnet")
}

func VerifC10aPeers() {
	cg := &BasicConnectionGater{blockedPeers: map[peer.ID]struct{}{}, blockedAddrs: map[string]struct{}{}, blockedSubnets: map[string]*net.IPNet{}}
	peers := []peer.ID{"peerA", "peerB"}
	b := vCase(3)
	if b < 2 {
		vAssert(cg.BlockPeer(peers[b]) == nil, "block")
	}
	q := peers[vCase(2)]
	isBlocked := b < 2 && peers[b] == q
	vAssert(cg.InterceptPeerDial(q) == !isBlocked, "a dial to a blocked peer is refused before any transport dial")
	vAssert(cg.InterceptSecured(network.DirInbound, q, nil) == !isBlocked, "an inbound connection from a blocked peer is refused right after the handshake")
	vAssert(cg.InterceptSecured(network.DirOutbound, q, nil), "outbound connections were already filtered at dial time")
}

// ---- C10.b persistence ----

type vC10store struct {
	datastore.Datastore
	m      map[string]string
	fail   []bool
	n      int
	cg     *BasicConnectionGater
	memAt  int // size of the in-memory rule sets observed at the time of the last datastore operation
	opSeen bool
}

func (s *vC10store) memSize() int {
	return len(s.cg.blockedPeers) + len(s.cg.blockedAddrs) + len(s.cg.blockedSubnets)
}

func (s *vC10store) Put(ctx context.Context, k datastore.Key, v []byte) error {
	s.opSeen, s.memAt = true, s.memSize()
	f := s.fail[s.n%len(s.fail)]
	s.n++
	if f {
		return errors.New("datastore write failed")
	}
	s.m[k.String()] = string(v)
	return nil
}

func (s *vC10store) Delete(ctx context.Context, k datastore.Key) error {
	s.opSeen, s.memAt = true, s.memSize()
	f := s.fail[s.n%len(s.fail)]
	s.n++
	if f {
		return errors.New("datastore delete failed")
	}
	delete(s.m, k.String())
	return nil
}

func (s *vC10store) Query(ctx context.Context, q query.Query) (query.Results, error) {
	var es []query.Entry
	for k, v := range s.m {
		if len(k) >= len(q.Prefix) && k[:len(q.Prefix)] == q.Prefix {
			es = append(es, query.Entry{Key: k, Value: []byte(v)})
		}
	}
	return query.ResultsWithEntries(q, es), nil
}

var vC10peers = []peer.ID{"peerA", "peerB"}
var vC10addrs = []net.IP{{1, 2, 3, 4}, {5, 6, 7, 8}}
var vC10nets = []*net.IPNet{
	{IP: net.IP{10, 0, 0, 0}, Mask: net.CIDRMask(8, 32)},
	{IP: net.IP{10, 0, 0, 0}, Mask: net.CIDRMask(16, 32)}, // same network address, other prefix length
	{IP: net.IP{192, 168, 0, 0}, Mask: net.CIDRMask(16, 32)},
	{IP: net.IP{10, 1, 2, 3}, Mask: net.CIDRMask(16, 32)}, // not canonical: host bits set ("10.1.2.3/16")
}

// decode the persisted rules the way loadRules does (value -> in-memory key) and compare with memory
func vC10persistedEqualsMemory(s *vC10store) bool {
	np, na, nn := 0, 0, 0
	ok := true
	for k, v := range s.m {
		switch {
		case len(k) > 6 && k[:6] == "/peer/":
			np++
			_, in := s.cg.blockedPeers[peer.ID(v)]
			ok = ok && in
		case len(k) > 6 && k[:6] == "/addr/":
			na++
			_, in := s.cg.blockedAddrs[net.IP(v).String()]
			ok = ok && in
		case len(k) > 8 && k[:8] == "/subnet/":
			nn++
			_, in := s.cg.blockedSubnets[v]
			ok = ok && in
		default:
			ok = false
		}
	}
	return ok && np == len(s.cg.blockedPeers) && na == len(s.cg.blockedAddrs) && nn == len(s.cg.blockedSubnets)
}

func VerifC10bPersistence() {
	cg := &BasicConnectionGater{blockedPeers: map[peer.ID]struct{}{}, blockedAddrs: map[string]struct{}{}, blockedSubnets: map[string]*net.IPNet{}}
	st := &vC10store{m: map[string]string{}, fail: vBoolSlice(3), cg: cg}
	cg.ds = st
	for step := 0; step < 3; step++ {
		before := st.memSize()
		st.opSeen = false
		var err error
		op := vCase(16) // item (2 peers, 2 addresses, 4 subnets) x block / unblock
		item, unblock := op%8, op/8 == 1
		switch {
		case item < 2:
			p := vC10peers[item]
			if unblock {
				err = cg.UnblockPeer(p)
			} else {
				err = cg.BlockPeer(p)
			}
		case item < 4:
			a := vC10addrs[item-2]
			if unblock {
				err = cg.UnblockAddr(a)
			} else {
				err = cg.BlockAddr(a)
			}
		default:
			n := vC10nets[item-4]
			if unblock {
				err = cg.UnblockSubnet(n)
			} else {
				err = cg.BlockSubnet(n)
			}
		}
		vAssert(st.opSeen && st.memAt == before, "the datastore is written before the in-memory rules change")
		if err != nil {
			vCover("datastore-failed")
			vAssert(st.memSize() == before, "a failed datastore operation leaves the in-memory rules unchanged")
		}
		vAssert(vC10persistedEqualsMemory(st), "after every call the persisted rules decode to exactly the in-memory rules")
	}
	if len(cg.blockedSubnets) == 2 {
		vCover("two-subnets")
	}
	// restart: a fresh gater on the same datastore, rules decoded by the real loadRules
	cg2 := &BasicConnectionGater{blockedPeers: map[peer.ID]struct{}{}, blockedAddrs: map[string]struct{}{}, blockedSubnets: map[string]*net.IPNet{}}
	st2 := &vC10store{m: st.m, fail: []bool{false}, cg: cg2}
	cg2.ds = st2
	vAssert(cg2.loadRules(context.Background()) == nil, "the persisted rules load")
	same := len(cg2.blockedPeers) == len(cg.blockedPeers) && len(cg2.blockedAddrs) == len(cg.blockedAddrs) && len(cg2.blockedSubnets) == len(cg.blockedSubnets)
	for k := range cg.blockedPeers {
		_, in := cg2.blockedPeers[k]
		same = same && in
	}
	for k := range cg.blockedAddrs {
		_, in := cg2.blockedAddrs[k]
		same = same && in
	}
	for k, n := range cg.blockedSubnets {
		n2, in := cg2.blockedSubnets[k]
		same = same && in && n2 != nil && n2.String() != "" && n2.Contains(n.IP) && n2.Mask.String() == n.Mask.String()
	}
	vAssert(same, "after a restart exactly the rules that were in force are in force again, under the same names")
	// every rule that survived the restart can be lifted again, and is then neither enforced nor listed nor persisted
	for _, n := range vC10nets {
		if _, in := cg2.blockedSubnets[n.String()]; in {
			vCover("unblock-after-restart")
			vAssert(cg2.UnblockSubnet(n) == nil, "unblock after restart")
			_, still := cg2.blockedSubnets[n.String()]
			vAssert(!still, "a subnet unblocked after a restart is no longer in force")
			for _, left := range cg2.ListBlockedSubnets() {
				vAssert(left.String() != n.String(), "a subnet unblocked after a restart is no longer listed")
			}
		}
	}
	vAssert(len(cg2.blockedSubnets) == 0, "after lifting every subnet rule none is in force")
	vAssert(vC10persistedEqualsMemory(st2), "and the datastore agrees")
}
