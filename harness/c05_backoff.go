//go:build verif

//verif:dir p2p/net/swarm
//verif:subst p2p/net/swarm time.Now verifTimeNow
//verif:obligation C05.h dial back-off bookkeeping (DialBackoff), one operation from every entry state (an address with 1..24 earlier failures and any deadline) at any instant: an address is in back-off exactly while the deadline set by its last failure lies in the future; a failure sets that deadline to now + min(BackoffBase + BackoffCoef * failures^2, BackoffMax) - never below the base, never above the maximum - and counts the failure; Clear releases every address of that peer and of no other; the periodic cleanup never drops a peer that still has an address in back-off (it would be dialed too early)
//verif:bound 2 peers, 2 addresses, failure counts 1..24 (the quadratic term crosses BackoffMax at 18), instants and deadlines anywhere in [2^40, 2^60] ns
//verif:stub time.Now substituted by a harness clock; addresses are atoms
//verif:outside the ticker that triggers cleanup, which failures the dial worker reports (C05.f)
package swarm

import (
	"time"

	"github.com/libp2p/go-libp2p/core/peer"
	ma "github.com/multiformats/go-multiaddr"
)

func VerifC05hBackoff() {
	saved := verifTimeNow
	now := int64(vRange(1<<40, 1<<60))
	verifTimeNow = func() time.Time { return time.Unix(0, now) }
	defer func() { verifTimeNow = saved }()
	a, b := ma.StringCast("/ip4/1.1.1.1/tcp/1"), ma.StringCast("/ip4/1.1.1.2/tcp/1")
	const P, Q = peer.ID("peerA"), peer.ID("peerB")
	db := &DialBackoff{entries: map[peer.ID]map[string]*backoffAddr{}}
	has := vBool() // P's address a has failed before
	tries := 1 + vCase(24)
	until := int64(vRange(1<<40, 1<<60))
	if has {
		db.entries[P] = map[string]*backoffAddr{string(a.Bytes()): {tries: tries, until: time.Unix(0, until)}}
	}
	qUntil := int64(vRange(1<<40, 1<<60))
	db.entries[Q] = map[string]*backoffAddr{string(a.Bytes()): {tries: 1, until: time.Unix(0, qUntil)}}
	vAssert(db.Backoff(P, a) == (has && now < until), "an address is in back-off exactly while the deadline of its last failure lies in the future")
	vAssert(!db.Backoff(P, b), "an address that never failed is not in back-off")
	step := time.Duration(0)
	if has {
		step = BackoffBase + BackoffCoef*time.Duration(tries*tries)
		if step > BackoffMax {
			step = BackoffMax
			vCover("capped-at-the-maximum")
		}
	}
	switch vCase(3) {
	case 0:
		db.AddBackoff(P, a)
		e := db.entries[P][string(a.Bytes())]
		vAssert(e != nil, "a failure is recorded")
		d := e.until.UnixNano() - now
		if !has {
			vAssert(e.tries == 1 && d == int64(BackoffBase), "the first failure backs off for the base time")
		} else {
			vAssert(e.tries == tries+1 && d == int64(step), "a repeated failure backs off for min(base + coef * failures^2, max) from now and is counted")
		}
		vAssert(d >= int64(BackoffBase) && d <= int64(BackoffMax), "a back-off is never shorter than the base and never longer than the maximum")
		vAssert(db.Backoff(P, a) && db.entries[Q][string(a.Bytes())].until.UnixNano() == qUntil, "the address is now in back-off; other peers are untouched")
	case 1:
		db.Clear(P)
		vAssert(!db.Backoff(P, a) && len(db.entries[P]) == 0, "a successful dial releases every address of the peer")
		vAssert(db.Backoff(Q, a) == (now < qUntil), "and of no other peer")
	default:
		db.cleanup()
		if has && now < until {
			vCover("cleanup-while-in-back-off")
			vAssert(db.Backoff(P, a), "the periodic cleanup never releases an address that is still in back-off")
		}
		if has && now >= until+int64(step) {
			vCover("cleanup-of-a-stale-entry")
		}
		vAssert(db.Backoff(Q, a) == (now < qUntil), "cleanup of one peer does not release another peer's address early")
	}
}
