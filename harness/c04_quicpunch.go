//go:build verif

//verif:dir p2p/transport/quic
//verif:hook p2p/transport/quicreuse ConnManager.TransportWithAssociationForDial
//verif:subst p2p/transport/quic net.ResolveUDPAddr verifResolveUDPAddr
//verif:also C12 VerifC04iHolePunchHandOver
//verif:obligation C04.i QUIC hole punching (transport.holePunch against the listener's hand-over protocol): when the attempt gives up (its context ends, or sending a punch packet fails) while the listener - holding the hole-punch lock - finds the attempt still registered and hands it the peer's inbound connection, holePunch returns that connection; it never reports failure for a connection it was handed, which would leave an established connection (and its resource scope) owned by nobody; when no connection was handed over it reports the failure; the attempt is unregistered in every case
//verif:bound one attempt; the hand-over happens at the give-up point (the listener holds the lock when the attempt gives up), before it, or not at all; packet send may fail
//verif:stub the QUIC connection manager hands out a stub transport (WriteTo counts / fails); UDP address resolution substituted by a fixed address; the listener's hand-over (listener.Accept needs a real *quic.Conn) is replayed by the harness step for step under the same lock; timers on the virtual clock
//verif:outside the QUIC handshake itself, what listener.Accept does with connections that match no attempt
package libp2pquic

import (
	"context"
	"errors"
	"math/rand"
	"net"

	tpt "github.com/libp2p/go-libp2p/core/transport"
	"github.com/libp2p/go-libp2p/p2p/transport/quicreuse"
	ma "github.com/multiformats/go-multiaddr"
)

type vC04iTr struct {
	quicreuse.RefCountedQUICTransport
	writes, decs int
	failWrite    bool
}

func (t *vC04iTr) WriteTo(b []byte, a net.Addr) (int, error) {
	t.writes++
	if t.failWrite {
		return 0, errors.New("network unreachable")
	}
	return len(b), nil
}
func (t *vC04iTr) DecreaseCount() { t.decs++ }

type vC04iConn struct{ tpt.CapableConn }

func VerifC04iHolePunchHandOver() {
	saved := verifResolveUDPAddr
	udp := &net.UDPAddr{IP: net.IPv4(1, 2, 3, 4), Port: 4001}
	verifResolveUDPAddr = func(network, address string) (*net.UDPAddr, error) { return udp, nil }
	tr := &vC04iTr{}
	quicreuse.VerifHook_ConnManager_TransportWithAssociationForDial = func(c *quicreuse.ConnManager, assoc any, network string, raddr *net.UDPAddr) (quicreuse.RefCountedQUICTransport, error) {
		return tr, nil
	}
	defer func() {
		verifResolveUDPAddr = saved
		quicreuse.VerifHook_ConnManager_TransportWithAssociationForDial = nil
	}()
	t := &transport{connManager: &quicreuse.ConnManager{}, holePunching: map[holePunchKey]*activeHolePunch{}, rnd: *rand.New(rand.NewSource(1))}
	raddr, err := ma.NewMultiaddr("/ip4/1.2.3.4/udp/4001/quic-v1")
	if err != nil {
		panic(err)
	}
	inbound := &vC04iConn{}
	// the listener's hand-over, as listener.Accept performs it under the lock
	handed := false
	handOverLocked := func() {
		for _, hp := range t.holePunching { // the one attempt that is registered (however the transport keys it)
			if !hp.fulfilled {
				hp.connCh <- inbound
				hp.fulfilled = true
				handed = true
			}
		}
	}
	ctx, cancel := context.WithCancel(context.Background())
	defer cancel()
	var got tpt.CapableConn
	var gerr error
	returned := false
	go func() {
		got, gerr = t.holePunch(ctx, raddr, "peerA")
		returned = true
	}()
	settle := func() {
		for i := 0; i < 6; i++ {
			vYield()
		}
	}
	settle()
	vAssert(!returned && tr.writes >= 1, "harness: the attempt is registered and punching")
	switch vCase(3) {
	case 0:
		// the peer's connection arrives while the attempt is giving up: the listener holds the lock
		t.holePunchingMx.Lock()
		cancel()
		settle() // the attempt notices and reaches its give-up path
		handOverLocked()
		t.holePunchingMx.Unlock()
		vCover("handed-over-while-giving-up")
	case 1:
		t.holePunchingMx.Lock()
		handOverLocked()
		t.holePunchingMx.Unlock()
		vCover("handed-over-in-time")
	default:
		cancel()
		vCover("nothing-arrives")
	}
	settle()
	vAssert(returned, "the attempt ends")
	if handed {
		vAssert(gerr == nil && got == tpt.CapableConn(inbound), "a connection the listener handed to the attempt is returned by it - never orphaned behind a failure")
	} else {
		vAssert(got == nil && errors.Is(gerr, ErrHolePunching), "without a connection the attempt reports the failure")
	}
	t.holePunchingMx.Lock()
	still := len(t.holePunching)
	t.holePunchingMx.Unlock()
	vAssert(still == 0, "the attempt is unregistered when it ends")
	vAssert(tr.decs == 1, "the transport reference taken for the attempt is given back")
}
