//go:build verif

//verif:dir p2p/net/upgrader
//verif:hook p2p/net/upgrader upgrader.negotiateSecurity
//verif:obligation C01.f the upgrader's wiring of the expected peer into the security handshake (real setupSecurity): for both roles and with or without a named peer, the negotiated security transport is asked for exactly one handshake - SecureInbound when the local side is the server of the connection (also for a role-reversed simultaneous-open dial), SecureOutbound otherwise - on the raw connection, and it is given exactly the peer ID the caller expects, never an empty or different one; its result and error are returned unchanged
//verif:bound one handshake per run
//verif:stub negotiateSecurity (multistream selection of the security protocol) hooked; the security transport is a recording stub (what Noise / TLS do with the expected peer is C01.a/c/d)
//verif:outside the security protocol negotiation itself
package upgrader

import (
	"context"
	"errors"
	"net"

	"github.com/libp2p/go-libp2p/core/peer"
	"github.com/libp2p/go-libp2p/core/protocol"
	"github.com/libp2p/go-libp2p/core/sec"
)

type vC01fTpt struct {
	calls  []string
	peers  []peer.ID
	conns  []net.Conn
	fail   bool
	result sec.SecureConn
}

func (t *vC01fTpt) SecureInbound(ctx context.Context, c net.Conn, p peer.ID) (sec.SecureConn, error) {
	t.calls, t.peers, t.conns = append(t.calls, "inbound"), append(t.peers, p), append(t.conns, c)
	if t.fail {
		return nil, errors.New("handshake failed")
	}
	return t.result, nil
}
func (t *vC01fTpt) SecureOutbound(ctx context.Context, c net.Conn, p peer.ID) (sec.SecureConn, error) {
	t.calls, t.peers, t.conns = append(t.calls, "outbound"), append(t.peers, p), append(t.conns, c)
	if t.fail {
		return nil, errors.New("handshake failed")
	}
	return t.result, nil
}
func (t *vC01fTpt) ID() protocol.ID { return "/stub-security/1.0.0" }

type vC01fConn struct{ net.Conn }
type vC01fSecConn struct{ sec.SecureConn }

func VerifC01fSetupSecurity() {
	tpt := &vC01fTpt{fail: vBool(), result: &vC01fSecConn{}}
	negFail := vBool()
	VerifHook_upgrader_negotiateSecurity = func(u *upgrader, ctx context.Context, c net.Conn, server bool) (sec.SecureTransport, error) {
		if negFail {
			return nil, errors.New("no common security protocol")
		}
		return tpt, nil
	}
	defer func() { VerifHook_upgrader_negotiateSecurity = nil }()
	u := &upgrader{}
	conn := &vC01fConn{}
	expected := []peer.ID{"", "expected-peer"}[vCase(2)]
	isServer := vBool()
	sc, id, err := u.setupSecurity(context.Background(), conn, expected, isServer)
	if negFail {
		vAssert(err != nil && sc == nil && len(tpt.calls) == 0, "no handshake without a negotiated security protocol")
		return
	}
	vAssert(len(tpt.calls) == 1, "exactly one handshake")
	want := "outbound"
	if isServer {
		want = "inbound"
		vCover("server-role")
	}
	vAssert(tpt.calls[0] == want, "the handshake role follows the connection's direction")
	vAssert(tpt.conns[0] == net.Conn(conn), "on the raw connection")
	vAssert(tpt.peers[0] == expected, "the security handshake is given exactly the peer the caller expects")
	if isServer && expected != "" {
		vCover("server-role-with-expected-peer")
	}
	vAssert((err != nil) == tpt.fail && id == "/stub-security/1.0.0", "its outcome is returned unchanged")
	if err == nil {
		vAssert(sc == sec.SecureConn(tpt.result), "the secured connection is the one the transport produced")
	}
}
