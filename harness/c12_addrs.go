//go:build verif

//verif:dir p2p/net/swarm
//verif:hook p2p/net/swarm Swarm.resolveAddrs
//verif:hook p2p/net/swarm Swarm.filterKnownUndialables
//verif:hook p2p/net/swarm Swarm.TransportForDialing
//verif:obligation C12.d Swarm.addrsForDial: for a peer known by any subset of {a direct address, a relay address, a /dnsaddr whose resolution yields a direct or a relay address}, a dial that demands a direct connection is given no address that is dialed through a proxy (relay) transport - also when the relay address only appears as the result of resolving another address - and stores none as a dial candidate; a dial without that demand keeps them; the direct addresses are never lost
//verif:bound 3 known addresses (each present or not), one resolution step
//verif:stub resolveAddrs (DNS), filterKnownUndialables (identity) and TransportForDialing (proxy transport for the relay atoms) hooked; peerstore stub; multiaddrs are atoms
//verif:outside the resolver chain itself, back-off and black-hole filtering
package swarm

import (
	"context"
	"time"

	"github.com/libp2p/go-libp2p/core/network"
	"github.com/libp2p/go-libp2p/core/peer"
	"github.com/libp2p/go-libp2p/core/peerstore"
	"github.com/libp2p/go-libp2p/core/transport"
	ma "github.com/multiformats/go-multiaddr"
)

type vC12dPs struct {
	peerstore.Peerstore
	known []ma.Multiaddr
	added []ma.Multiaddr
}

func (p *vC12dPs) Addrs(peer.ID) []ma.Multiaddr { return p.known }
func (p *vC12dPs) AddAddrs(_ peer.ID, a []ma.Multiaddr, _ time.Duration) {
	p.added = append(p.added, a...)
}

type vC12dTpt struct {
	transport.Transport
	proxy bool
}

func (t *vC12dTpt) Proxy() bool { return t.proxy }

func VerifC12dAddrsForDial() {
	direct := ma.StringCast("/ip4/1.2.3.4/tcp/1")
	relay := ma.StringCast("/ip4/5.6.7.8/tcp/1/p2p-circuit")
	dnsaddr := ma.StringCast("/dnsaddr/example.com")
	behindDirect := ma.StringCast("/ip4/9.9.9.9/tcp/1")
	behindRelay := ma.StringCast("/ip4/7.7.7.7/tcp/1/p2p-circuit")
	isRelay := func(a ma.Multiaddr) bool { return a.Equal(relay) || a.Equal(behindRelay) }
	ps := &vC12dPs{}
	have := vBoolSlice(3)
	if have[0] {
		ps.known = append(ps.known, direct)
	}
	if have[1] {
		ps.known = append(ps.known, relay)
	}
	if have[2] {
		ps.known = append(ps.known, dnsaddr)
	}
	resolvesToRelay := vBool()
	VerifHook_Swarm_resolveAddrs = func(s *Swarm, ctx context.Context, pi peer.AddrInfo) []ma.Multiaddr {
		var out []ma.Multiaddr
		for _, a := range pi.Addrs {
			if a.Equal(dnsaddr) {
				if resolvesToRelay {
					out = append(out, behindRelay)
				} else {
					out = append(out, behindDirect)
				}
				continue
			}
			out = append(out, a)
		}
		return out
	}
	VerifHook_Swarm_filterKnownUndialables = func(s *Swarm, p peer.ID, addrs []ma.Multiaddr) ([]ma.Multiaddr, []TransportError) {
		return addrs, nil
	}
	VerifHook_Swarm_TransportForDialing = func(s *Swarm, a ma.Multiaddr) transport.Transport {
		if a.Equal(dnsaddr) {
			return nil // nothing dials an unresolved name
		}
		return &vC12dTpt{proxy: isRelay(a)}
	}
	defer func() {
		VerifHook_Swarm_resolveAddrs, VerifHook_Swarm_filterKnownUndialables, VerifHook_Swarm_TransportForDialing = nil, nil, nil
	}()
	s := &Swarm{local: "self", peers: ps}
	ctx := context.Background()
	forceDirect := vBool()
	if forceDirect {
		ctx = network.WithForceDirectDial(ctx, "verif")
	}
	good, _, err := s.addrsForDial(ctx, "peerA")
	has := func(l []ma.Multiaddr, a ma.Multiaddr) bool {
		for _, x := range l {
			if x.Equal(a) {
				return true
			}
		}
		return false
	}
	if forceDirect {
		for _, a := range append(append([]ma.Multiaddr{}, good...), ps.added...) {
			vAssert(!isRelay(a), "a dial that demands a direct connection is never given (or made to remember) a relay address")
		}
		if have[2] && resolvesToRelay {
			vCover("relay-address-behind-a-name")
		}
	} else {
		if have[1] {
			vAssert(has(good, relay), "without that demand relay addresses stay dialable")
		}
	}
	if have[0] {
		vAssert(err == nil && has(good, direct), "a known direct address is always a candidate")
	}
	if have[2] && !resolvesToRelay {
		vAssert(err == nil && has(good, behindDirect), "a direct address behind a name is a candidate")
	}
	if err != nil {
		vCover("no-good-address")
		vAssert(len(good) == 0 && len(ps.added) == 0, "no candidates on error")
	}
}
