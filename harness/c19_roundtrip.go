//go:build verif

//verif:dir p2p/http
//verif:hook p2p/http Host.initDefaultRT
//verif:hook p2p/http/auth ClientPeerIDAuth.AuthenticateWithRoundTripper
//verif:obligation C19.e the name a client authenticates a server under (Host.RoundTrip for an http(s) multiaddr that names the server's peer ID): the handshake - and the bearer token and server identity it caches - is bound to the AUTHORITY that is dialed, host AND port, when the request carries no Host header (two servers on different ports of one machine are different servers: neither may be reported under the other's verified identity or be sent its token), and to the caller's Host header when it carries one; the server identity reported is the one the handshake verified, and a verified identity different from the peer ID in the address fails the request
//verif:bound one request; address with / without TLS + SNI, with / without a caller-supplied Host header; the handshake's answer symbolic (expected peer, another peer, error)
//verif:stub ClientPeerIDAuth.AuthenticateWithRoundTripper hooked to record the request's Host and answer symbolically (the handshake itself is C19.b); the default round-tripper is not built
//verif:outside HTTP transport and TLS, HTTP over libp2p streams, the plain http(s) URL path (it uses the URL's authority as is)
package libp2phttp

import (
	"errors"
	"io"
	"net/http"
	"net/url"
	"strings"

	"github.com/libp2p/go-libp2p/core/peer"
	httpauth "github.com/libp2p/go-libp2p/p2p/http/auth"
)

func VerifC19eRoundTripHost() {
	const id = "QmYyQSo1c1Ym7orWxLYvCrM2EmxFTANf8wXmmE7DWjhx5N"
	const otherID = "QmcgpsyWgH8Y8ajJz1Cu72KnS5uo2Aa2LpzU7kinSupNKC"
	want, err := peer.Decode(id)
	vAssume(err == nil)
	other, err := peer.Decode(otherID)
	vAssume(err == nil)
	VerifHook_Host_initDefaultRT = func(h *Host) {
		if h.DefaultClientRoundTripper == nil {
			h.DefaultClientRoundTripper = &http.Transport{}
		}
	}
	answer := vCase(3) // the handshake verifies the expected peer / another peer / fails
	var sawHost []string
	httpauth.VerifHook_ClientPeerIDAuth_AuthenticateWithRoundTripper = func(a *httpauth.ClientPeerIDAuth, rt http.RoundTripper, req *http.Request) (peer.ID, *http.Response, error) {
		sawHost = append(sawHost, req.Host)
		switch answer {
		case 0:
			return want, &http.Response{StatusCode: 200, Request: req, Body: io.NopCloser(strings.NewReader(""))}, nil
		case 1:
			return other, &http.Response{StatusCode: 200, Request: req, Body: io.NopCloser(strings.NewReader(""))}, nil
		}
		return "", nil, errors.New("handshake failed")
	}
	defer func() {
		VerifHook_Host_initDefaultRT, httpauth.VerifHook_ClientPeerIDAuth_AuthenticateWithRoundTripper = nil, nil
	}()
	addr := "/ip4/1.2.3.4/tcp/8443/http/p2p/" + id
	wantAuthority := "1.2.3.4:8443"
	switch vCase(3) {
	case 1:
		addr = "/ip4/1.2.3.4/tcp/8443/tls/http/p2p/" + id
	case 2:
		addr = "/ip4/1.2.3.4/tcp/8443/tls/sni/example.com/http/p2p/" + id
		vCover("sni-differs-from-the-dialed-host")
	}
	h := &Host{ClientPeerIDAuth: &httpauth.ClientPeerIDAuth{}}
	req := &http.Request{Method: "GET", URL: &url.URL{Scheme: "multiaddr", Opaque: addr}, Header: http.Header{}}
	ownHost := vBool()
	if ownHost {
		req.Host = "service.example:9000"
	}
	resp, rerr := h.RoundTrip(req)
	vAssert(len(sawHost) == 1, "an address that names a peer ID is authenticated, once")
	if ownHost {
		vAssert(sawHost[0] == "service.example:9000", "a caller-supplied Host header is what the handshake is bound to")
	} else {
		vAssert(sawHost[0] == wantAuthority, "without a Host header the handshake (and the token cached from it) is bound to the dialed authority: host and port")
	}
	if answer == 0 {
		vAssert(rerr == nil && resp != nil && ServerPeerID(resp) == want, "the server identity reported is the one the handshake verified")
	} else {
		vAssert(rerr != nil && resp == nil, "no response - and no server identity - when the handshake fails or verifies another peer than the address names")
	}
}
