//go:build verif

//verif:dir p2p/protocol/circuitv2/proto
//verif:subst p2p/protocol/circuitv2/proto google.golang.org/protobuf/proto.Unmarshal verifProtoUnmarshal
//verif:obligation C08.e a relay reservation voucher read out of an envelope (ReservationVoucher.UnmarshalRecord) is a function of the sealed payload alone: for every payload (relay, peer, expiration present with any value or absent) and every previous content of the destination record - as when a caller decodes a second envelope into a record it used before - the record afterwards holds exactly the payload's relay, peer and expiration (the Unix epoch when the optional field is absent), nothing of what it held before
//verif:bound one decode into a destination with arbitrary previous content; expiration any value below 2^40 s
//verif:stub proto.Unmarshal substituted by a model that fills the message from a decoded struct (the protobuf wire format is outside)
//verif:outside the protobuf encoding, envelope validation (C08.b)
package proto

import (
	"time"

	"github.com/libp2p/go-libp2p/core/peer"
	pbv2 "github.com/libp2p/go-libp2p/p2p/protocol/circuitv2/pb"
	gproto "google.golang.org/protobuf/proto"
)

func VerifC08eVoucherRecord() {
	saved := verifProtoUnmarshal
	defer func() { verifProtoUnmarshal = saved }()
	relay, err := peer.Decode("QmYyQSo1c1Ym7orWxLYvCrM2EmxFTANf8wXmmE7DWjhx5N")
	vAssume(err == nil)
	who, err := peer.Decode("QmcgpsyWgH8Y8ajJz1Cu72KnS5uo2Aa2LpzU7kinSupNKC")
	vAssume(err == nil)
	hasExp := vBool()
	exp := uint64(vRange(0, 1<<40))
	verifProtoUnmarshal = func(b []byte, m gproto.Message) error {
		out := m.(*pbv2.ReservationVoucher)
		out.Relay, out.Peer = []byte(relay), []byte(who)
		if hasExp {
			e := exp
			out.Expiration = &e
		}
		return nil
	}
	// the destination was used before: it still holds another voucher
	rv := &ReservationVoucher{Relay: who, Peer: relay, Expiration: time.Unix(int64(vRange(1, 1<<40)), 0)}
	vAssert(rv.UnmarshalRecord([]byte("sealed payload")) == nil, "a well-formed payload decodes")
	vAssert(rv.Relay == relay && rv.Peer == who, "relay and peer are the payload's")
	want := int64(0)
	if hasExp {
		want = int64(exp)
	} else {
		vCover("expiration-absent")
	}
	vAssert(rv.Expiration.Unix() == want, "the expiration is the payload's (the epoch when absent) - never what the destination held before")
}
