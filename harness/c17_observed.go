//go:build verif

//verif:dir p2p/host/observedaddrs
//verif:hook p2p/host/observedaddrs thinWaistForm
//verif:hook p2p/host/observedaddrs getObserver
//verif:hook p2p/host/observedaddrs hasConsistentTransport
//verif:hook p2p/host/observedaddrs isRelayedAddress
//verif:subst p2p/host/observedaddrs github.com/multiformats/go-multiaddr/net.IsIPLoopback verifIsIPLoopback
//verif:subst p2p/host/observedaddrs github.com/multiformats/go-multiaddr/net.IsNAT64IPv4ConvertedIPv6Addr verifIsNAT64
//verif:subst p2p/host/observedaddrs github.com/multiformats/go-multiaddr/net.ToIP verifToIP
//verif:replace (net.IP).String vC17ipString
//verif:shard VerifC17aHistory 9
//verif:obligation C17.a observation bookkeeping vs the statement on every history of 3 (thorough 4) operations from {record(conn, observed address), close+remove(conn)} over 3 connections (two of them possibly in the same observer group) and 2 observed addresses, threshold 2: AddrsFor returns an observed address iff the number of distinct observer groups among the currently open connections whose current credited observation is that address reaches the threshold, most observed first, at most 3; a repeated report from one group counts once, and - the inductive fact behind withdrawal - every group is credited exactly once per open connection currently reporting the address (so a repeated identical report never inflates the credit that one close removes); a report on a connection that closes (and whose Disconnected is processed) while the report is still being examined is not credited; a report is withdrawn when the connection reports another address or closes; a report processed after its connection closed is never credited
//verif:obligation C17.b filters: observations that are loopback, NAT64, relayed, of a transport inconsistent with the local address, or on a connection whose local address is not a listen address are never recorded
//verif:obligation C17.d the real hasConsistentTransport / isRelayedAddress over multiaddrs produced by the real parser (IPv4 / IPv6 x TCP / UDP): an observed thin-waist address is consistent with the local one iff both the IP family and the transport protocol agree; addresses of different shapes never are; circuit addresses are recognised as relayed
//verif:obligation C17.c observer grouping: two IPv4 remotes are the same observer iff their addresses are equal; two IPv6 remotes iff their first 56 bits are equal
//verif:obligation C17.h a report that is still waiting for the manager's lock when its connection closes and the Disconnected notification is processed ahead of it: it is not credited afterwards (whether a connection is closed is decided under the lock)
//verif:obligation C17.f a second connection from an observer group that already counts, repeating that group's report, changes neither the set nor the ORDER of the addresses reported (two addresses observed by two groups each; the repeat may come from any of the four groups): repeated reports never influence the ranking
//verif:bound 3 connections, 2 observed thin-waist addresses, 1 local listen address, history length 3 (4), ActivationThresh set to 2
//verif:stub multiaddrs are atoms: thinWaistForm / getObserver / hasConsistentTransport / isRelayedAddress hooked, manet classification substituted by symbolic flags; net.IP.String injective stub in the symbolic run (C17.c)
//verif:outside real multiaddr parsing in the bookkeeping histories (atoms there; C17.d runs the real parser), the worker channel (observations dropped when full), NAT-type inference, inferred addresses for sibling transports
package observedaddrs

import (
	"errors"
	"net"

	ma "github.com/multiformats/go-multiaddr"
)

func vC17ipString(ip net.IP) string { return "ip" + string(rune('0'+len(ip))) + ":" + string(ip) }

type vC17conn struct {
	local, remote ma.Multiaddr
	closed        bool
	group         int
}

func (c *vC17conn) LocalMultiaddr() ma.Multiaddr  { return c.local }
func (c *vC17conn) RemoteMultiaddr() ma.Multiaddr { return c.remote }
func (c *vC17conn) IsClosed() bool                { return c.closed }

var vC17local = ma.StringCast("/ip4/192.168.1.5/tcp/4001")
var vC17obs = []ma.Multiaddr{ma.StringCast("/ip4/1.2.3.4/tcp/4001"), ma.StringCast("/ip4/5.6.7.8/tcp/4001")}
var vC17remotes = []ma.Multiaddr{ma.StringCast("/ip4/9.9.9.1/tcp/1"), ma.StringCast("/ip4/9.9.9.2/tcp/1"), ma.StringCast("/ip4/9.9.9.3/tcp/1")}

var vC17conns []*vC17conn
var vC17loop, vC17nat64, vC17relayed, vC17inconsistent bool

func vC17install() {
	VerifHook_thinWaistForm = func(a ma.Multiaddr) (thinWaist, error) {
		if a == nil {
			return thinWaist{}, errTW
		}
		return thinWaist{Addr: a, TW: a, Rest: nil}, nil
	}
	VerifHook_getObserver = func(a ma.Multiaddr) (string, error) {
		for _, c := range vC17conns {
			if c.remote.Equal(a) {
				return string(rune('A' + c.group)), nil
			}
		}
		return "", errors.New("no ip")
	}
	VerifHook_hasConsistentTransport = func(a, b ma.Multiaddr) bool { return !vC17inconsistent }
	VerifHook_isRelayedAddress = func(a ma.Multiaddr) bool { return vC17relayed }
	verifIsIPLoopback = func(a ma.Multiaddr) bool { return vC17loop }
	verifIsNAT64 = func(a ma.Multiaddr) bool { return vC17nat64 }
	vC17loop, vC17nat64, vC17relayed, vC17inconsistent = false, false, false, false
}

func vC17remove() {
	VerifHook_thinWaistForm, VerifHook_getObserver, VerifHook_hasConsistentTransport, VerifHook_isRelayedAddress = nil, nil, nil, nil
}

// what happens while an observation is being examined (the listen-address callback runs before the
// manager takes its lock): lets a harness close the connection "meanwhile"
var vC17meanwhile func()

func vC17manager(listen []ma.Multiaddr) *Manager {
	return &Manager{listenAddrs: func() []ma.Multiaddr {
		if f := vC17meanwhile; f != nil {
			vC17meanwhile = nil
			f()
		}
		return append([]ma.Multiaddr{}, listen...)
	},
		externalAddrs: map[string]map[string]*observerSet{}, connObservedTWAddrs: map[connMultiaddrs]ma.Multiaddr{}}
}

// ops: 0..5 record(conn, observed)   6..8 close + remove(conn)
func VerifC17aHistory() {
	first := vCase(9)
	defer vC17remove()
	vC17install()
	saved := ActivationThresh
	ActivationThresh = 2
	defer func() { ActivationThresh = saved }()
	K := 3 + vTier()
	sameGroup := vBool() // the first two remotes share an observer group (same IPv4 / same IPv6 /56)
	vC17conns = nil
	for i := 0; i < 3; i++ {
		g := i
		if i == 1 && sameGroup {
			g = 0
		}
		vC17conns = append(vC17conns, &vC17conn{local: vC17local, remote: vC17remotes[i], group: g})
	}
	o := vC17manager([]ma.Multiaddr{vC17local})
	credited := [3]int{-1, -1, -1} // reference: the current credited observation of each open connection
	for step := 0; step < K; step++ {
		op := first
		if step > 0 {
			op = vCase(9)
		}
		if op < 6 {
			c, x := op%3, op/3
			if !vC17conns[c].closed && vBool() {
				// the connection closes, and its Disconnected notification is processed, while this report
				// is still being examined
				vC17meanwhile = func() {
					vC17conns[c].closed = true
					o.removeConn(vC17conns[c])
					credited[c] = -1
				}
				vCover("closed-while-the-report-is-examined")
			}
			o.maybeRecordObservation(vC17conns[c], vC17obs[x])
			vC17meanwhile = nil
			if !vC17conns[c].closed {
				credited[c] = x
			} else {
				vCover("report-after-close")
			}
		} else {
			c := op - 6
			vC17conns[c].closed = true
			o.removeConn(vC17conns[c])
			credited[c] = -1
		}
		// reference: distinct observer groups per observed address
		var count [2]int
		for x := 0; x < 2; x++ {
			var seen [3]bool
			for c := 0; c < 3; c++ {
				if credited[c] == x && !seen[vC17conns[c].group] {
					seen[vC17conns[c].group] = true
					count[x]++
				}
			}
		}
		// the bookkeeping behind it (inductive: this is what makes withdrawal on close exact for histories of any length):
		// every observer group is credited once per open connection of that group currently reporting the address
		for x := 0; x < 2; x++ {
			var perGroup [3]int
			for c := 0; c < 3; c++ {
				if credited[c] == x {
					perGroup[vC17conns[c].group]++
				}
			}
			set := o.externalAddrs[string(vC17local.Bytes())][string(vC17obs[x].Bytes())]
			for g := 0; g < 3; g++ {
				n := 0
				if set != nil {
					n = set.ObservedBy[string(rune('A'+g))]
				}
				vAssert(n == perGroup[g], "an observer group is credited exactly once per open connection currently reporting the address")
			}
		}
		got := o.AddrsFor(vC17local)
		var has [2]bool
		for _, g := range got {
			for x := 0; x < 2; x++ {
				if g.Equal(vC17obs[x]) {
					has[x] = true
				}
			}
		}
		vAssert(has[0] == (count[0] >= 2) && has[1] == (count[1] >= 2), "an observed address is reported iff enough distinct observer groups on open connections currently report it")
		vAssert(len(got) == vB2I(has[0])+vB2I(has[1]) && len(got) <= 3, "nothing else is reported")
		if len(got) == 2 {
			vCover("two-addresses")
			first, second := 0, 1
			if got[0].Equal(vC17obs[1]) {
				first, second = 1, 0
			}
			vAssert(count[first] >= count[second], "most observed first")
		}
		if has[0] || has[1] {
			vCover("activated")
		}
	}
}

func VerifC17bFilters() {
	defer vC17remove()
	vC17install()
	vC17conns = []*vC17conn{{local: vC17local, remote: vC17remotes[0]}}
	listen := []ma.Multiaddr{vC17local}
	if vBool() {
		listen = []ma.Multiaddr{ma.StringCast("/ip4/192.168.1.5/tcp/5555")} // the connection did not arrive at a listen address
	}
	o := vC17manager(listen)
	vC17loop, vC17nat64, vC17relayed, vC17inconsistent = vBool(), vBool(), vBool(), vBool()
	o.maybeRecordObservation(vC17conns[0], vC17obs[0])
	filtered := vC17loop || vC17nat64 || vC17relayed || vC17inconsistent || !listen[0].Equal(vC17local)
	_, recorded := o.connObservedTWAddrs[vC17conns[0]]
	if filtered {
		vCover("filtered")
	}
	vAssert(recorded == !filtered, "loopback, NAT64, relayed, transport-inconsistent observations and observations on non-listen addresses never count")
	o.maybeRecordObservation(nil, vC17obs[0])
	o.maybeRecordObservation(vC17conns[0], nil)
	vAssert(len(o.connObservedTWAddrs) == vB2I(recorded), "nil connections or observations are ignored")
}

func VerifC17cObserverGroup() {
	v6 := vBool()
	n := 4
	if v6 {
		n = 16
	}
	a, b := make(net.IP, n), make(net.IP, n)
	for i := 0; i < n; i++ {
		a[i], b[i] = vUint8(), vUint8()
	}
	if v6 {
		a[0], b[0] = 0x20, 0x20 // global unicast, not an IPv4-mapped form
	}
	cur := a
	verifToIP = func(m ma.Multiaddr) (net.IP, error) { return cur, nil }
	oa, err := getObserver(nil)
	vAssert(err == nil, "observer of a")
	cur = b
	ob, err := getObserver(nil)
	vAssert(err == nil, "observer of b")
	same := true
	k := n
	if v6 {
		k = 7 // 56 bits
	}
	for i := 0; i < k; i++ {
		same = vAnd(same, a[i] == b[i])
	}
	if v6 {
		vCover("ipv6")
		vAssert((oa == ob) == same, "IPv6 remotes are one observer iff they share the /56")
	} else {
		vAssert((oa == ob) == same, "IPv4 remotes are one observer iff their addresses are equal")
	}
}

// ---- C17.d: the real transport-consistency and relay filters over really parsed multiaddrs ----

func vC17parse(s string) ma.Multiaddr {
	m, err := ma.NewMultiaddr(s) // the real parser, also in the symbolic run (ma.StringCast yields atoms there)
	if err != nil {
		panic(err)
	}
	return m
}

func VerifC17dConsistentTransport() {
	texts := []string{"/ip4/1.2.3.4/tcp/1", "/ip4/5.6.7.8/udp/2", "/ip6/2001:db8::1/tcp/3", "/ip6/2001:db8::2/udp/4", "/ip4/9.9.9.9/tcp/5"}
	fam := []int{4, 4, 6, 6, 4}
	tpt := []string{"tcp", "udp", "tcp", "udp", "tcp"}
	i, j := vCase(5), vCase(5)
	a, b := vC17parse(texts[i]), vC17parse(texts[j])
	want := fam[i] == fam[j] && tpt[i] == tpt[j]
	vAssert(hasConsistentTransport(a, b) == want, "an observation counts only if its IP family and transport are those of the local address")
	if !want {
		vCover("inconsistent")
	}
	vAssert(!hasConsistentTransport(a, nil) && !hasConsistentTransport(a, a[:1]), "addresses of different shapes are never consistent")
	relay := vC17parse("/ip4/1.2.3.4/tcp/1/p2p-circuit")
	vAssert(isRelayedAddress(relay) && !isRelayedAddress(a), "relayed addresses are recognised")
	const id = "QmYyQSo1c1Ym7orWxLYvCrM2EmxFTANf8wXmmE7DWjhx5N"
	for _, t := range []string{"/ip4/1.2.3.4/tcp/1/p2p/" + id + "/p2p-circuit", "/ip4/1.2.3.4/tcp/1/p2p/" + id + "/p2p-circuit/p2p/" + id, "/ip4/1.2.3.4/tcp/1/p2p-circuit/p2p/" + id} {
		vAssert(isRelayedAddress(vC17parse(t)), "a circuit address is relayed wherever the circuit component stands")
	}
}

// C17.f: a repeated report from an observer group that is already counted changes nothing the caller can see -
// in particular not the order among equally observed addresses
func VerifC17fRepeatsDoNotRank() {
	defer vC17remove()
	vC17install()
	saved := ActivationThresh
	ActivationThresh = 2
	defer func() { ActivationThresh = saved }()
	remotes := []ma.Multiaddr{ma.StringCast("/ip4/9.9.8.1/tcp/1"), ma.StringCast("/ip4/9.9.8.2/tcp/1"), ma.StringCast("/ip4/9.9.8.3/tcp/1"), ma.StringCast("/ip4/9.9.8.4/tcp/1"), ma.StringCast("/ip4/9.9.8.5/tcp/1")}
	dupOf := vCase(4) // the connection whose observer opens a second connection and repeats its report
	vC17conns = nil
	for i := 0; i < 5; i++ {
		g := i
		if i == 4 {
			g = dupOf
		}
		vC17conns = append(vC17conns, &vC17conn{local: vC17local, remote: remotes[i], group: g})
	}
	o := vC17manager([]ma.Multiaddr{vC17local})
	// two observer groups report the first address, two others the second: equally observed
	for i := 0; i < 4; i++ {
		o.maybeRecordObservation(vC17conns[i], vC17obs[i/2])
	}
	before := o.AddrsFor(vC17local)
	vAssert(len(before) == 2, "both addresses are reported")
	o.maybeRecordObservation(vC17conns[4], vC17obs[dupOf/2])
	after := o.AddrsFor(vC17local)
	vAssert(len(after) == 2 && after[0].Equal(before[0]) && after[1].Equal(before[1]), "a repeated report from an observer group that already counts changes neither the set nor the order of the reported addresses")
}

// C17.h: a report whose connection closes - and whose Disconnected is processed - while the report waits for the
// manager's lock
func VerifC17hClosedWhileWaitingForTheLock() {
	defer vC17remove()
	vC17install()
	saved := ActivationThresh
	ActivationThresh = 1
	defer func() { ActivationThresh = saved }()
	vC17conns = []*vC17conn{{local: vC17local, remote: vC17remotes[0], group: 0}}
	c := vC17conns[0]
	o := vC17manager([]ma.Multiaddr{vC17local})
	o.mu.Lock() // somebody else is using the manager
	done := false
	go func() {
		o.maybeRecordObservation(c, vC17obs[0])
		done = true
	}()
	for i := 0; i < 8; i++ {
		vYield()
	}
	if done { // the report did not have to wait for the lock this harness holds: the window does not exist
		o.mu.Unlock()
		return
	}
	vCover("report-waiting-for-the-lock")
	c.closed = true // the connection closes ...
	o.mu.Unlock()
	o.removeConn(c) // ... and its Disconnected notification is processed before the waiting report gets its turn
	for i := 0; i < 8; i++ {
		vYield()
	}
	vAssert(done, "the report is processed")
	_, credited := o.connObservedTWAddrs[c]
	vAssert(!credited && len(o.AddrsFor(vC17local)) == 0, "a report that reaches the manager after its connection closed is not credited: nothing would ever withdraw it")
}
