//go:build verif

//verif:dir p2p/host/peerstore/pstoreds
//verif:subst p2p/host/peerstore/pstoreds google.golang.org/protobuf/proto.Marshal verifProtoMarshal
//verif:subst p2p/host/peerstore/pstoreds google.golang.org/protobuf/proto.Unmarshal verifProtoUnmarshal
//verif:replace (*github.com/libp2p/go-libp2p/p2p/host/peerstore/pstoreds/pb.AddrBookRecord).Reset vC09fReset
//verif:obligation C09.f garbage collection and persistence of the datastore-backed book with the REAL flush / loadRecord / purgeStore / purgeLookahead / populateLookahead over a map-backed datastore (serialisation modelled as an exact snapshot): one peer with 2 addresses of symbolic TTL class added at t0, lookahead GC on or off, a symbolic clock advance, then one of {nothing, a read that does not write back (GetPeerRecord), a class update that matches nothing, eviction of the record from the cache} and a GC run: afterwards a peer none of whose addresses is live is no longer listed by PeersWithAddrs and has no record left in the datastore; a peer with a live address is listed and its persisted record holds exactly the live addresses; Addrs equals the reference, also for a fresh book opened on the same datastore (close / reopen)
//verif:bound one peer, 2 addresses, one clock advance, one intermediate operation, one GC run, cache on
//verif:stub map-backed datastore with go-datastore's own query sorting; proto.Marshal / Unmarshal substituted by an exact snapshot model; AddrBookRecord.Reset replaced in the symbolic run (protobuf internals); harness clock and cache
//verif:outside the GC timers / background goroutine, batches larger than the cyclic-batch threshold, several peers, corrupt GC keys
package pstoreds

import (
	"context"
	"errors"
	"fmt"
	"time"

	ds "github.com/ipfs/go-datastore"
	"github.com/ipfs/go-datastore/query"
	"github.com/libp2p/go-libp2p/core/peer"
	pstore "github.com/libp2p/go-libp2p/core/peerstore"
	"github.com/libp2p/go-libp2p/p2p/host/peerstore/pstoreds/pb"
	"github.com/libp2p/go-libp2p/p2p/host/peerstore/pstoremem"
	b32 "github.com/multiformats/go-base32"
	ma "github.com/multiformats/go-multiaddr"
	"google.golang.org/protobuf/proto"
)

func vC09fReset(x *pb.AddrBookRecord) { x.Id, x.Addrs, x.CertifiedRecord = nil, nil, nil }

// ---- serialisation model: the bytes are a name for an exact snapshot ----

var vC09fSnaps []*pb.AddrBookRecord

func vC09fCopy(dst, src *pb.AddrBookRecord) {
	dst.Id = append([]byte{}, src.Id...)
	dst.Addrs = nil
	for _, a := range src.Addrs {
		dst.Addrs = append(dst.Addrs, &pb.AddrBookRecord_AddrEntry{Addr: append([]byte{}, a.Addr...), Expiry: a.Expiry, Ttl: a.Ttl})
	}
	dst.CertifiedRecord = nil
	if src.CertifiedRecord != nil {
		dst.CertifiedRecord = &pb.AddrBookRecord_CertifiedRecord{Seq: src.CertifiedRecord.Seq, Raw: append([]byte{}, src.CertifiedRecord.Raw...)}
	}
}

func vC09fMarshal(m proto.Message) ([]byte, error) {
	r, ok := m.(*addrsRecord)
	if !ok {
		return nil, errors.New("harness: unexpected message type")
	}
	snap := &pb.AddrBookRecord{}
	vC09fCopy(snap, r.AddrBookRecord)
	vC09fSnaps = append(vC09fSnaps, snap)
	return []byte(fmt.Sprint("snapshot-", len(vC09fSnaps)-1)), nil
}

func vC09fUnmarshal(b []byte, m proto.Message) error {
	for i := range vC09fSnaps {
		if string(b) == fmt.Sprint("snapshot-", i) {
			switch r := m.(type) {
			case *addrsRecord:
				vC09fCopy(r.AddrBookRecord, vC09fSnaps[i])
			case *pb.AddrBookRecord:
				vC09fCopy(r, vC09fSnaps[i])
			default:
				return errors.New("harness: unexpected message type")
			}
			return nil
		}
	}
	return errors.New("corrupt record")
}

// ---- map-backed datastore ----

type vC09fStore struct {
	ds.Batching
	m map[string][]byte
}

func (s *vC09fStore) Get(ctx context.Context, k ds.Key) ([]byte, error) {
	v, ok := s.m[k.String()]
	if !ok {
		return nil, ds.ErrNotFound
	}
	return v, nil
}
func (s *vC09fStore) Put(ctx context.Context, k ds.Key, v []byte) error {
	s.m[k.String()] = append([]byte{}, v...)
	return nil
}
func (s *vC09fStore) Delete(ctx context.Context, k ds.Key) error { delete(s.m, k.String()); return nil }
func (s *vC09fStore) Query(ctx context.Context, q query.Query) (query.Results, error) {
	var es []query.Entry
	for k, v := range s.m {
		if len(k) >= len(q.Prefix) && k[:len(q.Prefix)] == q.Prefix {
			e := query.Entry{Key: k}
			if !q.KeysOnly {
				e.Value = v
			}
			es = append(es, e)
		}
	}
	query.Sort(q.Orders, es)
	return query.ResultsWithEntries(q, es), nil
}
func (s *vC09fStore) Batch(ctx context.Context) (ds.Batch, error) { return &vC09fBatch{s}, nil }

type vC09fBatch struct{ s *vC09fStore }

func (b *vC09fBatch) Put(ctx context.Context, k ds.Key, v []byte) error { return b.s.Put(ctx, k, v) }
func (b *vC09fBatch) Delete(ctx context.Context, k ds.Key) error        { return b.s.Delete(ctx, k) }
func (b *vC09fBatch) Commit(ctx context.Context) error                  { return nil }

// a peer ID that decodes (identity multihash of "peer")
var vC09fPeer = peer.ID(string([]byte{0x00, 0x04, 'p', 'e', 'e', 'r'}))

func vC09fOpen(st *vC09fStore, lookahead bool) *dsAddrBook {
	ab := &dsAddrBook{ctx: context.Background(), opts: Options{}, cache: &vC09cache{m: map[peer.ID]*addrsRecord{}}, ds: st,
		subsManager: pstoremem.NewAddrSubManager(), clock: vC09clock{}}
	if lookahead {
		ab.opts.GCLookaheadInterval = 24 * time.Hour
	}
	gc := &dsAddrBookGc{ctx: ab.ctx, ab: ab, running: make(chan struct{}, 1), lookaheadEnabled: lookahead}
	gc.purgeFunc = gc.purgeStore
	if lookahead {
		gc.purgeFunc = gc.purgeLookahead
	}
	ab.gc = gc
	return ab
}

func VerifC09fDsGC() {
	savedM, savedU := verifProtoMarshal, verifProtoUnmarshal
	verifProtoMarshal, verifProtoUnmarshal = vC09fMarshal, vC09fUnmarshal
	VerifHook_addrsRecord_flush = nil // the real flush
	defer func() { verifProtoMarshal, verifProtoUnmarshal = savedM, savedU }()
	vC09fSnaps = nil
	lookahead := vBool()
	st := &vC09fStore{m: map[string][]byte{}}
	ab := vC09fOpen(st, lookahead)
	t0 := int64(100000)
	vC09now = time.Unix(t0, 0)
	ttls := []time.Duration{pstore.TempAddrTTL, pstore.RecentlyConnectedAddrTTL, pstore.ConnectedAddrTTL}
	var exp [2]int64
	for i := 0; i < 2; i++ {
		ttl := ttls[vCase(3)]
		ab.AddAddrs(vC09fPeer, []ma.Multiaddr{vC09addrs[i]}, ttl)
		exp[i] = time.Unix(t0, 0).Add(ttl).Unix()
	}
	vAssert(len(st.m) >= 1, "the record is persisted")
	if lookahead {
		ab.gc.populateLookahead()
	}
	now := t0 + int64(vRange(0, 2000))
	vC09now = time.Unix(now, 0)
	switch vCase(4) {
	case 1:
		_ = ab.GetPeerRecord(vC09fPeer) // a read that does not write back
		vCover("non-writing-read-before-gc")
	case 2:
		ab.UpdateAddrs(vC09fPeer, 12345*time.Second, time.Hour) // matches no address
	case 3:
		ab.cache.Remove(vC09fPeer) // the record was evicted from the cache
		vCover("evicted-before-gc")
	}
	ab.gc.purgeFunc()
	live := [2]bool{exp[0] > now, exp[1] > now}
	nlive := vB2I(live[0]) + vB2I(live[1])
	listed := false
	for _, q := range ab.PeersWithAddrs() {
		if q == vC09fPeer {
			listed = true
		}
	}
	key := addrBookBase.ChildString(b32.RawStdEncoding.EncodeToString([]byte(vC09fPeer)))
	raw, err := st.Get(context.Background(), key)
	if nlive == 0 {
		vCover("all-expired")
		vAssert(!listed, "after a GC run a peer with no live address is no longer listed")
		vAssert(err != nil, "and its record is gone from the datastore")
	} else {
		vCover("some-live")
		vAssert(listed && err == nil, "a peer with a live address stays listed")
		if err == nil {
			rec := &pb.AddrBookRecord{}
			vAssert(vC09fUnmarshal(raw, rec) == nil, "the persisted record decodes")
			vAssert(len(rec.Addrs) == nlive, "after a GC run the persisted record holds exactly the live addresses")
		}
	}
	check := func(b *dsAddrBook, what string) {
		got := b.Addrs(vC09fPeer)
		var has [2]bool
		extra := false
		for _, g := range got {
			switch {
			case g.Equal(vC09addrs[0]) && !has[0]:
				has[0] = true
			case g.Equal(vC09addrs[1]) && !has[1]:
				has[1] = true
			default:
				extra = true
			}
		}
		vAssert(!extra && has == live, what)
	}
	check(ab, "Addrs == addresses whose expiry lies in the future")
	check(vC09fOpen(st, lookahead), "a book reopened on the same datastore gives the same answer")
}
