//go:build verif

//verif:dir p2p/net/pnet
//verif:obligation C02.d pskConn.Read / Write: every byte the underlying connection returns (also when it returns data together with an error) is passed through the read key stream exactly once, in order, before the caller sees it, and the stream position advances by exactly that many bytes; every byte written is passed through the write key stream exactly once and the cipher text, not the plain text, reaches the connection
//verif:bound buffers of 0..3 bytes, any underlying (n, err) with 0 <= n <= len(buf), established streams (nonce exchange done)
//verif:stub cipher.Stream = position-indexed stub cipher (dst[i] = src[i] + 1 + (pos+i)%2 mod 256) injected through the code's own cipher.Stream fields; net.Conn stub returning symbolic (n, err, bytes)
//verif:outside XSalsa20 itself, short writes of the underlying connection (net.Conn contract)
package pnet

import (
	"errors"
	"net"
)

type vC02stream struct{ pos int }

func (s *vC02stream) XORKeyStream(dst, src []byte) {
	for i := range src {
		dst[i] = src[i] + 1 + byte((s.pos+i)%2)
	}
	s.pos += len(src)
}

type vC02conn struct {
	net.Conn
	rdata []byte
	rn    int
	rerr  bool
	wrote []byte
}

func (c *vC02conn) Read(b []byte) (int, error) {
	n := copy(b, c.rdata[:c.rn])
	if c.rerr {
		return n, errors.New("read error")
	}
	return n, nil
}

func (c *vC02conn) Write(b []byte) (int, error) {
	c.wrote = append([]byte{}, b...)
	return len(b), nil
}

func VerifC02dPskRead() {
	L := vCase(4)
	n := vRange(0, L)
	wire := make([]byte, L)
	for i := range wire {
		wire[i] = vUint8()
	}
	pos := vRange(0, 1000)
	st := &vC02stream{pos: pos}
	conn := &vC02conn{rdata: wire, rn: n, rerr: vBool()}
	c := &pskConn{Conn: conn, psk: &[32]byte{}, readS20: st}
	out := make([]byte, L)
	got, err := c.Read(out)
	vAssert(got == n && (err != nil) == conn.rerr, "count-and-error-passed-through")
	if n > 0 && conn.rerr {
		vCover("data-together-with-error")
	}
	for i := 0; i < n; i++ {
		vAssert(out[i] == wire[i]+1+byte((pos+i)%2), "every-returned-byte-is-deciphered-at-its-stream-position")
	}
	vAssert(st.pos == pos+n, "stream-position-advances-by-the-bytes-returned")
}

func VerifC02dPskWrite() {
	L := vCase(4)
	in := make([]byte, L)
	for i := range in {
		in[i] = vUint8()
	}
	pos := vRange(0, 1000)
	st := &vC02stream{pos: pos}
	conn := &vC02conn{}
	c := &pskConn{Conn: conn, psk: &[32]byte{}, writeS20: st}
	n, err := c.Write(in)
	vAssert(n == L && err == nil, "all-written")
	vAssert(len(conn.wrote) == L, "cipher-text-length")
	for i := 0; i < L; i++ {
		vAssert(conn.wrote[i] == in[i]+1+byte((pos+i)%2), "every-written-byte-is-enciphered-at-its-stream-position")
	}
	vAssert(st.pos == pos+L, "stream-position-advances-by-the-bytes-written")
}
