//go:build verif

//verif:dir p2p/transport/webrtc
//verif:hook p2p/transport/webrtc stream.spawnControlMessageReader
//verif:obligation C02.e the WebRTC multiplexed stream's Read (the third stream implementation): for every script of 1..2 incoming messages with payloads of 0..3 symbolic bytes, the last of which may carry FIN together with its data, and every read-buffer size 1..3: the bytes returned by successive Reads are exactly the concatenation of the payloads - none lost, none repeated, in order - and the end of the stream (io.EOF after FIN, a remote reset when the channel ends without FIN) is reported only after the last payload byte has been delivered; FIN is acknowledged
//verif:bound <= 2 messages of <= 3 bytes, read buffers of 1..3 bytes, <= 10 reads
//verif:stub the delimited protobuf reader / writer replaced by scripts of decoded messages; the control-message reader goroutine (needs a pion data channel) hooked to a no-op
//verif:outside SCTP / pion data channels, the write side (flow control against the data channel's buffered amount), deadlines, control messages after the read side closed
package libp2pwebrtc

import (
	"errors"
	"io"

	"github.com/libp2p/go-libp2p/core/network"
	"github.com/libp2p/go-libp2p/p2p/transport/webrtc/pb"
	"google.golang.org/protobuf/proto"
)

type vC02eReader struct {
	msgs []*pb.Message
	next int
}

func (r *vC02eReader) ReadMsg(m proto.Message) error {
	if r.next >= len(r.msgs) {
		return io.EOF
	}
	out := m.(*pb.Message)
	src := r.msgs[r.next]
	r.next++
	out.Message = src.Message
	out.Flag = src.Flag
	return nil
}

type vC02eWriter struct{ finAcks, others int }

func (w *vC02eWriter) WriteMsg(m proto.Message) error {
	if msg := m.(*pb.Message); msg.Flag != nil && msg.GetFlag() == pb.Message_FIN_ACK {
		w.finAcks++
	} else {
		w.others++
	}
	return nil
}

func VerifC02eWebRTCRead() {
	VerifHook_stream_spawnControlMessageReader = func(s *stream) {}
	defer func() { VerifHook_stream_spawnControlMessageReader = nil }()
	nmsg := 1 + vCase(2)
	rd := &vC02eReader{}
	var want []byte
	fin := false
	for i := 0; i < nmsg; i++ {
		m := &pb.Message{Message: vBytes(vCase(4))}
		want = append(want, m.Message...)
		if i == nmsg-1 && vBool() {
			m.Flag = pb.Message_FIN.Enum()
			fin = true
			if len(m.Message) > 0 {
				vCover("fin-together-with-data")
			}
		}
		rd.msgs = append(rd.msgs, m)
	}
	w := &vC02eWriter{}
	s := &stream{reader: rd, writer: w, writeStateChanged: make(chan struct{}, 1)}
	bufSize := 1 + vCase(3)
	var got []byte
	var end error
	for r := 0; r < 10 && end == nil; r++ {
		b := make([]byte, bufSize)
		n, err := s.Read(b)
		got = append(got, b[:n]...)
		if len(got) < len(want) {
			vAssert(err == nil, "the end of the stream is not reported while payload bytes are still undelivered")
		}
		end = err
	}
	vAssert(end != nil, "the stream ends within the read budget")
	same := len(got) == len(want)
	if same {
		for i := range want {
			same = vAnd(same, got[i] == want[i])
		}
	}
	vAssert(same, "the bytes read are exactly the payloads in order: none lost, none repeated")
	if fin {
		vCover("fin")
		vAssert(end == io.EOF, "after FIN the reader sees a clean end of stream")
		vAssert(w.finAcks >= 1, "FIN is acknowledged")
	} else {
		vCover("channel-ended-without-fin")
		var se *network.StreamError
		vAssert(errors.As(end, &se) && se.Remote, "a channel that ends without FIN reads as a remote reset, not as a clean end")
	}
}
