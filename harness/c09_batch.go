//go:build verif

//verif:dir p2p/host/peerstore/pstoreds
//verif:obligation C09.i the GC's write batch (cyclicBatch as newCyclicBatch(store, 20) builds it): for every number 0..45 of queued Put / Delete operations (symbolic kind per operation) followed by Commit, every operation has reached the datastore exactly once, in the order queued, nothing is left in an uncommitted batch, and a closed batch refuses further operations - whatever the relation of the count to the flush threshold (19, 20, 21, 40 ...)
//verif:bound 0..45 operations, threshold as configured by the caller (20), datastore batches that never fail
//verif:stub a recording datastore: Batch() hands out a batch that applies its operations to the log on Commit
//verif:outside failing batch commits (the error is returned; nothing is retried)
package pstoreds

import (
	"context"

	ds "github.com/ipfs/go-datastore"
)

type vC09iStore struct {
	ds.Batching
	applied []int // ids of the operations that reached the store, in order (negative: delete)
	open    []*vC09iBatch
}

type vC09iBatch struct {
	s         *vC09iStore
	ops       []int
	committed bool
}

func (s *vC09iStore) Batch(ctx context.Context) (ds.Batch, error) {
	b := &vC09iBatch{s: s}
	s.open = append(s.open, b)
	return b, nil
}

func (b *vC09iBatch) Put(ctx context.Context, k ds.Key, v []byte) error {
	b.ops = append(b.ops, int(v[0]))
	return nil
}

func (b *vC09iBatch) Delete(ctx context.Context, k ds.Key) error {
	b.ops = append(b.ops, -int(k.String()[1]))
	return nil
}

func (b *vC09iBatch) Commit(ctx context.Context) error {
	b.committed = true
	b.s.applied = append(b.s.applied, b.ops...)
	b.ops = nil
	return nil
}

func VerifC09iCyclicBatch() {
	store := &vC09iStore{}
	cb, err := newCyclicBatch(store, defaultOpsPerCyclicBatch)
	vAssert(err == nil, "a batch is opened")
	n := vCase(46)
	want := make([]int, 0, n)
	ctx := context.Background()
	for i := 0; i < n; i++ {
		id := i + 1
		if i < 3 && vBool() { // the kind matters only for the ordering check: vary the first few
			vAssert(cb.Delete(ctx, ds.NewKey(string(rune('A'+id)))) == nil, "a delete is queued")
			want = append(want, -int('A'+id))
		} else {
			vAssert(cb.Put(ctx, ds.NewKey("k"), []byte{byte(id)}) == nil, "a put is queued")
			want = append(want, id)
		}
	}
	vAssert(cb.Commit(ctx) == nil, "commit succeeds")
	if n == 20 || n == 40 {
		vCover("count-a-multiple-of-the-threshold")
	}
	ok := len(store.applied) == len(want)
	if ok {
		for i := range want {
			if store.applied[i] != want[i] {
				ok = false
			}
		}
	}
	vAssert(ok, "after Commit every queued write has reached the datastore exactly once, in order")
	left := 0
	for _, b := range store.open {
		left += len(b.ops)
	}
	vAssert(left == 0, "no write is left in an uncommitted batch")
	vAssert(cb.Put(ctx, ds.NewKey("k"), []byte{1}) != nil && cb.Commit(ctx) != nil, "a committed cyclic batch refuses further use")
}
