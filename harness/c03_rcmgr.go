//go:build verif

//verif:dir p2p/host/resource-manager
//verif:also C07 VerifC03dStreamLifecycle
//verif:hook p2p/host/resource-manager resources.checkMemory
//verif:hook p2p/host/resource-manager connLimiter.addConn
//verif:hook p2p/host/resource-manager connLimiter.rmConn
//verif:hook p2p/host/resource-manager Allowlist.Allowed
//verif:hook p2p/host/resource-manager Allowlist.AllowedPeerAndMultiaddr
//verif:hook x/rate Limiter.Allow
//verif:shard VerifC03dConnLifecycle 8
//verif:obligation C03.d re-parenting frame rule on the real resourceManager: after OpenConnection, ReserveMemory, SetPeer (plain / allow-listed kept / allow-listed transferred), OpenStream, SetProtocol, SetService and Done, every scope X of the manager satisfies usage(X) - rest(X) == held(holder) * [X in holder.edges], also when any internal reservation step refuses (the holder stays charged exactly once in a consistent, non-empty edge set)
//verif:obligation C03.h per-subnet limiter pairing: every admitted connLimiter.addConn(ip) is matched by exactly one rmConn(ip) - at refusal, at the allow-list retry, or at the first Done - and never by two (repeated Done)
//verif:bound one connection or one stream per run on a manager whose every scope carries an arbitrary rest-of-the-world usage within arbitrary limits; memory by checkMemory's contract
//verif:stub connLimiter.addConn/rmConn (counting stubs, admission symbolic), rate.Limiter.Allow, Allowlist.Allowed / AllowedPeerAndMultiaddr (symbolic answers), netip.AddrFrom4 (engine: minimal model in which a valid address is one with a non-zero zone handle, which is what the real IsValid tests)
//verif:outside connLimiter's own prefix arithmetic (netip internals need unique/unsafe), scope garbage collection, metrics and tracing, concurrent callers
package rcmgr

import (
	"net/netip"

	"github.com/libp2p/go-libp2p/core/network"
	"github.com/libp2p/go-libp2p/core/peer"
	"github.com/libp2p/go-libp2p/core/protocol"
	"github.com/libp2p/go-libp2p/x/rate"
	"github.com/multiformats/go-multiaddr"
)

type vC03limiter struct {
	sys, tr, asys, atr, svc, svcPeer, proto, protoPeer, peer, stream, conn *BaseLimit
}

func (l *vC03limiter) GetSystemLimits() Limit                        { return l.sys }
func (l *vC03limiter) GetTransientLimits() Limit                     { return l.tr }
func (l *vC03limiter) GetAllowlistedSystemLimits() Limit             { return l.asys }
func (l *vC03limiter) GetAllowlistedTransientLimits() Limit          { return l.atr }
func (l *vC03limiter) GetServiceLimits(svc string) Limit             { return l.svc }
func (l *vC03limiter) GetServicePeerLimits(svc string) Limit         { return l.svcPeer }
func (l *vC03limiter) GetProtocolLimits(proto protocol.ID) Limit     { return l.proto }
func (l *vC03limiter) GetProtocolPeerLimits(proto protocol.ID) Limit { return l.protoPeer }
func (l *vC03limiter) GetPeerLimits(p peer.ID) Limit                 { return l.peer }
func (l *vC03limiter) GetStreamLimits(p peer.ID) Limit               { return l.stream }
func (l *vC03limiter) GetConnLimits() Limit                          { return l.conn }

var vC03ipValid bool
var vC03addN, vC03rmN int

// rest-of-the-world usage of a scope: arbitrary, within its limits
func vC03fill(s *resourceScope) {
	l := s.rc.limit.(*BaseLimit)
	s.rc.memory = vRange64(0, 1<<62)
	s.rc.nstreamsIn, s.rc.nstreamsOut = vRange(0, vC03B), vRange(0, vC03B)
	s.rc.nconnsIn, s.rc.nconnsOut, s.rc.nfd = vRange(0, vC03B), vRange(0, vC03B), vRange(0, vC03B)
	ok := vAnd(s.rc.memory <= l.Memory, vAnd(s.rc.nstreamsIn <= l.StreamsInbound, s.rc.nstreamsOut <= l.StreamsOutbound))
	ok = vAnd(ok, vAnd(s.rc.nstreamsIn+s.rc.nstreamsOut <= l.Streams, vAnd(s.rc.nconnsIn <= l.ConnsInbound, s.rc.nconnsOut <= l.ConnsOutbound)))
	ok = vAnd(ok, vAnd(s.rc.nconnsIn+s.rc.nconnsOut <= l.Conns, s.rc.nfd <= l.FD))
	vAssume(ok)
}

type vC03world struct {
	r      *resourceManager
	scopes []*resourceScope // every scope of the manager that may be charged
	names  []string
	rest   []resources // usage that belongs to "everybody else"
}

const vC03peerID, vC03proto, vC03svc = peer.ID("peerA"), protocol.ID("/p/1"), "svc"

func vC03newWorld(withStreamScopes bool) *vC03world {
	vC03useContract()
	lim := &vC03limiter{sys: vC03limit(), tr: vC03limit(), asys: vC03limit(), atr: vC03limit(), svc: vC03limit(), svcPeer: vC03limit(),
		proto: vC03limit(), protoPeer: vC03limit(), peer: vC03limit(), stream: vC03limit(), conn: vC03limit()}
	al := newAllowlist()
	r := &resourceManager{limits: lim, connLimiter: newConnLimiter(), allowlist: &al, connRateLimiter: &rate.Limiter{},
		svc: make(map[string]*serviceScope), proto: make(map[protocol.ID]*protocolScope), peer: make(map[peer.ID]*peerScope)}
	r.system = newSystemScope(lim.GetSystemLimits(), r, "system")
	r.system.IncRef()
	r.transient = newTransientScope(lim.GetTransientLimits(), r, "transient", r.system.resourceScope)
	r.transient.IncRef()
	r.allowlistedSystem = newSystemScope(lim.GetAllowlistedSystemLimits(), r, "allowlistedSystem")
	r.allowlistedSystem.IncRef()
	r.allowlistedTransient = newTransientScope(lim.GetAllowlistedTransientLimits(), r, "allowlistedTransient", r.allowlistedSystem.resourceScope)
	r.allowlistedTransient.IncRef()
	w := &vC03world{r: r}
	add := func(n string, s *resourceScope) {
		vC03fill(s)
		w.scopes, w.names = append(w.scopes, s), append(w.names, n)
	}
	add("system", r.system.resourceScope)
	add("transient", r.transient.resourceScope)
	add("allowlistedSystem", r.allowlistedSystem.resourceScope)
	add("allowlistedTransient", r.allowlistedTransient.resourceScope)
	ps := r.getPeerScope(vC03peerID)
	ps.DecRef()
	add("peer", ps.resourceScope)
	if withStreamScopes {
		pr := r.getProtocolScope(vC03proto)
		pr.DecRef()
		add("protocol", pr.resourceScope)
		pp := pr.getPeerScope(vC03peerID)
		pp.DecRef()
		add("protocol.peer", pp)
		sv := r.getServiceScope(vC03svc)
		sv.DecRef()
		add("service", sv.resourceScope)
		sp := sv.getPeerScope(vC03peerID)
		sp.DecRef()
		add("service.peer", sp)
	}
	for _, s := range w.scopes {
		w.rest = append(w.rest, s.rc)
	}
	return w
}

// usage(X) - rest(X) == held * [X in edges] for every scope X, and every scope within its limits
func (w *vC03world) frame(holder *resourceScope) bool {
	held := holder.rc.stat()
	ok := true
	for i, s := range w.scopes {
		in := 0
		for _, e := range holder.edges {
			if e == s {
				in++
			}
		}
		m, si, so, ci, co, fd := int64(0), 0, 0, 0, 0, 0
		if in == 1 {
			m, si, so, ci, co, fd = held.Memory, held.NumStreamsInbound, held.NumStreamsOutbound, held.NumConnsInbound, held.NumConnsOutbound, held.NumFD
		}
		ok = vAnd(ok, in <= 1)
		ok = vAnd(ok, vAnd(s.rc.memory-w.rest[i].memory == m, vAnd(s.rc.nstreamsIn-w.rest[i].nstreamsIn == si, s.rc.nstreamsOut-w.rest[i].nstreamsOut == so)))
		ok = vAnd(ok, vAnd(s.rc.nconnsIn-w.rest[i].nconnsIn == ci, vAnd(s.rc.nconnsOut-w.rest[i].nconnsOut == co, s.rc.nfd-w.rest[i].nfd == fd)))
	}
	return ok
}

func (w *vC03world) untouched() bool {
	ok := true
	for i, s := range w.scopes {
		ok = vAnd(ok, s.rc == w.rest[i])
	}
	return ok
}

func (w *vC03world) withinLimits() bool {
	ok := true
	for _, s := range w.scopes {
		ok = vAnd(ok, vC03within(s))
	}
	return ok
}

// the retry of a refused SetPeer names a peer the allow list does name
var vC03nowAllowedPeer bool

func vC03installStubs() (admit []bool) {
	vC03addN, vC03rmN = 0, 0
	admits := vBoolSlice(2)
	allowed, allowedPeer, rateOK := vBool(), vBool(), vBool()
	k := 0
	VerifHook_connLimiter_addConn = func(cl *connLimiter, ip netip.Addr) bool {
		a := admits[k%2]
		k++
		if a {
			vC03addN++
		}
		return a
	}
	VerifHook_connLimiter_rmConn = func(cl *connLimiter, ip netip.Addr) { vC03rmN++ }
	VerifHook_Allowlist_Allowed = func(al *Allowlist, ma multiaddr.Multiaddr) bool { return allowed }
	vC03nowAllowedPeer = false
	VerifHook_Allowlist_AllowedPeerAndMultiaddr = func(al *Allowlist, p peer.ID, ma multiaddr.Multiaddr) bool {
		return allowedPeer || vC03nowAllowedPeer
	}
	rate.VerifHook_Limiter_Allow = func(r *rate.Limiter, ip netip.Addr) bool { return rateOK }
	return admits
}

func vC03removeStubs() {
	VerifHook_connLimiter_addConn, VerifHook_connLimiter_rmConn = nil, nil
	VerifHook_Allowlist_Allowed, VerifHook_Allowlist_AllowedPeerAndMultiaddr = nil, nil
	rate.VerifHook_Limiter_Allow = nil
	vC03realMemory()
}

func VerifC03dConnLifecycle() {
	defer vC03removeStubs()
	k := vCase(8) // split over parallel shards: direction x fd x ip
	w := vC03newWorld(false)
	vC03installStubs()
	vC03ipValid = k&4 != 0
	ip := netip.Addr{}
	if vC03ipValid {
		ip = netip.AddrFrom4([4]byte{1, 2, 3, 4})
	}
	dir := network.DirInbound
	if k&1 != 0 {
		dir = network.DirOutbound
	}
	usefd := k&2 != 0
	cs, err := w.r.openConnection(dir, usefd, nil, ip)
	if err != nil {
		vCover("open-refused")
		vAssert(w.untouched(), "refused-open-changes-no-scope")
		vAssert(vC03addN == vC03rmN, "refused-open-returns-its-subnet-slot")
		return
	}
	conn := cs.(*connectionScope)
	if conn.isAllowlisted {
		vCover("allow-listed-open")
		vAssert(vC03addN == vC03rmN, "allow-listed-retry-returns-the-subnet-slot")
	} else {
		vAssert(vC03addN-vC03rmN == vB2I(vC03ipValid), "open-conn-holds-one-subnet-slot-iff-it-has-an-ip")
	}
	vAssert(w.frame(conn.resourceScope), "open: charged exactly once in its edge set")
	vAssert(len(conn.edges) == 2 && w.withinLimits(), "open: edges and limits")
	if vBool() {
		if conn.ReserveMemory(vRange(1, 1<<40), 255) == nil {
			vCover("holds-memory")
		}
		vAssert(w.frame(conn.resourceScope), "reserve: charged exactly once in its edge set")
	}
	held := conn.rc.stat()
	wasAllow := conn.isAllowlisted
	if wasAllow && vBool() {
		// the standard scopes, full when the connection was opened, have room again by the time its peer is known
		// (everybody else left): a transfer to them can now succeed. They hold nothing of this connection yet.
		vCover("standard-scopes-have-room-again")
		for i := 0; i < 2; i++ {
			sc := w.scopes[i]
			sc.rc.memory, sc.rc.nstreamsIn, sc.rc.nstreamsOut, sc.rc.nconnsIn, sc.rc.nconnsOut, sc.rc.nfd = 0, 0, 0, 0, 0, 0
			w.rest[i] = sc.rc
		}
	}
	err = conn.SetPeer(vC03peerID)
	edgesAfterRefusal := 2
	vAssert(conn.rc.stat() == held, "setpeer-does-not-change-what-the-conn-holds")
	if err != nil {
		vCover("setpeer-refused")
		if wasAllow && !conn.isAllowlisted && len(conn.edges) == 0 {
			vCover("transfer-refused")
		}
		vAssert(conn.peer == nil, "refused-setpeer-leaves-no-peer")
		vAssert(w.frame(conn.resourceScope), "refused-setpeer: still charged exactly once")
		edgesAfterRefusal = len(conn.edges) // asserted last, so that the known finding there masks nothing else on the path
		if len(conn.edges) > 0 && vBool() {
			// the caller tries again - the peer's other connections have gone meanwhile, and the retry may name a peer
			// the allow list does name: whatever the first attempt moved must not be moved, charged or released twice
			vCover("setpeer-retried-after-refusal")
			ps := w.scopes[4] // the peer scope: nobody else holds anything in it any more
			ps.rc.memory, ps.rc.nstreamsIn, ps.rc.nstreamsOut, ps.rc.nconnsIn, ps.rc.nconnsOut, ps.rc.nfd = 0, 0, 0, 0, 0, 0
			w.rest[4] = ps.rc
			vC03nowAllowedPeer = vBool()
			if conn.SetPeer(vC03peerID) == nil {
				vCover("setpeer-retry-ok")
				vAssert(len(conn.edges) == 2 && conn.edges[0] == conn.peer.resourceScope, "retried setpeer: edges are peer + system")
			}
			vC03nowAllowedPeer = false
			vAssert(conn.rc.stat() == held, "a retried setpeer does not change what the conn holds")
			vAssert(w.frame(conn.resourceScope), "a retried setpeer leaves the conn charged exactly once in its edge set, and no scope outside it charged")
		}
	} else {
		vCover("setpeer-ok")
		if wasAllow && !conn.isAllowlisted {
			vCover("transferred-to-standard")
		}
		vAssert(w.frame(conn.resourceScope), "setpeer: charged exactly once in the new edge set")
		vAssert(len(conn.edges) == 2 && conn.edges[0] == conn.peer.resourceScope, "setpeer: edges are peer + system")
		sys := w.r.system.resourceScope
		if conn.isAllowlisted {
			sys = w.r.allowlistedSystem.resourceScope
		}
		vAssert(conn.edges[1] == sys, "setpeer: system edge kept")
		vAssert(w.withinLimits(), "setpeer: limits")
	}
	slot := vC03addN - vC03rmN
	conn.Done()
	vAssert(w.untouched(), "done: every scope back to its previous value")
	vAssert(vC03addN == vC03rmN, "done-returns-the-subnet-slot-exactly-once")
	_ = slot
	conn.Done()
	vAssert(w.untouched(), "second-done-changes-nothing")
	vAssert(vC03addN == vC03rmN, "second-done-does-not-return-another-subnet-slot")
	refs := true
	for _, s := range w.scopes {
		refs = vAnd(refs, s.refCnt >= 0)
	}
	vAssert(refs, "reference-counts-not-negative")
	vAssert(w.r.transient.refCnt == 1 && w.r.allowlistedTransient.refCnt == 1, "transient-references-balanced")
	vAssert(edgesAfterRefusal == 2, "refused-setpeer: still in a consistent non-empty edge set")
}

func VerifC03dStreamLifecycle() {
	defer vC03removeStubs()
	w := vC03newWorld(true)
	dir := network.DirInbound
	if vBool() {
		dir = network.DirOutbound
	}
	ss, err := w.r.OpenStream(vC03peerID, dir)
	if err != nil {
		vCover("open-refused")
		vAssert(w.untouched(), "refused-open-changes-no-scope")
		return
	}
	st := ss.(*streamScope)
	vAssert(w.frame(st.resourceScope) && len(st.edges) == 3, "open: charged exactly once in peer+transient+system")
	if vBool() {
		if st.ReserveMemory(vRange(1, 1<<40), 255) == nil {
			vCover("holds-memory")
		}
		vAssert(w.frame(st.resourceScope), "reserve: charged exactly once in its edge set")
	}
	held := st.rc.stat()
	err = st.SetProtocol(vC03proto)
	vAssert(st.rc.stat() == held, "setprotocol-does-not-change-what-the-stream-holds")
	if err != nil {
		vCover("setprotocol-refused")
		vAssert(st.proto == nil && st.peerProtoScope == nil && len(st.edges) == 3, "refused-setprotocol: edge set unchanged")
		vAssert(w.frame(st.resourceScope), "refused-setprotocol: still charged exactly once")
	} else {
		vCover("setprotocol-ok")
		vAssert(w.frame(st.resourceScope) && len(st.edges) == 4, "setprotocol: charged exactly once in peer+peerProto+proto+system")
		vAssert(w.withinLimits(), "setprotocol: limits")
		err = st.SetService(vC03svc)
		vAssert(st.rc.stat() == held, "setservice-does-not-change-what-the-stream-holds")
		if err != nil {
			vCover("setservice-refused")
			vAssert(st.svc == nil && st.peerSvcScope == nil && len(st.edges) == 4, "refused-setservice: edge set unchanged")
			vAssert(w.frame(st.resourceScope), "refused-setservice: still charged exactly once")
		} else {
			vCover("setservice-ok")
			vAssert(w.frame(st.resourceScope) && len(st.edges) == 6, "setservice: charged exactly once in all six scopes")
			vAssert(w.withinLimits(), "setservice: limits")
		}
	}
	st.Done()
	vAssert(w.untouched(), "done: every scope back to its previous value")
	st.Done()
	vAssert(w.untouched(), "second-done-changes-nothing")
	vAssert(w.r.transient.refCnt == 1, "transient-references-balanced")
}
