//go:build verif

//verif:dir p2p/host/peerstore/pstoreds
//verif:also C13 VerifC09hP2PSuffix
//verif:noreplace github.com/libp2p/go-libp2p/core/peer.SplitAddr
//verif:noreplace github.com/multiformats/go-multiaddr.NewMultiaddrBytes
//verif:shard VerifC09hP2PSuffix 12
//verif:obligation C09.h addresses with a /p2p suffix, both books side by side through the real peer.SplitAddr and the real multiaddr parser: on every history of 2 operations from {AddAddrs, SetAddrs(ttl > 0), SetAddrs(ttl <= 0)} over batches of 1..2 of the forms {A, A/p2p/P, A/p2p/Q, B/p2p/P} addressed to peer P: a suffix naming P is stripped (the bare address is what is stored, returned and removed; A and A/p2p/P are one address), a form naming another peer is ignored by adds (it neither adds the address nor refreshes the lifetime of one already known) and removes nothing, no returned address carries a /p2p component, nothing ever lands under Q, and both books answer exactly the set the statement gives
//verif:bound 2 peers (real peer IDs), 2 transport addresses, 4 address forms, batches of 1..2, history 2
//verif:stub flush hooked to "mark clean", harness cache and clock for the datastore book; the memory book runs unmodified behind its public API with the same clock
//verif:outside TTL classes and expiry (C09.b/c), signed records whose addresses carry a suffix
package pstoreds

import (
	"time"

	"github.com/libp2p/go-libp2p/core/peer"
	"github.com/libp2p/go-libp2p/p2p/host/peerstore/pstoremem"
	ma "github.com/multiformats/go-multiaddr"
)

func vC09hParse(s string) ma.Multiaddr {
	m, err := ma.NewMultiaddr(s)
	if err != nil {
		panic(err)
	}
	return m
}

// parsed once, by the real parser
const vC09hIDP = "QmYyQSo1c1Ym7orWxLYvCrM2EmxFTANf8wXmmE7DWjhx5N"
const vC09hIDQ = "QmcgpsyWgH8Y8ajJz1Cu72KnS5uo2Aa2LpzU7kinSupNKC"

var vC09hP, vC09hQ = vC09hDecode(vC09hIDP), vC09hDecode(vC09hIDQ)
var vC09hBare = []ma.Multiaddr{vC09hParse("/ip4/1.2.3.4/tcp/1"), vC09hParse("/ip4/1.2.3.4/tcp/2")}
var vC09hForms = []ma.Multiaddr{
	vC09hBare[0],
	vC09hParse("/ip4/1.2.3.4/tcp/1/p2p/" + vC09hIDP),
	vC09hParse("/ip4/1.2.3.4/tcp/1/p2p/" + vC09hIDQ),
	vC09hParse("/ip4/1.2.3.4/tcp/2/p2p/" + vC09hIDP),
}

func vC09hDecode(s string) peer.ID {
	p, err := peer.Decode(s)
	if err != nil {
		panic(err)
	}
	return p
}

func VerifC09hP2PSuffix() {
	defer func() { VerifHook_addrsRecord_flush = nil }()
	P, Q := vC09hP, vC09hQ
	bare, forms := vC09hBare, vC09hForms
	formBare := []int{0, 0, -1, 1} // which bare address a form stands for when addressed to P (-1: names another peer)
	dab, _ := vC09book(nil)
	mab := pstoremem.NewAddrBook(pstoremem.WithClock(vC09gClock{}))
	defer mab.Close()
	vC09now = time.Unix(1000, 0)
	var want [2]bool
	var exp [2]int64 // reference: until when each bare address lives (seconds)
	for step := 0; step < 2; step++ {
		ttl := time.Hour
		if step == 1 {
			ttl = 3 * time.Hour // the second operation would extend lifetimes: a form naming another peer must not
			vC09now = time.Unix(1600, 0)
		}
		nowS := vC09now.Unix()
		// the first draw of a path is what the parallel shards split on: operation and first form together
		k := vCase(12)
		op, first := k%3, k/3
		n := 1 + vCase(2)
		var batch []ma.Multiaddr
		var idx []int
		for i := 0; i < n; i++ {
			f := first
			if i > 0 {
				f = vCase(4)
			}
			batch = append(batch, forms[f])
			idx = append(idx, formBare[f])
			if f == 2 {
				vCover("form-naming-another-peer")
			}
			if f == 1 || f == 3 {
				vCover("form-naming-this-peer")
			}
		}
		switch op {
		case 0:
			dab.AddAddrs(P, batch, ttl)
			mab.AddAddrs(P, batch, ttl)
			for _, b := range idx {
				if b >= 0 {
					want[b] = true
					if e := nowS + int64(ttl/time.Second); e > exp[b] {
						exp[b] = e
					}
				}
			}
		case 1:
			dab.SetAddrs(P, batch, ttl)
			mab.SetAddrs(P, batch, ttl)
			for _, b := range idx {
				if b >= 0 {
					want[b] = true
					exp[b] = nowS + int64(ttl/time.Second)
				}
			}
		case 2:
			vCover("remove")
			dab.SetAddrs(P, batch, 0)
			mab.SetAddrs(P, batch, 0)
			for _, b := range idx {
				if b >= 0 {
					want[b] = false
				}
			}
		}
	}
	for which, got := range [][]ma.Multiaddr{dab.Addrs(P), mab.Addrs(P)} {
		var has [2]bool
		clean := true
		for _, g := range got {
			if _, id := peer.SplitAddr(g); id != "" {
				clean = false
			}
			hit := false
			for i := range bare {
				if g.Equal(bare[i]) && !has[i] {
					has[i], hit = true, true
				}
			}
			if !hit {
				clean = false
			}
		}
		if which == 0 {
			vAssert(clean, "datastore book: every returned address is one of the bare addresses, once, without a /p2p component")
			vAssert(has == want, "datastore book: a suffix naming the peer is stripped, a form naming another peer is ignored")
		} else {
			vAssert(clean, "memory book: every returned address is one of the bare addresses, once, without a /p2p component")
			vAssert(has == want, "memory book: a suffix naming the peer is stripped, a form naming another peer is ignored")
		}
	}
	vAssert(len(dab.Addrs(Q)) == 0 && len(mab.Addrs(Q)) == 0, "nothing lands under the peer a foreign suffix names")
	// two hours on: what the first operation added lives on only if the second operation validly named it again
	later := int64(1600 + 2*3600)
	vC09now = time.Unix(later, 0)
	for which, got := range [][]ma.Multiaddr{dab.Addrs(P), mab.Addrs(P)} {
		for b := range bare {
			has := vC09gHas(got, bare[b])
			alive := want[b] && exp[b] > later
			if which == 0 {
				vAssert(has == alive, "datastore book: a form naming another peer does not refresh the lifetime of an address already known")
			} else {
				vAssert(has == alive, "memory book: a form naming another peer does not refresh the lifetime of an address already known")
			}
		}
	}
}
