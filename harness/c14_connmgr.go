//go:build verif

//verif:dir p2p/net/connmgr
//verif:shard VerifC14aTrim 12
//verif:shard VerifC14cEmergency 14
//verif:shard VerifC14dDecayer 3
//verif:obligation C14.f a peer whose last connection goes away and which reconnects while a trim is between collecting and selecting its candidates (the window in which the trim reads connection statistics): afterwards every peer with an open connection is still tracked with exactly that connection and the connection count equals what the notifications imply; the vanished connection is not selected
//verif:obligation C14.d decaying tags through the real decayer goroutine (process loop) driven by benbjohnson's mock clock: on every history of 3 (thorough 4) operations from {Bump(delta 1..30), one tick, Remove} with a fixed-step decay function of symbolic step 1..20 and a static tag of symbolic value: after every operation the peer's cached value equals the sum of its static and decaying tag values, and a decaying value that reaches zero or below - also when the decay function overshoots below zero - is removed together with exactly its own contribution
//verif:obligation C14.a getConnsToClose from an arbitrary manager state: up to 3 tracked peers with symbolic tag value, temporary flag, first-seen instant, protection, 0..2 connections each (thorough: with symbolic direction and stream count), symbolic watermarks, grace period and clock: no connection of a protected peer or of a peer inside its grace period is selected; nothing is selected when the connection count is at or below the low watermark or the manager is disabled; a peer's connections are selected all or none; otherwise at most low-watermark connections remain among the eligible peers; no peer is closed while a lower-valued eligible (non-temporary, connected) peer is kept
//verif:obligation C14.b bookkeeping steps: TagPeer / UntagPeer / UpsertTag keep a peer's value equal to the sum of its tags for every tag history step (including re-tagging to zero); Connected / Disconnected keep the connection count equal to the number of tracked connections, ignore duplicates and unknown connections, and a peer that was only tagged before gets its grace period from the moment it connects
//verif:obligation C14.c getConnsToCloseEmergency: a protected peer's connection is selected only if every connection of every unprotected peer is selected too
//verif:bound 3 peers (two of them share a segment; thorough: the comparator's tie-breakers - direction, streams - symbolic too), <= 2 connections per peer, peer values any int (the whole range: a peer pinned at MaxInt against a penalised one), tag values of the tagging operations in [-2^40, 2^40], sort.Slice summarised by an insertion network over the real comparator (<= 8 elements)
//verif:stub network.Conn stub (RemotePeer, Stat); clock stub; sort.Slice summary of the engine; mutexes sequential
//verif:outside concurrent trims and tagging (lock discipline), decaying tags, silence period of the background loop, memory watchdog
package connmgr

import (
	"time"

	"github.com/benbjohnson/clock"
	"github.com/libp2p/go-libp2p/core/connmgr"
	"github.com/libp2p/go-libp2p/core/network"
	"github.com/libp2p/go-libp2p/core/peer"
)

var vC14now time.Time

type vC14clock struct{ clock.Clock }

func (vC14clock) Now() time.Time { return vC14now }

type vC14conn struct {
	network.Conn
	p       peer.ID
	inbound bool
	streams int
	idx     int
}

func (c *vC14conn) RemotePeer() peer.ID { return c.p }

// what happens "meanwhile", the first time a trim looks at a connection's statistics (it does so while sorting,
// between collecting its candidates and selecting among them)
var vC14meanwhile func()

func (c *vC14conn) Stat() network.ConnStats {
	if f := vC14meanwhile; f != nil {
		vC14meanwhile = nil
		f()
	}
	st := network.ConnStats{NumStreams: c.streams}
	st.Direction = network.DirOutbound
	if c.inbound {
		st.Direction = network.DirInbound
	}
	return st
}

var vC14ids = []peer.ID{"x0", "y0", "x1", "x2"}

func vC14mgr() *BasicConnMgr {
	cm := &BasicConnMgr{clock: vC14clock{}, cfg: &config{}, protected: map[peer.ID]map[string]struct{}{}}
	for i := range cm.segments.buckets {
		cm.segments.buckets[i] = &segment{peers: map[peer.ID]*peerInfo{}}
	}
	return cm
}

type vC14peer struct {
	present   bool
	info      *peerInfo
	conns     []*vC14conn
	protected bool
	inGrace   bool
}

func vC14state(cm *BasicConnMgr, n int, shardBits int, ties bool) []vC14peer {
	now := int64(vRange(1<<40, 1<<50))
	vC14now = time.Unix(0, now)
	cm.cfg.gracePeriod = time.Duration(vRange(0, 1<<39))
	peers := make([]vC14peer, n)
	total := 0
	for i := 0; i < n; i++ {
		p := &peers[i]
		p.present = true
		nconns := (shardBits >> (2 * i)) & 3
		if nconns == 3 {
			p.present = false
			continue
		}
		fs := int64(vRange(0, 1<<50))
		inf := &peerInfo{id: vC14ids[i], tags: map[string]int{}, decaying: map[*decayingTag]*connmgr.DecayingValue{},
			conns: map[network.Conn]time.Time{}, value: vInt(), firstSeen: time.Unix(0, fs)}
		if nconns == 0 {
			inf.temp = vBool() // an entry without connections only exists as a temporary (early tag) entry...
			vAssume(inf.temp)
		}
		for k := 0; k < nconns; k++ {
			c := &vC14conn{p: vC14ids[i], idx: k}
			if ties { // tie-breakers of the comparator (direction, streams) do not matter to the statement
				c.inbound, c.streams = vBool(), vRange(0, 100)
			}
			inf.conns[c] = vC14now
			p.conns = append(p.conns, c)
			total++
		}
		p.info = inf
		cm.segments.get(vC14ids[i]).peers[vC14ids[i]] = inf
		p.protected = vBool()
		if p.protected {
			cm.protected[vC14ids[i]] = map[string]struct{}{"tag": {}}
		}
		p.inGrace = fs > now-int64(cm.cfg.gracePeriod)
	}
	cm.connCount.Store(int32(total))
	return peers
}

func vC14selected(sel []network.Conn, c *vC14conn) int {
	n := 0
	for _, s := range sel {
		if s == network.Conn(c) {
			n++
		}
	}
	return n
}

func VerifC14aTrim() {
	n := 3                       // a fourth peer was tried for the thorough tier: the 14 parallel jobs ran the machine out of memory (39 GB); thorough keeps 3 peers and makes the comparator's tie-breakers symbolic
	shard := vCase(1 << (2 * 3)) // connections per peer for the first three peers: 0,1,2 or absent
	if n == 4 {
		shard |= vCase(4) << 6
	}
	cm := vC14mgr()
	peers := vC14state(cm, n, shard, vTier() > 0)
	cm.cfg.lowWater, cm.cfg.highWater = vRange(0, 8), vRange(0, 16)
	total := int(cm.connCount.Load())
	sel := cm.getConnsToClose()
	eligible, closed := 0, 0
	for i := range peers {
		p := &peers[i]
		if !p.present {
			continue
		}
		k := 0
		for _, c := range p.conns {
			m := vC14selected(sel, c)
			vAssert(m <= 1, "no connection selected twice")
			k += m
		}
		vAssert(k == 0 || k == len(p.conns), "a peer's connections are closed all or none")
		if p.protected {
			vAssert(k == 0, "a protected peer is never trimmed")
		}
		if p.inGrace {
			vAssert(k == 0, "a peer inside its grace period is never trimmed")
		}
		if !p.protected && !p.inGrace {
			eligible += len(p.conns)
			closed += k
		}
	}
	vAssert(len(sel) == closed, "only connections of eligible tracked peers are selected")
	if cm.cfg.lowWater == 0 || cm.cfg.highWater == 0 {
		vCover("disabled")
		vAssert(len(sel) == 0, "a disabled manager trims nothing")
		return
	}
	if total <= cm.cfg.lowWater {
		vCover("below-low-water")
		vAssert(len(sel) == 0, "nothing is trimmed at or below the low watermark")
		return
	}
	if eligible < cm.cfg.lowWater {
		vCover("mostly-in-grace")
		vAssert(len(sel) == 0, "nothing is trimmed when fewer than low-watermark connections are eligible")
		return
	}
	vCover("trimming")
	vAssert(eligible-closed <= cm.cfg.lowWater, "at most low-watermark connections remain among the eligible peers")
	for i := range peers {
		p := &peers[i]
		if !p.present || p.protected || p.inGrace || len(p.conns) == 0 || vC14selected(sel, p.conns[0]) == 0 {
			continue
		}
		for j := range peers {
			q := &peers[j]
			if i == j || !q.present || q.protected || q.inGrace || len(q.conns) == 0 || vC14selected(sel, q.conns[0]) != 0 {
				continue
			}
			// p is closed, q is an eligible connected peer that is kept
			vAssert(q.info.value >= p.info.value, "no peer is closed while a lower-valued eligible peer is kept")
		}
	}
}

func VerifC14cEmergency() {
	shard := vCase(1 << 6)
	cm := vC14mgr()
	peers := vC14state(cm, 3, shard, false) // symbolic tie-breakers here (two sorts) ran the thorough tier out of memory
	target := vRange(0, 8)
	sel := cm.getConnsToCloseEmergency(target)
	anyProtected, allUnprotected := false, true
	for i := range peers {
		p := &peers[i]
		if !p.present {
			continue
		}
		for _, c := range p.conns {
			m := vC14selected(sel, c)
			if p.protected && m > 0 {
				anyProtected = true
			}
			if !p.protected && m == 0 {
				allUnprotected = false
			}
		}
	}
	if anyProtected {
		vCover("protected-closed")
		vAssert(allUnprotected, "a forced trim closes protected peers only after all unprotected ones")
	}
	if target <= 0 {
		vCover("at-or-below-the-low-watermark")
		vAssert(len(sel) == 0, "a forced trim does nothing when the connection count is at or below the low watermark")
	} else {
		// peers have at most 2 connections here: selection stops with the peer that reaches the target
		vAssert(len(sel) <= target+1, "a forced trim stops closing as soon as the low watermark is reached")
	}
}

// ---- C14.b ----

var vC14tags = []string{"t0", "t1", "t2"}

func vC14sum(pi *peerInfo) int {
	s := 0
	for _, v := range pi.tags {
		s += v
	}
	return s
}

func VerifC14bTags() {
	cm := vC14mgr()
	vC14now = time.Unix(0, int64(vRange(1<<40, 1<<50)))
	p := vC14ids[0]
	known := vBool()
	if known {
		pi := &peerInfo{id: p, tags: map[string]int{}, decaying: map[*decayingTag]*connmgr.DecayingValue{}, conns: map[network.Conn]time.Time{}}
		for i := 0; i < 2; i++ {
			if vBool() {
				pi.tags[vC14tags[i]] = vRange(-(1 << 40), 1<<40)
			}
		}
		pi.value = vC14sum(pi)
		cm.segments.get(p).peers[p] = pi
	}
	for step := 0; step < 2; step++ {
		tag := vC14tags[vCase(3)]
		switch vCase(3) {
		case 0:
			val := vRange(-(1 << 40), 1<<40)
			cm.TagPeer(p, tag, val)
			pi := cm.segments.get(p).peers[p]
			vAssert(pi != nil && pi.tags[tag] == val, "TagPeer sets the tag")
			if val == 0 {
				vCover("retag-to-zero")
			}
		case 1:
			cm.UntagPeer(p, tag)
			if pi := cm.segments.get(p).peers[p]; pi != nil {
				_, still := pi.tags[tag]
				vAssert(!still, "UntagPeer removes the tag")
			}
		case 2:
			d := vRange(-(1 << 20), 1<<20)
			var old int
			if pi := cm.segments.get(p).peers[p]; pi != nil {
				old = pi.tags[tag]
			}
			cm.UpsertTag(p, tag, func(v int) int { return v + d })
			vAssert(cm.segments.get(p).peers[p].tags[tag] == old+d, "UpsertTag applies the function to the old value")
		}
		if pi := cm.segments.get(p).peers[p]; pi != nil {
			vAssert(pi.value == vC14sum(pi), "a peer's value equals the sum of its tags")
			if ti := cm.GetTagInfo(p); ti != nil {
				vAssert(ti.Value == pi.value, "GetTagInfo reports that value")
			}
		}
	}
}

func VerifC14bConnected() {
	cm := vC14mgr()
	t0 := int64(vRange(1<<40, 1<<50))
	vC14now = time.Unix(0, t0)
	p := vC14ids[0]
	early := vBool()
	if early {
		cm.TagPeer(p, "t0", vRange(0, 100)) // tagged before the Connected notification arrives
	}
	protect := vBool()
	if protect {
		cm.Protect(p, "keep")
	}
	c1, c2 := &vC14conn{p: p, idx: 1}, &vC14conn{p: p, idx: 2}
	nn := (*cmNotifee)(cm)
	t1 := t0 + int64(vRange(0, 1<<45))
	vC14now = time.Unix(0, t1)
	nn.Connected(nil, c1)
	pi := cm.segments.get(p).peers[p]
	vAssert(pi != nil && !pi.temp && len(pi.conns) == 1 && cm.connCount.Load() == 1, "Connected tracks the connection")
	vAssert(pi.firstSeen.Equal(time.Unix(0, t1)), "the grace period of a peer starts when it connects, also if it was tagged earlier")
	if early {
		vCover("early-tagged")
		vAssert(pi.value == pi.tags["t0"], "early tags are kept")
	}
	nn.Connected(nil, c1)
	vAssert(len(pi.conns) == 1 && cm.connCount.Load() == 1, "a duplicate Connected changes nothing")
	nn.Connected(nil, c2)
	vAssert(len(pi.conns) == 2 && cm.connCount.Load() == 2 && pi.firstSeen.Equal(time.Unix(0, t1)), "a second connection is counted, first-seen unchanged")
	nn.Disconnected(nil, &vC14conn{p: p, idx: 3})
	vAssert(len(pi.conns) == 2 && cm.connCount.Load() == 2, "Disconnected for an unknown connection changes nothing")
	nn.Disconnected(nil, c1)
	vAssert(len(pi.conns) == 1 && cm.connCount.Load() == 1, "Disconnected drops exactly that connection")
	nn.Disconnected(nil, c1)
	vAssert(len(pi.conns) == 1 && cm.connCount.Load() == 1, "a duplicate Disconnected changes nothing")
	nn.Disconnected(nil, c2)
	_, still := cm.segments.get(p).peers[p]
	vAssert(!still && cm.connCount.Load() == 0, "the peer is forgotten with its last connection")
	vAssert(cm.IsProtected(p, "keep") == protect, "protection is the application's to give and take: connections coming and going never change it (a protected peer that reconnects is still protected)")
	if protect {
		// the peer reconnects, time passes, a trim is due: it must not pick the protected peer
		nn.Connected(nil, c1)
		vC14now = time.Unix(0, t1+int64(time.Hour))
		cm.cfg.lowWater, cm.cfg.highWater, cm.cfg.gracePeriod = 1, 1, time.Minute
		other := &vC14conn{p: vC14ids[1], idx: 1}
		nn.Connected(nil, other)
		vC14now = time.Unix(0, t1+int64(2*time.Hour))
		for _, c := range cm.getConnsToClose() {
			vAssert(c.RemotePeer() != p, "a trim never closes a protected peer, also after the peer reconnected")
		}
		vCover("protected-peer-reconnected")
	}
}

// ---- C14.d: decaying tags through the real decayer goroutine and a mock clock ----

func VerifC14dDecayer() {
	cm := vC14mgr()
	mock := clock.NewMock()
	mock.Set(time.Unix(1_000_000, 0))
	d, err := NewDecayer(&DecayerCfg{Resolution: time.Minute, Clock: mock}, cm)
	vAssert(err == nil, "decayer starts")
	step := vRange(1, 20)
	tag, err := d.RegisterDecayingTag("decay", time.Minute, connmgr.DecayFixed(step), connmgr.BumpSumUnbounded())
	vAssert(err == nil, "tag registers")
	p := vC14ids[0]
	static := vRange(0, 50)
	cm.TagPeer(p, "t0", static)
	settle := func() {
		for i := 0; i < 12; i++ {
			vYield()
		}
	}
	check := func() {
		s := cm.segments.get(p)
		s.Lock()
		defer s.Unlock()
		pi := s.peers[p]
		if pi == nil {
			return
		}
		sum := 0
		for _, v := range pi.tags {
			sum += v
		}
		for _, dv := range pi.decaying {
			sum += dv.Value
			vAssert(dv.Value > 0, "a decaying value that has reached zero or below is removed")
		}
		vAssert(pi.value == sum, "a peer's value equals the sum of its tags, decaying ones included")
	}
	for k := 0; k < 3+vTier(); k++ {
		switch vCase(3) {
		case 0:
			tag.Bump(p, vRange(1, 30))
			settle()
			vCover("bumped")
		case 1:
			mock.Add(time.Minute)
			settle()
			vCover("ticked")
		case 2:
			tag.Remove(p)
			settle()
		}
		check()
	}
	mock.Add(2 * time.Minute)
	settle()
	check()
	d.Close()
}

// ---- C14.f: a peer that drops its last connection and reconnects while a trim is under way ----

func VerifC14fReconnectDuringTrim() {
	cm := vC14mgr()
	t0 := int64(1 << 41)
	vC14now = time.Unix(0, t0)
	nn := (*cmNotifee)(cm)
	// three peers in three different segments (the segment is chosen by the last byte of the ID)
	a, b, x := peer.ID("p\x01"), peer.ID("p\x02"), peer.ID("p\x09")
	ca, cb, cx := &vC14conn{p: a, idx: 1}, &vC14conn{p: b, idx: 1}, &vC14conn{p: x, idx: 1}
	nn.Connected(nil, ca)
	nn.Connected(nil, cb)
	nn.Connected(nil, cx)
	cm.TagPeer(x, "penalty", -5) // the first candidate of a trim; the two others are equally valued, so sorting them reads statistics
	cm.cfg.lowWater, cm.cfg.highWater, cm.cfg.gracePeriod = 1+vCase(2), 2, time.Minute
	vC14now = time.Unix(0, t0+int64(time.Hour)) // everybody is out of the grace period
	cx2 := &vC14conn{p: x, idx: 2}
	reconnect := false // did the peer reconnect inside the trim? (only if the trim really reads statistics in between)
	if vBool() {
		vC14meanwhile = func() { // while the trim sorts its candidates (comparing the two other peers)
			nn.Disconnected(nil, cx)
			nn.Connected(nil, cx2)
			reconnect = true
		}
	}
	sel := cm.getConnsToClose()
	vC14meanwhile = nil
	if reconnect {
		vCover("reconnected-during-the-trim")
	}
	// what the notifications delivered imply
	open := map[peer.ID]*vC14conn{a: ca, b: cb, x: cx}
	if reconnect {
		open[x] = cx2
	}
	tracked := 0
	for id, c := range open {
		inf := cm.segments.get(id).peers[id]
		vAssert(inf != nil, "a peer with an open connection stays tracked, whatever a concurrent trim does")
		if inf != nil {
			_, has := inf.conns[c]
			vAssert(has && len(inf.conns) == 1, "exactly its open connection is tracked")
			tracked += len(inf.conns)
		}
	}
	vAssert(int(cm.connCount.Load()) == 3 && tracked == 3, "the connection count equals what the notifications delivered imply")
	for _, c := range sel {
		vAssert(c != network.Conn(cx) || !reconnect, "a connection that is already gone is not selected for closing")
	}
}
