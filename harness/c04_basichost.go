//go:build verif

//verif:dir p2p/host/basic
//verif:also C03 VerifC04eNewStream
//verif:also C07 VerifC04eNewStream
//verif:subst p2p/host/basic github.com/multiformats/go-multistream.SelectOneOf !verifSelectOneOf
//verif:obligation C04.e BasicHost.NewStream: whenever the call fails after the swarm stream was opened (identify wait cancelled, peerstore error, SetProtocol refused on the known-protocol path, negotiation error, SetProtocol refused after negotiation) the stream is reset, so its scope and the muxed stream are released; when it fails before a stream exists nothing is leaked; on success the stream is not reset and reports one of the requested protocols, set before it is returned
//verif:bound one NewStream call; request list of 2 protocol IDs; every stage outcome symbolic
//verif:stub network.Network / Stream / Conn / Peerstore / identify service are harness stubs; msmux.SelectOneOf is substituted at its call site by a harness function (returns one of the requested IDs or an error); context cancellation is decided before the call (a cancelled context with identify still pending, or a live context)
//verif:outside the multistream-select wire protocol, the lazy handshake's first-use failure, timing of cancellation during negotiation
package basichost

import (
	"context"
	"errors"
	"io"

	"github.com/libp2p/go-libp2p/core/network"
	"github.com/libp2p/go-libp2p/core/peer"
	"github.com/libp2p/go-libp2p/core/peerstore"
	"github.com/libp2p/go-libp2p/core/protocol"
	msmux "github.com/multiformats/go-multistream"
)

var verifSelectOneOf = msmux.SelectOneOf[protocol.ID]

type vC04stream struct {
	network.Stream
	conn         network.Conn
	proto        protocol.ID
	setProtoFail bool
	setProtos    int
	resets       int
}

func (s *vC04stream) Conn() network.Conn    { return s.conn }
func (s *vC04stream) Protocol() protocol.ID { return s.proto }
func (s *vC04stream) SetProtocol(p protocol.ID) error {
	s.setProtos++
	if s.setProtoFail {
		return errors.New("resource limit exceeded")
	}
	s.proto = p
	return nil
}
func (s *vC04stream) Reset() error                                 { s.resets++; return nil }
func (s *vC04stream) ResetWithError(network.StreamErrorCode) error { s.resets++; return nil }
func (s *vC04stream) Read(b []byte) (int, error)                   { return 0, io.EOF }
func (s *vC04stream) Write(b []byte) (int, error)                  { return len(b), nil }
func (s *vC04stream) Close() error                                 { return nil }

type vC04conn struct{ network.Conn }

type vC04ps struct {
	peerstore.Peerstore
	supErr  bool
	supMode int // 0 none, 1 first, 2 second
	added   []protocol.ID
}

func (ps *vC04ps) SupportsProtocols(p peer.ID, pids ...protocol.ID) ([]protocol.ID, error) {
	if ps.supErr {
		return nil, errors.New("peerstore error")
	}
	switch ps.supMode {
	case 1:
		return pids[:1], nil
	case 2:
		return pids[1:2], nil
	}
	return nil, nil
}
func (ps *vC04ps) AddProtocols(p peer.ID, pids ...protocol.ID) error {
	ps.added = append(ps.added, pids...)
	return nil
}

type vC04net struct {
	network.Network
	ps       *vC04ps
	stream   *vC04stream
	openFail int // 0 ok, 1 ErrNoConn, 2 other
	noDial   bool
}

func (n *vC04net) Peerstore() peerstore.Peerstore { return n.ps }
func (n *vC04net) NewStream(ctx context.Context, p peer.ID) (network.Stream, error) {
	n.noDial, _ = network.GetNoDial(ctx)
	switch n.openFail {
	case 1:
		return nil, network.ErrNoConn
	case 2:
		return nil, errors.New("no stream")
	}
	return n.stream, nil
}

type vC04ids struct {
	ch chan struct{}
}

func (i *vC04ids) IdentifyConn(network.Conn)                 {}
func (i *vC04ids) IdentifyWait(network.Conn) <-chan struct{} { return i.ch }
func (i *vC04ids) Start()                                    {}
func (i *vC04ids) Close() error                              { return nil }

var vC04pids = []protocol.ID{"/proto/a", "/proto/b"}

func VerifC04eNewStream() {
	st := &vC04stream{conn: &vC04conn{}, setProtoFail: vBool()}
	ps := &vC04ps{supErr: vBool(), supMode: vCase(3)}
	nw := &vC04net{ps: ps, stream: st, openFail: vCase(3)}
	ids := &vC04ids{ch: make(chan struct{})}
	selFail, selIdx := vBool(), vCase(2)
	saved := verifSelectOneOf
	verifSelectOneOf = func(protos []protocol.ID, rwc io.ReadWriteCloser) (protocol.ID, error) {
		if selFail {
			return "", errors.New("protocols not supported")
		}
		return protos[selIdx], nil
	}
	defer func() { verifSelectOneOf = saved }()
	h := &BasicHost{network: nw, ids: ids}
	ctx, cancel := context.WithCancel(network.WithNoDial(context.Background(), "verif"))
	defer cancel()
	cancelled := vBool()
	if cancelled {
		cancel() // the caller gave up while identify is still pending
	} else {
		close(ids.ch) // identify has completed
	}
	s, err := h.NewStream(ctx, "peerA", vC04pids...)
	opened := nw.openFail == 0
	vAssert(nw.noDial, "the swarm is asked not to dial again")
	if err != nil {
		vCover("failed")
		vAssert(s == nil, "no stream on error")
		if opened {
			vCover("failed-after-open")
			vAssert(st.resets >= 1, "a stream that was opened is reset on every failure")
		} else {
			vAssert(st.resets == 0 && st.setProtos == 0, "nothing touched when no stream was opened")
		}
		return
	}
	vCover("ok")
	vAssert(opened && !cancelled && !ps.supErr && !st.setProtoFail, "success needs every stage to succeed")
	vAssert(st.resets == 0, "a returned stream is not reset")
	vAssert(st.setProtos == 1 && (st.proto == vC04pids[0] || st.proto == vC04pids[1]), "the stream is bound to one of the requested protocols before it is returned")
	vAssert(s.Protocol() == st.proto, "the returned stream reports that protocol")
	if ps.supMode == 0 {
		vCover("negotiated")
		vAssert(!selFail && st.proto == vC04pids[selIdx], "the negotiated protocol is the one multistream selected")
		vAssert(len(ps.added) == 1 && ps.added[0] == st.proto, "the negotiated protocol is remembered for the peer")
	} else {
		vCover("known-protocol")
		vAssert(st.proto == vC04pids[ps.supMode-1], "the first protocol the peer is known to support is used")
	}
}
