//go:build verif

//verif:dir p2p/net/upgrader
//verif:hook p2p/net/upgrader upgrader.upgrade
//verif:obligation C04.h the upgrading listener (real handleIncoming loop with its per-connection goroutines, threshold back-pressure, Accept and Close) with an accept queue of length 1 and 3 incoming connections whose upgrade fails or succeeds, a consumer that accepts 0..3 connections at symbolic points and the accept timeout expiring for the others: every connection the inner listener produced is either handed to exactly one Accept call, open, or it has been closed (a failed upgrade has released its scope); a connection dropped by the accept timeout gives its queue slot back - the loop keeps accepting, all 3 connections are processed - and Close returns with every goroutine finished
//verif:bound accept queue length 1, 3 connections, cooperative schedule, lazy timers
//verif:stub upgrader.upgrade hooked (symbolic failure; C04.a checks the real one); inner listener, raw and upgraded connections, scopes are counting stubs
//verif:outside temporary accept errors, a nil scope from the inner listener (logged as a bug), queue lengths > 1
package upgrader

import (
	"context"
	"errors"
	"time"

	"github.com/libp2p/go-libp2p/core/network"
	"github.com/libp2p/go-libp2p/core/peer"
	"github.com/libp2p/go-libp2p/core/transport"
	ma "github.com/multiformats/go-multiaddr"
	manet "github.com/multiformats/go-multiaddr/net"
)

type vC04hRaw struct {
	manet.Conn
	idx    int
	closed int
}

func (c *vC04hRaw) Close() error                  { c.closed++; return nil }
func (c *vC04hRaw) RemoteMultiaddr() ma.Multiaddr { return nil }
func (c *vC04hRaw) LocalMultiaddr() ma.Multiaddr  { return nil }

type vC04hScope struct {
	network.ConnManagementScope
	done int
}

func (s *vC04hScope) Done() { s.done++ }

type vC04hUp struct {
	transport.CapableConn
	raw    *vC04hRaw
	closed int
}

func (c *vC04hUp) Close() error { c.closed++; return nil }
func (c *vC04hUp) CloseWithError(network.ConnErrorCode) error {
	c.closed++
	if vC04hCtx != nil && vC04hCtx.Err() == nil {
		vCover("dropped-by-the-accept-timeout")
	}
	return nil
}

var vC04hCtx context.Context

func (c *vC04hUp) IsClosed() bool      { return c.closed > 0 }
func (c *vC04hUp) RemotePeer() peer.ID { return "remote" }

type vC04hInner struct {
	transport.GatedMaListener
	raws   []*vC04hRaw
	scopes []*vC04hScope
	i      int
	end    chan struct{}
	arrive chan struct{} // the harness decides when the next connection arrives
	closed int
}

func (l *vC04hInner) Accept() (manet.Conn, network.ConnManagementScope, error) {
	select {
	case <-l.arrive:
		i := l.i
		l.i++
		return l.raws[i], l.scopes[i], nil
	case <-l.end:
		return nil, nil, errors.New("use of closed network connection")
	}
}
func (l *vC04hInner) Close() error {
	l.closed++
	if l.closed == 1 {
		close(l.end)
	}
	return nil
}
func (l *vC04hInner) Multiaddr() ma.Multiaddr { return nil }

func VerifC04hUpgradingListener() {
	vDeadlockIsViolation()
	inner := &vC04hInner{end: make(chan struct{}), arrive: make(chan struct{}, 3)}
	for i := 0; i < 3; i++ {
		inner.raws = append(inner.raws, &vC04hRaw{idx: i})
		inner.scopes = append(inner.scopes, &vC04hScope{})
	}
	upFail := vBoolSlice(3)
	ups := make([]*vC04hUp, 3)
	VerifHook_upgrader_upgrade = func(u *upgrader, ctx context.Context, t transport.Transport, c manet.Conn, dir network.Direction, p peer.ID, s network.ConnManagementScope) (transport.CapableConn, error) {
		raw := c.(*vC04hRaw)
		if upFail[raw.idx] {
			raw.Close() // C04.a: a failed upgrade has closed the raw connection
			return nil, errors.New("handshake failed")
		}
		ups[raw.idx] = &vC04hUp{raw: raw}
		return ups[raw.idx], nil
	}
	defer func() { VerifHook_upgrader_upgrade = nil }()
	ctx, cancel := context.WithCancel(context.Background())
	vC04hCtx = ctx
	timeout, wait := 15*time.Second, 16*time.Second
	if vNative() { // the native replay does not sit out 15 s: same protocol on a shorter clock
		timeout, wait = 250*time.Millisecond, 400*time.Millisecond
	}
	l := &listener{GatedMaListener: inner, upgrader: &upgrader{acceptTimeout: timeout}, incoming: make(chan transport.CapableConn),
		threshold: newThreshold(1), ctx: ctx, cancel: cancel}
	go l.handleIncoming()
	settle := func() {
		for i := 0; i < 40; i++ {
			vYield()
		}
	}
	settle()
	var accepted []transport.CapableConn
	for round := 0; round < 3; round++ {
		inner.arrive <- struct{}{} // the next connection arrives, is upgraded and queued (or waits for a queue slot)
		settle()
		if vBool() {
			got := false
			go func() {
				c, err := l.Accept()
				if err == nil {
					accepted = append(accepted, c)
				}
				got = true
			}()
			settle()
			_ = got
		} else {
			// nobody accepts for longer than the accept timeout
			<-time.After(wait)
			settle()
			vCover("accept-timeout-expired")
		}
	}
	<-time.After(wait)
	settle()
	vAssert(inner.i == 3, "a dropped connection gives its queue slot back: the loop keeps accepting")
	closed := false
	go func() { l.Close(); closed = true }()
	settle()
	vAssert(closed, "Close returns")
	for i, raw := range inner.raws {
		if i >= inner.i {
			continue
		}
		if upFail[i] {
			vCover("upgrade-failed")
			vAssert(raw.closed >= 1 && inner.scopes[i].done >= 1, "a connection whose upgrade failed is closed and its scope released")
			continue
		}
		n := 0
		for _, a := range accepted {
			if a == transport.CapableConn(ups[i]) {
				n++
			}
		}
		vAssert(n <= 1, "a connection is handed to at most one Accept call")
		if n == 1 && ups[i].closed == 0 {
			vCover("handed-out")
		} else {
			vCover("dropped")
			vAssert(ups[i] != nil && ups[i].closed >= 1, "a connection that is not handed out is closed")
		}
	}
}
