//go:build verif

//verif:dir core/connmgr
//verif:obligation C14.e the stock bump and decay functions decaying tags are built from (core/connmgr presets), for every current value, delta and bound within +-2^40: BumpSumBounded(min, max) yields exactly value+delta clamped to [min, max] - also for negative deltas (penalties) -, BumpSumUnbounded yields value+delta, BumpOverwrite yields delta; DecayFixed(m) yields value-m and asks for removal exactly when that is <= 0; DecayNone changes nothing
//verif:bound values, deltas, bounds and minuends in [-2^40, 2^40], min <= max
//verif:outside DecayLinear (floating point coefficient), DecayExpireWhenInactive (reads the wall clock)
package connmgr

func VerifC14ePresets() {
	const B = 1 << 40
	v, delta := vRange(-B, B), vRange(-B, B)
	lo, hi := vRange(-B, B), vRange(-B, B)
	vAssume(lo <= hi)
	val := DecayingValue{Value: v}
	got := BumpSumBounded(lo, hi)(val, delta)
	sum := v + delta
	want := sum
	if sum > hi {
		want = hi
	} else if sum < lo {
		want = lo
	}
	if delta < 0 {
		vCover("penalty")
	}
	vAssert(got == want, "a bounded bump is the sum clamped to [min, max], for rewards and penalties alike")
	vAssert(BumpSumUnbounded()(val, delta) == sum, "an unbounded bump is the sum")
	vAssert(BumpOverwrite()(val, delta) == delta, "an overwriting bump is the new value")
	m := vRange(-B, B)
	after, rm := DecayFixed(m)(val)
	vAssert(after == v-m && rm == (v-m <= 0), "a fixed decay subtracts its minuend and removes the tag exactly when nothing positive is left")
	after, rm = DecayNone()(val)
	vAssert(after == v && !rm, "no decay changes nothing")
}
