//go:build verif

//verif:dir p2p/protocol/circuitv2/relay
//verif:subst p2p/protocol/circuitv2/relay time.Now verifTimeNow
//verif:subst p2p/protocol/circuitv2/relay github.com/multiformats/go-multiaddr/net.ToIP verifToIP
//verif:hook p2p/protocol/circuitv2/relay Relay.handleError
//verif:hook p2p/protocol/circuitv2/relay Relay.writeResponse
//verif:hook p2p/protocol/circuitv2/relay makeReservationMsg
//verif:hook p2p/protocol/circuitv2/util PeerToPeerInfoV2
//verif:hook p2p/protocol/circuitv2/util NewDelimitedWriter
//verif:hook p2p/protocol/circuitv2/util DelimitedReader.ReadMsg
//verif:replace (net.IP).String vC11ipString
//verif:shard VerifC11aReserveHistory 11
//verif:shard VerifC11bConnectExits 8
//verif:obligation C11.a reservation caps on every history of 3 RESERVE requests (thorough: each response write may also fail) (real handleReserve + constraints.Reserve) from 3 peers over 2 IPv4 addresses with symbolic clock advances, relayed-source flag and ACL answers, caps MaxReservations / MaxReservationsPerIP in 1..2: after every request the number of unexpired reservations never exceeds the total cap nor the per-IP cap, a refused request creates no reservation, a request over a relayed connection or denied by the ACL is refused, a granted reservation is tagged, and a disconnect drops the peer's reservation
//verif:obligation C11.b every exit of handleConnect (span / memory refusal, relayed source, malformed peer, ACL denial, no reservation, circuit caps, stream open failure, service / memory refusal on the stop stream, stop handshake write / read / type / status failure, hop response write failure): the per-peer circuit counters, hop tags, the span and its memory are back to their previous values; a circuit is granted only if the destination holds a reservation, the source did not arrive over a relay, the ACL allows it and both peers are below MaxCircuits; after a granted circuit ends everything is restored too
//verif:obligation C11.c data limit: on a limited relay each direction forwards at most Limit.Data bytes (both directions are limited) and the copy loop accounts exactly the bytes the sink accepted; copyWithBuffer never reports more than was written, flags impossible write counts, and stops at the first error
//verif:obligation C11.c' the real relayLimited (the copy loop with the configured limit in front of it) for every limit 0..8 and every script of <= 2 reads / writes with symbolic sizes and errors: never more than the limit reaches the destination - nothing when the limit is 0 -, the direction ends exactly once, a copy error resets both streams
//verif:obligation C11.e Relay.gc from every state of 2 reservations (any expiry, 0..2 open circuits each, relay open or closed) at any instant: exactly the expired reservations are dropped (all when closed) together with their tag - also when the peer is part of an open circuit, since CONNECT only checks that a reservation is recorded - and circuit counts are kept
//verif:obligation C11.d Relay.disconnected for every connectedness the network may report after a connection closed (not connected, connected, cannot connect, limited = only relayed connections left): the peer's reservation and its entries in the cap accounting disappear unless the peer is still directly connected; other peers' reservations are untouched
//verif:bound 3 peers, 2 IPv4 addresses, caps 1..2, history 3; one CONNECT per run with all stage outcomes symbolic; copy kernel: <= 2 (thorough 3) reads of <= 4 bytes with symbolic (n, err) on both sides
//verif:stub host / connection manager / stream / scope / span / ACL are harness stub types; protobuf readers and writers, handleError / writeResponse / makeReservationMsg are hooked with symbolic outcomes; time.Now and manet.ToIP substituted at their call sites; net.IP.String injective stub in the symbolic run
//verif:outside ASN caps (IPv6 only), voucher signing, stream deadlines actually ending a circuit, expiry GC racing with disconnect notifications
package relay

import (
	"context"
	"errors"
	"io"
	"net"
	"time"

	"github.com/libp2p/go-libp2p/core/connmgr"
	"github.com/libp2p/go-libp2p/core/crypto"
	"github.com/libp2p/go-libp2p/core/host"
	"github.com/libp2p/go-libp2p/core/network"
	"github.com/libp2p/go-libp2p/core/peer"
	"github.com/libp2p/go-libp2p/core/peerstore"
	"github.com/libp2p/go-libp2p/core/protocol"
	pbv2 "github.com/libp2p/go-libp2p/p2p/protocol/circuitv2/pb"
	"github.com/libp2p/go-libp2p/p2p/protocol/circuitv2/util"
	"github.com/libp2p/go-msgio/pbio"
	ma "github.com/multiformats/go-multiaddr"
	"google.golang.org/protobuf/proto"
)

func vC11ipString(ip net.IP) string { return "ip:" + string(ip) }

var vC11now time.Time

type vC11cm struct {
	connmgr.ConnManager
	tags map[string]int
}

func (c *vC11cm) TagPeer(p peer.ID, tag string, v int) { c.tags[string(p)+"/"+tag]++ }
func (c *vC11cm) UntagPeer(p peer.ID, tag string)      { delete(c.tags, string(p)+"/"+tag) }

type vC11ps struct{ peerstore.Peerstore }

func (vC11ps) PrivKey(peer.ID) crypto.PrivKey { return nil }

type vC11conn struct {
	network.Conn
	p    peer.ID
	addr ma.Multiaddr
}

func (c *vC11conn) RemotePeer() peer.ID { return c.p }
func (c *vC11conn) RemoteMultiaddr() ma.Multiaddr {
	if vC11relayed { // the peer reached this relay through another relay
		// parsed by the real parser (ma.StringCast is an opaque atom in the symbolic run): the relay looks for the circuit component
		a, err := ma.NewMultiaddr("/ip4/9.9.9.9/tcp/4001/p2p/QmYyQSo1c1Ym7orWxLYvCrM2EmxFTANf8wXmmE7DWjhx5N/p2p-circuit")
		if err != nil {
			panic(err)
		}
		return a
	}
	return c.addr
}

// whether a connection is marked limited says nothing about how the peer arrived (a relay with unlimited
// circuits marks nothing): the flag is free
func (c *vC11conn) Stat() network.ConnStats {
	return network.ConnStats{Stats: network.Stats{Limited: vC11limited}}
}

var vC11limited bool

type vC11scope struct {
	network.StreamScope
	failService, failMemory bool
	reserved, released      int
}

func (s *vC11scope) SetService(string) error {
	if s.failService {
		return errors.New("service refused")
	}
	return nil
}
func (s *vC11scope) ReserveMemory(n int, p uint8) error {
	if s.failMemory {
		return errors.New("memory refused")
	}
	s.reserved += n
	return nil
}
func (s *vC11scope) ReleaseMemory(n int) { s.released += n }

type vC11stream struct {
	network.Stream
	conn     *vC11conn
	scope    *vC11scope
	closed   int
	resets   int
	data     int // bytes this stream will still deliver to a reader
	chunk    int
	received int // bytes written to this stream
	release  chan struct{}
	closedW  int
	closedR  int
}

func (s *vC11stream) Conn() network.Conn               { return s.conn }
func (s *vC11stream) Scope() network.StreamScope       { return s.scope }
func (s *vC11stream) Close() error                     { s.closed++; return nil }
func (s *vC11stream) Reset() error                     { s.resets++; return nil }
func (s *vC11stream) CloseWrite() error                { s.closedW++; return nil }
func (s *vC11stream) CloseRead() error                 { s.closedR++; return nil }
func (s *vC11stream) SetDeadline(time.Time) error      { return nil }
func (s *vC11stream) SetWriteDeadline(time.Time) error { return nil }
func (s *vC11stream) Read(b []byte) (int, error) {
	if s.release != nil {
		<-s.release
	}
	if s.data == 0 {
		return 0, io.EOF
	}
	n := len(b)
	if n > s.chunk {
		n = s.chunk
	}
	if n > s.data {
		n = s.data
	}
	s.data -= n
	return n, nil
}
func (s *vC11stream) Write(b []byte) (int, error) { s.received += len(b); return len(b), nil }

type vC11host struct {
	host.Host
	cm         *vC11cm
	stop       *vC11stream
	failStream bool
	noDial     bool
	opened     int
}

func (h *vC11host) ConnManager() connmgr.ConnManager { return h.cm }
func (h *vC11host) Peerstore() peerstore.Peerstore   { return vC11ps{} }
func (h *vC11host) ID() peer.ID                      { return "relay" }
func (h *vC11host) Addrs() []ma.Multiaddr            { return nil }
func (h *vC11host) NewStream(ctx context.Context, p peer.ID, pids ...protocol.ID) (network.Stream, error) {
	h.noDial, _ = network.GetNoDial(ctx)
	if h.failStream {
		return nil, errors.New("no stream")
	}
	h.opened++
	return h.stop, nil
}

type vC11acl struct {
	reserve, connect   bool
	askedSrc, askedDst peer.ID // what AllowConnect was asked about (the ACL may be directional)
	askedAddr          ma.Multiaddr
	asked              int
}

func (a *vC11acl) AllowReserve(peer.ID, ma.Multiaddr) bool { return a.reserve }
func (a *vC11acl) AllowConnect(src peer.ID, addr ma.Multiaddr, dst peer.ID) bool {
	a.asked++
	a.askedSrc, a.askedAddr, a.askedDst = src, addr, dst
	return a.connect
}

type vC11span struct {
	network.ResourceScopeSpan
	failMem  bool
	reserved int
	done     int
}

func (s *vC11span) ReserveMemory(n int, p uint8) error {
	if s.failMem {
		return errors.New("no memory")
	}
	s.reserved += n
	return nil
}
func (s *vC11span) Done() { s.done++ }

type vC11rscope struct {
	network.ResourceScopeSpan
	failSpan bool
	spans    []*vC11span
	failMem  bool
}

func (s *vC11rscope) BeginSpan() (network.ResourceScopeSpan, error) {
	if s.failSpan {
		return nil, errors.New("no span")
	}
	sp := &vC11span{failMem: s.failMem}
	s.spans = append(s.spans, sp)
	return sp, nil
}

var vC11peers = []peer.ID{"peerA", "peerB", "peerC"}
var vC11ips = []net.IP{{1, 1, 1, 1}, {2, 2, 2, 2}}
var vC11addrs = []ma.Multiaddr{ma.StringCast("/ip4/1.1.1.1/tcp/1"), ma.StringCast("/ip4/2.2.2.2/tcp/1")}

var vC11relayed bool
var vC11errors []pbv2.Status
var vC11respFail bool

func vC11install() {
	verifTimeNow = func() time.Time { return vC11now }
	verifToIP = func(a ma.Multiaddr) (net.IP, error) {
		for i := range vC11addrs {
			if vC11addrs[i].Equal(a) {
				return vC11ips[i], nil
			}
		}
		return nil, errors.New("no ip")
	}
	vC11errors = nil
	VerifHook_Relay_handleError = func(r *Relay, s network.Stream, st pbv2.Status) { vC11errors = append(vC11errors, st) }
	VerifHook_Relay_writeResponse = func(r *Relay, s network.Stream, st pbv2.Status, rsvp *pbv2.Reservation, l *pbv2.Limit) error {
		if vC11respFail {
			return errors.New("write failed")
		}
		return nil
	}
	VerifHook_makeReservationMsg = func(f ReservationAddressFilterFunc, k crypto.PrivKey, self peer.ID, addrs []ma.Multiaddr, p peer.ID, exp time.Time) *pbv2.Reservation {
		return nil
	}
}

func vC11remove() {
	VerifHook_Relay_handleError, VerifHook_Relay_writeResponse, VerifHook_makeReservationMsg = nil, nil, nil
	util.VerifHook_PeerToPeerInfoV2, util.VerifHook_NewDelimitedWriter, util.VerifHook_DelimitedReader_ReadMsg = nil, nil, nil
}

func vC11relay(h *vC11host, rc Resources) *Relay {
	r := &Relay{ctx: context.Background(), host: h, rc: rc, rsvp: map[peer.ID]time.Time{}, conns: map[peer.ID]int{}}
	r.constraints = newConstraints(&r.rc)
	return r
}

// ---- C11.a ----

type vC11net struct {
	network.Network
}

func (vC11net) Connectedness(peer.ID) network.Connectedness { return network.NotConnected }

// ops: 0..5 reserve(peer, addr)   6..8 disconnect(peer)   9 reserve over a relayed connection   10 reserve denied by the ACL
const vC11nOps = 11

func VerifC11aReserveHistory() {
	first := vCase(vC11nOps)
	defer vC11remove()
	vC11install()
	K := 3 // the thorough tier keeps the history at 3 and adds a failing response write per request (history 4 on top of that ran past 90 minutes per shard)
	h := &vC11host{cm: &vC11cm{tags: map[string]int{}}}
	rc := Resources{ReservationTTL: time.Hour, MaxReservations: 1 + vCase(2), MaxReservationsPerIP: 1 + vCase(2), MaxReservationsPerASN: 100}
	r := vC11relay(h, rc)
	acl := &vC11acl{reserve: true}
	r.acl = acl
	now := int64(1 << 40)
	// ghost: what the statement counts - peer -> (ip, expiry) of its live reservation
	var live [3]bool
	var liveIP [3]int
	for i := 0; i < K; i++ {
		now += int64(vRange(0, int(2*time.Hour)))
		vC11now = time.Unix(0, now)
		op := first
		if i > 0 {
			op = vCase(vC11nOps)
		}
		if op >= 6 && op <= 8 {
			p := op - 6
			r.disconnected(vC11net{}, &vC11conn{p: vC11peers[p]})
			live[p] = false
			_, still := r.rsvp[vC11peers[p]]
			vAssert(!still, "a disconnect drops the peer's reservation")
			continue
		}
		p, a := 0, 0
		vC11relayed, acl.reserve, vC11respFail = op == 9, op != 10, false
		vC11limited = op == 9 && vBool()
		if op < 6 {
			p, a = op%3, op/3
		}
		if vTier() > 0 {
			vC11respFail = vBool()
		}
		had := false
		if exp, ok := r.rsvp[vC11peers[p]]; ok && !exp.Before(vC11now) {
			had = true
		}
		tagged := h.cm.tags[string(vC11peers[p])+"/relay-reservation"]
		st := r.handleReserve(&vC11stream{conn: &vC11conn{p: vC11peers[p], addr: vC11addrs[a]}})
		exp, ok := r.rsvp[vC11peers[p]]
		granted := h.cm.tags[string(vC11peers[p])+"/relay-reservation"] > tagged // the relay tags the peer exactly when it grants
		if granted {
			vCover("granted")
			vAssert(op < 6, "no reservation over a relayed connection or against the ACL")
			vAssert(st == pbv2.Status_OK || st == pbv2.Status_CONNECTION_FAILED, "status of a granted reservation")
			live[p], liveIP[p] = true, a
			vAssert(ok && exp.Equal(vC11now.Add(time.Hour)), "a granted reservation lasts ReservationTTL from now")
		} else {
			vCover("refused")
			vAssert(st != pbv2.Status_OK, "a refused request is not answered OK")
			if had {
				vCover("refresh-refused")
			} else {
				vAssert(!ok || exp.Before(vC11now), "a refused request creates no reservation")
			}
		}
		// what the relay itself considers live reservations (it honours them in handleConnect)
		total := 0
		perIP := [2]int{}
		for q := range vC11peers {
			exp, ok := r.rsvp[vC11peers[q]]
			if ok && !exp.Before(vC11now) {
				total++
				perIP[liveIP[q]]++
				counted := false
				for _, pe := range r.constraints.total {
					if pe.Peer == vC11peers[q] {
						counted = true
					}
				}
				vAssert(counted, "every live reservation is counted against the caps")
			}
		}
		vAssert(total <= rc.MaxReservations, "the number of live reservations never exceeds MaxReservations")
		vAssert(perIP[0] <= rc.MaxReservationsPerIP && perIP[1] <= rc.MaxReservationsPerIP, "the number of live reservations per IP never exceeds MaxReservationsPerIP")
	}
}

// ---- C11.b ----

type vC11writer struct {
	fail bool
	n    *int
}

func (w *vC11writer) WriteMsg(proto.Message) error {
	*w.n++
	if w.fail {
		return errors.New("write failed")
	}
	return nil
}
func (w *vC11writer) Close() error { return nil }

func VerifC11bConnectExits() {
	stage := vCase(8) // split over shards: where the first fault (if any) is injected
	defer vC11remove()
	vC11install()
	src, dst := vC11peers[0], vC11peers[1]
	stopScope := &vC11scope{failService: stage == 4 && vBool(), failMemory: stage == 4 && vBool()}
	release := make(chan struct{})
	stop := &vC11stream{conn: &vC11conn{p: dst}, scope: stopScope, release: release}
	h := &vC11host{cm: &vC11cm{tags: map[string]int{}}, stop: stop, failStream: stage == 3 && vBool()}
	rc := Resources{MaxCircuits: 1 + vCase(2), BufferSize: 4}
	limited := vBool()
	if limited {
		rc.Limit = &RelayLimit{Duration: time.Minute, Data: 6}
	}
	r := vC11relay(h, rc)
	rs := &vC11rscope{failSpan: stage == 0 && vBool(), failMem: stage == 0 && vBool()}
	r.scope = rs
	acl := &vC11acl{connect: !(stage == 1 && vBool())}
	if vBool() {
		r.acl = acl
	}
	vC11relayed = stage == 1 && vBool()
	vC11limited = vC11relayed && vBool()
	malformed := stage == 1 && vBool()
	util.VerifHook_PeerToPeerInfoV2 = func(p *pbv2.Peer) (peer.AddrInfo, error) {
		if malformed {
			return peer.AddrInfo{}, errors.New("malformed")
		}
		return peer.AddrInfo{ID: dst}, nil
	}
	hasRsvp := !(stage == 2 && vBool())
	if hasRsvp {
		r.rsvp[dst] = time.Unix(1<<40, 0)
	}
	// circuits already open for the two peers
	c0, c1 := 0, 0
	if stage == 2 {
		c0, c1 = vCase(3), vCase(3)
	}
	for i := 0; i < c0; i++ {
		r.addConn(src)
	}
	for i := 0; i < c1; i++ {
		r.addConn(dst)
	}
	tags0 := len(h.cm.tags)
	writes := 0
	failWrite := 0
	if stage == 5 {
		failWrite = 1 + vCase(2) // the stop request or the hop response
	}
	util.VerifHook_NewDelimitedWriter = func(w io.Writer) pbio.WriteCloser {
		return &vC11writer{fail: false, n: &writes}
	}
	wcount := 0
	util.VerifHook_NewDelimitedWriter = func(w io.Writer) pbio.WriteCloser {
		wcount++
		return &vC11writer{fail: wcount == failWrite, n: &writes}
	}
	readFail := stage == 6 && vBool()
	badType := stage == 6 && vBool()
	badStatus := stage == 6 && vBool()
	util.VerifHook_DelimitedReader_ReadMsg = func(d *util.DelimitedReader, m proto.Message) error {
		if readFail {
			return errors.New("read failed")
		}
		sm := m.(*pbv2.StopMessage)
		sm.Type = pbv2.StopMessage_STATUS.Enum()
		if badType {
			sm.Type = pbv2.StopMessage_CONNECT.Enum()
		}
		sm.Status = pbv2.Status_OK.Enum()
		if badStatus {
			sm.Status = pbv2.Status_PERMISSION_DENIED.Enum()
		}
		return nil
	}
	hop := &vC11stream{conn: &vC11conn{p: src, addr: vC11addrs[0]}, release: release}
	hop.data, hop.chunk = 10, 4
	stop.data, stop.chunk = 10, 3
	status := r.handleConnect(hop, &pbv2.HopMessage{})
	restored := func() bool {
		ok := r.conns[src] == c0 && r.conns[dst] == c1 && len(h.cm.tags) == tags0
		for _, sp := range rs.spans {
			ok = ok && sp.done == 1
		}
		return ok
	}
	if status != pbv2.Status_OK {
		vCover("refused-or-failed")
		close(release)
		vAssert(restored(), "every failed CONNECT restores circuit counters, hop tags and releases its span")
		vAssert(stopScope.reserved == stopScope.released, "memory reserved on the stop stream is released")
		if h.opened > 0 {
			vAssert(stop.resets >= 1, "a stop stream that was opened is reset on failure")
		}
		return
	}
	vCover("circuit-granted")
	vAssert(hasRsvp, "a circuit needs a reservation of the destination")
	vAssert(!vC11relayed, "no circuit for a source that arrived over a relay")
	vAssert(r.acl == nil || acl.connect, "no circuit the ACL denies")
	if r.acl != nil {
		vAssert(acl.asked == 1 && acl.askedSrc == src && acl.askedDst == dst, "the ACL is asked about exactly this circuit: the requesting source towards the requested destination")
	}
	vAssert(c0 < rc.MaxCircuits && c1 < rc.MaxCircuits, "no circuit beyond MaxCircuits for either peer")
	vAssert(h.noDial, "the relay does not dial the destination")
	vAssert(r.conns[src] == c0+1 && r.conns[dst] == c1+1, "an open circuit is counted for both peers")
	// let both directions run to completion
	close(release)
	for i := 0; i < 200 && !restored(); i++ {
		vYield()
	}
	vAssert(restored(), "when the circuit ends counters, tags and the span are restored")
	if limited {
		vCover("limited")
		vAssert(stop.received <= 6, "at most Limit.Data bytes are forwarded from source to destination")
		vAssert(hop.received <= 6, "at most Limit.Data bytes are forwarded from destination to source")
	} else {
		vAssert(stop.received == 10 && hop.received == 10, "an unlimited relay forwards everything")
	}
}

// ---- C11.c copy kernel ----

type vC11src struct {
	ns    []int
	errs  []int // 0 none, 1 EOF, 2 other
	i     int
	asked []int
}

func (s *vC11src) Read(b []byte) (int, error) {
	if s.i >= len(s.ns) {
		return 0, io.EOF
	}
	n, e := s.ns[s.i], s.errs[s.i]
	s.i++
	s.asked = append(s.asked, len(b))
	vAssume(n <= len(b))
	switch e {
	case 1:
		return n, io.EOF
	case 2:
		return n, errors.New("read error")
	}
	return n, nil
}

type vC11dst struct {
	ns    []int
	fail  []bool
	i     int
	total int
}

func (d *vC11dst) Write(b []byte) (int, error) {
	n, f := d.ns[d.i%len(d.ns)], d.fail[d.i%len(d.fail)]
	d.i++
	if n >= 0 && n <= len(b) {
		d.total += n
	}
	if f {
		return n, errors.New("write error")
	}
	return n, nil
}

func VerifC11cCopy() {
	r := &Relay{}
	k := 1 + vCase(2+vTier())
	src := &vC11src{}
	dst := &vC11dst{}
	for i := 0; i < k; i++ {
		src.ns = append(src.ns, vRange(0, 4))
		src.errs = append(src.errs, vCase(3))
		dst.ns = append(dst.ns, vRange(-1, 5))
		dst.fail = append(dst.fail, vBool())
	}
	limit := int64(vRange(0, 8))
	written, err := r.copyWithBuffer(dst, io.LimitReader(src, limit), make([]byte, 4))
	vAssert(written <= limit, "never more than the limit is forwarded")
	vAssert(written == int64(dst.total), "the count equals the bytes the sink accepted")
	rem := limit
	for i, a := range src.asked {
		vAssert(int64(a) <= rem, "the source is never asked for more than the remaining allowance")
		rem -= int64(src.ns[i])
	}
	if err == nil {
		vCover("clean-end")
	} else {
		vCover("copy-error")
	}
}

// the real relayLimited around the copy kernel: the limit is the configured one, for every value including 0
type vC11limStream struct {
	network.Stream
	src                             *vC11src
	dst                             *vC11dst
	resets, closeWrites, closeReads int
}

func (s *vC11limStream) Read(b []byte) (int, error)  { return s.src.Read(b) }
func (s *vC11limStream) Write(b []byte) (int, error) { return s.dst.Write(b) }
func (s *vC11limStream) Reset() error                { s.resets++; return nil }
func (s *vC11limStream) CloseWrite() error           { s.closeWrites++; return nil }
func (s *vC11limStream) CloseRead() error            { s.closeReads++; return nil }

func VerifC11cRelayLimited() {
	r := &Relay{rc: Resources{BufferSize: 4}}
	k := 1 + vCase(2)
	src := &vC11src{}
	dst := &vC11dst{}
	for i := 0; i < k; i++ {
		src.ns = append(src.ns, vRange(0, 4))
		src.errs = append(src.errs, vCase(3))
		dst.ns = append(dst.ns, vRange(0, 4))
		dst.fail = append(dst.fail, vBool())
	}
	limit := int64(vRange(0, 8))
	from, to := &vC11limStream{src: src}, &vC11limStream{dst: dst}
	dones := 0
	r.relayLimited(from, to, "src", "dst", limit, func() { dones++ })
	vAssert(int64(dst.total) <= limit, "in one direction never more than the configured number of bytes is forwarded - none at all when the configured number is 0")
	if limit == 0 {
		vCover("data-limit-zero")
	}
	vAssert(dones == 1, "the direction reports its end exactly once")
	vAssert(from.resets+to.resets == 0 || (from.resets == 1 && to.resets == 1), "a copy error resets both streams")
}

// ---- C11.e: garbage collection of reservations ----

func VerifC11eGC() {
	defer vC11remove()
	vC11install()
	h := &vC11host{cm: &vC11cm{tags: map[string]int{}}}
	r := vC11relay(h, Resources{ReservationTTL: time.Hour, MaxReservations: 4, MaxReservationsPerIP: 4, MaxReservationsPerASN: 100})
	now := int64(vRange(1<<40, 1<<50))
	vC11now = time.Unix(0, now)
	var exp [2]int64
	var circuits [2]int
	for i := 0; i < 2; i++ {
		exp[i] = int64(vRange(1<<40, 1<<50))
		r.rsvp[vC11peers[i]] = time.Unix(0, exp[i])
		h.cm.tags[string(vC11peers[i])+"/relay-reservation"] = 1
		circuits[i] = vCase(3) // circuits the peer is part of right now
		if circuits[i] > 0 {
			r.conns[vC11peers[i]] = circuits[i]
		}
	}
	r.closed = vBool()
	r.gc()
	for i := 0; i < 2; i++ {
		_, still := r.rsvp[vC11peers[i]]
		expired := exp[i] < now
		if expired && circuits[i] > 0 {
			vCover("expired-while-a-circuit-is-open")
		}
		vAssert(still == (!expired && !r.closed), "a collection drops exactly the reservations that have expired (all of them once the relay is closed) - also of a peer that is part of an open circuit: no circuit may be opened to a peer whose reservation has lapsed")
		vAssert((h.cm.tags[string(vC11peers[i])+"/relay-reservation"] > 0) == still, "the reservation tag goes with the reservation")
		vAssert(r.conns[vC11peers[i]] == circuits[i], "open circuits are not forgotten by a collection")
	}
}

// ---- C11.d ----

type vC11netK struct {
	network.Network
	state network.Connectedness
}

func (n vC11netK) Connectedness(peer.ID) network.Connectedness { return n.state }

func VerifC11dDisconnected() {
	defer vC11remove()
	vC11install()
	h := &vC11host{cm: &vC11cm{tags: map[string]int{}}}
	rc := Resources{ReservationTTL: time.Hour, MaxReservations: 2, MaxReservationsPerIP: 2, MaxReservationsPerASN: 100}
	r := vC11relay(h, rc)
	r.acl = &vC11acl{reserve: true}
	vC11now = time.Unix(0, 1<<40)
	vC11relayed, vC11respFail = false, false
	st := r.handleReserve(&vC11stream{conn: &vC11conn{p: vC11peers[0], addr: vC11addrs[0]}})
	vAssume(st == pbv2.Status_OK)
	st = r.handleReserve(&vC11stream{conn: &vC11conn{p: vC11peers[1], addr: vC11addrs[0]}})
	vAssume(st == pbv2.Status_OK)
	states := []network.Connectedness{network.NotConnected, network.Connected, network.CannotConnect, network.Limited}
	state := states[vCase(4)]
	r.disconnected(vC11netK{state: state}, &vC11conn{p: vC11peers[0]})
	_, still := r.rsvp[vC11peers[0]]
	counted := false
	for _, pe := range r.constraints.total {
		if pe.Peer == vC11peers[0] {
			counted = true
		}
	}
	if state == network.Connected {
		vCover("another-direct-connection-remains")
		vAssert(still && counted, "the reservation stays while the peer is still directly connected")
	} else {
		vCover("no-direct-connection-remains")
		vAssert(!still, "the reservation disappears when the peer has no direct connection left (a relayed connection does not keep it)")
		vAssert(!counted, "a dropped reservation no longer counts against the caps")
	}
	_, other := r.rsvp[vC11peers[1]]
	vAssert(other, "another peer's reservation is untouched")
}
