//go:build verif

//verif:dir p2p/net/swarm
//verif:hook p2p/net/swarm Swarm.removeConn
//verif:hook p2p/net/swarm connectionEventsEmitter.RemoveConn
//verif:obligation C04.f swarm stream accounting, outbound: every exit of Conn.NewStream (limited connection not allowed, resource manager refuses, the muxer fails to open - also with a deadline error -, the connection is closed before the call or between the muxer's OpenStream and the registration of the stream) releases the stream scope it opened exactly once, resets the muxed stream it opened and leaves no stream registered; a stream that was handed out releases its scope exactly once whatever sequence of Close / Reset / ResetWithError / connection close follows, is removed from the connection, and the swarm's reference count returns to its previous value (Swarm.Close would not wait forever)
//verif:obligation C04.g swarm stream accounting, inbound: the connection's accept loop over 2 incoming muxed streams (resource manager refusing either, the handler closing, resetting or leaving the stream open, the connection closed before a stream is registered) followed by the end of the connection: a refused stream is reset with the resource-limit code and opens no scope; every scope that was opened is released exactly once by the time the connection has closed; every accepted muxed stream has been closed or reset; no stream stays registered and the swarm's references are balanced
//verif:bound one connection, one outbound stream or two inbound streams per run; cooperative schedule
//verif:stub muxed connection / stream, resource manager, stream scope are counting stubs; Swarm.removeConn and the events emitter's RemoveConn hooked to no-ops (C06 checks them)
//verif:outside preemptive interleavings inside addStream / doClose critical sections, bandwidth counters, the handler's own I/O
package swarm

import (
	"context"
	"errors"

	"github.com/libp2p/go-libp2p/core/network"
	"github.com/libp2p/go-libp2p/core/peer"
	"github.com/libp2p/go-libp2p/core/transport"
)

type vC04sStream struct {
	network.MuxedStream
	closes, resets int
	lastCode       network.StreamErrorCode
}

func (s *vC04sStream) Close() error { s.closes++; return nil }
func (s *vC04sStream) Reset() error { s.resets++; return nil }
func (s *vC04sStream) ResetWithError(c network.StreamErrorCode) error {
	s.resets++
	s.lastCode = c
	return nil
}

type vC04sScope struct {
	network.StreamManagementScope
	done int
}

func (s *vC04sScope) Done() { s.done++ }

type vC04sRcmgr struct {
	network.ResourceManager
	refuse []bool
	calls  int
	scopes []*vC04sScope
	dirs   []network.Direction
}

func (r *vC04sRcmgr) OpenStream(p peer.ID, dir network.Direction) (network.StreamManagementScope, error) {
	i := r.calls
	r.calls++
	if r.refuse[i%len(r.refuse)] {
		return nil, errors.New("stream refused by the resource manager")
	}
	sc := &vC04sScope{}
	r.scopes = append(r.scopes, sc)
	r.dirs = append(r.dirs, dir)
	return sc, nil
}

type vC04sConn struct {
	transport.CapableConn
	limited   bool
	openErr   error
	onOpen    func()
	opened    []*vC04sStream
	incoming  []*vC04sStream
	accepted  int
	onAccept  func(i int)
	closes    int
	acceptEnd chan struct{}
}

func (c *vC04sConn) RemotePeer() peer.ID { return "peerA" }
func (c *vC04sConn) Stat() network.ConnStats {
	return network.ConnStats{Stats: network.Stats{Limited: c.limited}}
}
func (c *vC04sConn) Close() error                               { c.closes++; return nil }
func (c *vC04sConn) CloseWithError(network.ConnErrorCode) error { c.closes++; return nil }
func (c *vC04sConn) OpenStream(ctx context.Context) (network.MuxedStream, error) {
	if c.openErr != nil {
		return nil, c.openErr
	}
	s := &vC04sStream{}
	c.opened = append(c.opened, s)
	if c.onOpen != nil {
		c.onOpen()
	}
	return s, nil
}
func (c *vC04sConn) AcceptStream() (network.MuxedStream, error) {
	if c.accepted < len(c.incoming) {
		i := c.accepted
		c.accepted++
		if c.onAccept != nil {
			c.onAccept(i)
		}
		return c.incoming[i], nil
	}
	<-c.acceptEnd // the connection stays up until the harness ends it
	return nil, errors.New("connection closed")
}

func vC04sSetup(rm *vC04sRcmgr, tc *vC04sConn) (*Swarm, *Conn) {
	VerifHook_Swarm_removeConn = func(s *Swarm, c *Conn) {}
	VerifHook_connectionEventsEmitter_RemoveConn = func(e *connectionEventsEmitter, c *Conn) {}
	s := &Swarm{local: "self", rcmgr: rm}
	s.conns.m = map[peer.ID][]*Conn{}
	c := &Conn{conn: tc, swarm: s, stat: network.ConnStats{Stats: network.Stats{Limited: tc.limited}}}
	c.streams.m = map[*Stream]struct{}{}
	return s, c
}

func vC04sTeardown() {
	VerifHook_Swarm_removeConn, VerifHook_connectionEventsEmitter_RemoveConn = nil, nil
}

func VerifC04fConnNewStream() {
	vDeadlockIsViolation()
	defer vC04sTeardown()
	rm := &vC04sRcmgr{refuse: []bool{vBool()}}
	tc := &vC04sConn{limited: vBool()}
	switch vCase(3) {
	case 1:
		tc.openErr = errors.New("muxer: cannot open a stream")
	case 2:
		tc.openErr = context.DeadlineExceeded
	}
	s, c := vC04sSetup(rm, tc)
	s.refs.Add(1) // the connection's own reference (released when it closes)
	switch vCase(3) {
	case 1:
		c.streams.m = nil // the connection was closed before
		vCover("conn-closed-before")
	case 2:
		tc.onOpen = func() { c.streams.m = nil } // ... or between OpenStream and the registration
		vCover("conn-closed-in-between")
	}
	ctx := context.Background()
	allowLimited := vBool()
	if allowLimited {
		ctx = network.WithAllowLimitedConn(ctx, "verif")
	}
	str, err := c.NewStream(ctx)
	if err != nil {
		vCover("newstream-failed")
		vAssert(str == nil, "no stream on error")
		for _, sc := range rm.scopes {
			vAssert(sc.done == 1, "on error the stream scope that was opened is released exactly once")
		}
		for _, ms := range tc.opened {
			vCover("failed-after-the-muxed-stream-was-opened")
			vAssert(ms.resets+ms.closes >= 1, "on error the muxed stream that was opened is reset")
		}
		vAssert(len(c.streams.m) == 0 && c.stat.NumStreams == 0, "on error no stream stays registered")
		if tc.limited && !allowLimited {
			vAssert(rm.calls == 0 && len(tc.opened) == 0, "a limited connection is not used without permission")
		}
		s.refs.Done()
		s.refs.Wait()
		return
	}
	vCover("newstream-ok")
	st := str.(*Stream)
	sc, ms := rm.scopes[0], tc.opened[0]
	vAssert(len(rm.scopes) == 1 && rm.dirs[0] == network.DirOutbound && st.scope == network.StreamManagementScope(sc) && sc.done == 0, "the stream holds the outbound scope that was opened for it")
	vAssert(len(c.streams.m) == 1 && c.stat.NumStreams == 1, "the stream is registered on its connection")
	connClosed := false
	for i := 0; i < 2; i++ {
		switch vCase(4) {
		case 0:
			st.Close()
		case 1:
			st.Reset()
		case 2:
			st.ResetWithError(7)
		case 3:
			c.Close()
			connClosed = true
			vCover("conn-closed-with-open-stream")
		}
		vAssert(sc.done == 1, "a finished stream has released its scope exactly once")
		vAssert(ms.closes+ms.resets >= 1, "a finished stream's muxed stream is closed or reset")
		vAssert(len(c.streams.m) == 0 && c.stat.NumStreams == 0, "a finished stream is removed from its connection")
	}
	if !connClosed {
		c.Close()
	}
	for i := 0; i < 10; i++ {
		vYield()
	}
	vAssert(sc.done == 1, "closing the connection afterwards releases nothing twice")
	s.refs.Wait() // every reference taken for the stream and the connection has been returned
}

func VerifC04gAcceptLoop() {
	vDeadlockIsViolation()
	defer vC04sTeardown()
	rm := &vC04sRcmgr{refuse: vBoolSlice(2)}
	tc := &vC04sConn{incoming: []*vC04sStream{{}, {}}, acceptEnd: make(chan struct{})}
	s, c := vC04sSetup(rm, tc)
	closeBefore := vCase(3) // 0: never, 1/2: the connection loses its stream table before stream 0/1 is registered
	tc.onAccept = func(i int) {
		if closeBefore == i+1 {
			c.streams.Lock()
			c.streams.m = nil
			c.streams.Unlock()
			vCover("conn-closing-while-accepting")
		}
	}
	behaviours := []int{vCase(4), vCase(4)}
	var handled []*Stream
	h := network.StreamHandler(func(st network.Stream) {
		i := len(handled)
		handled = append(handled, st.(*Stream))
		switch behaviours[i%2] {
		case 0:
			st.Close()
		case 1:
			st.Reset()
		case 2: // left open: the connection's end cleans up
		case 3:
			st.Close()
			st.Reset()
		}
	})
	s.streamh.Store(&h)
	s.refs.Add(1) // addConn takes the accept loop's reference
	s.refs.Add(1) // ... and the one released by the close notification goroutine
	c.start()
	for i := 0; i < 30; i++ {
		vYield()
	}
	for i, ms := range tc.incoming {
		if rm.refuse[i] {
			vCover("inbound-refused")
			vAssert(ms.resets == 1 && ms.lastCode == network.StreamResourceLimitExceeded, "a refused inbound stream is reset with the resource-limit code")
		}
	}
	close(tc.acceptEnd) // the remote goes away: the loop ends and closes the connection
	for i := 0; i < 30; i++ {
		vYield()
	}
	vAssert(tc.closes >= 1, "the connection is closed when its accept loop ends")
	opened := 0
	for i := range tc.incoming {
		if !rm.refuse[i] {
			opened++
		}
	}
	vAssert(len(rm.scopes) == opened, "a scope is opened per admitted inbound stream, none for a refused one")
	for i, sc := range rm.scopes {
		vAssert(rm.dirs[i] == network.DirInbound, "inbound streams are charged as inbound")
		vAssert(sc.done == 1, "every inbound stream scope is released exactly once by the time the connection has closed")
	}
	for _, ms := range tc.incoming {
		vAssert(ms.closes+ms.resets >= 1, "every accepted muxed stream has been closed or reset")
	}
	vAssert(len(c.streams.m) == 0 && c.stat.NumStreams == 0, "no stream stays registered")
	s.refs.Wait()
}
