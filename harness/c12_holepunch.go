//go:build verif

//verif:dir p2p/protocol/holepunch
//verif:obligation C12.e hole punching's notion of success (getDirectConnection and holePunchConnect): over every set of <= 2 connections to the peer, each direct or relayed (really parsed multiaddrs) and - independently - marked limited or not (a relay without limits yields relayed connections that are not limited), a direct connection is reported only if one whose remote address is not a circuit address exists, and it is that connection; holePunchConnect asks the host for a connection with both the simultaneous-connect role and the demand for a direct connection set
//verif:bound 2 connections
//verif:stub host / network / connection stubs
//verif:outside the DCUtR message exchange and its timing, retries
package holepunch

import (
	"context"
	"errors"

	"github.com/libp2p/go-libp2p/core/host"
	"github.com/libp2p/go-libp2p/core/network"
	"github.com/libp2p/go-libp2p/core/peer"
	ma "github.com/multiformats/go-multiaddr"
)

type vC12eConn struct {
	network.Conn
	addr    ma.Multiaddr
	limited bool
}

func (c *vC12eConn) RemoteMultiaddr() ma.Multiaddr { return c.addr }
func (c *vC12eConn) Stat() network.ConnStats {
	return network.ConnStats{Stats: network.Stats{Limited: c.limited}}
}

type vC12eNet struct {
	network.Network
	conns []network.Conn
}

func (n *vC12eNet) ConnsToPeer(peer.ID) []network.Conn { return n.conns }

type vC12eHost struct {
	host.Host
	nw      *vC12eNet
	ctxs    []context.Context
	connErr bool
}

func (h *vC12eHost) Network() network.Network { return h.nw }
func (h *vC12eHost) ID() peer.ID              { return "self" }
func (h *vC12eHost) Connect(ctx context.Context, pi peer.AddrInfo) error {
	h.ctxs = append(h.ctxs, ctx)
	if h.connErr {
		return errors.New("all dials failed")
	}
	return nil
}

func vC12eParse(s string) ma.Multiaddr {
	m, err := ma.NewMultiaddr(s)
	if err != nil {
		panic(err)
	}
	return m
}

func VerifC12eHolePunchSuccess() {
	direct := vC12eParse("/ip4/1.2.3.4/udp/4001/quic-v1")
	relayed := vC12eParse("/ip4/5.6.7.8/tcp/4001/p2p/QmYyQSo1c1Ym7orWxLYvCrM2EmxFTANf8wXmmE7DWjhx5N/p2p-circuit")
	n := vCase(3)
	nw := &vC12eNet{}
	anyDirect := false
	var isDirect []bool
	for i := 0; i < n; i++ {
		d := vBool()
		c := &vC12eConn{addr: relayed, limited: vBool()}
		if d {
			c.addr = direct
			anyDirect = true
		}
		isDirect = append(isDirect, d)
		nw.conns = append(nw.conns, c)
	}
	h := &vC12eHost{nw: nw}
	got := getDirectConnection(h, "peerA")
	if got == nil {
		vAssert(!anyDirect, "an existing direct connection is found")
	} else {
		vCover("direct-connection-reported")
		ok := false
		for i, c := range nw.conns {
			if c == got {
				ok = isDirect[i]
			}
		}
		vAssert(ok, "only a connection that does not run through a relay counts as direct, whatever its limited flag says")
	}
	h.connErr = vBool()
	isClient := vBool()
	err := holePunchConnect(context.Background(), h, peer.AddrInfo{ID: "peerA"}, isClient)
	vAssert(len(h.ctxs) == 1 && (err != nil) == h.connErr, "one connection attempt, its outcome reported")
	sc, cl, _ := network.GetSimultaneousConnect(h.ctxs[0])
	fd, _ := network.GetForceDirectDial(h.ctxs[0])
	vAssert(sc && cl == isClient && fd, "a hole punch dials with its simultaneous-connect role and demands a direct connection")
}
