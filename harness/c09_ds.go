//go:build verif

//verif:dir p2p/host/peerstore/pstoreds
//verif:also C08 -
//verif:also C13 -
//verif:replace github.com/libp2p/go-libp2p/core/peer.SplitAddr vC09splitAddr
//verif:replace github.com/multiformats/go-multiaddr.NewMultiaddrBytes vC09addrFromBytes
//verif:hook p2p/host/peerstore/pstoreds addrsRecord.flush
//verif:shard VerifC09bDsStep 14
//verif:obligation C09.b datastore book kernels: deleteInPlace(s, addrs) returns exactly the entries of s not named in addrs (|s| <= 4, |addrs| <= 3); removeExpired / clean leave exactly the entries whose expiry lies in the future, sorted
//verif:obligation C09.b' datastore book, inductive step: from any record state (<= 3 entries over 3 addresses, symbolic expiries and TTL classes, sorted and flushed as the record invariant demands, possibly already expired relative to the new instant) one AddAddrs / SetAddrs / UpdateAddrs / ClearAddrs at any instant leaves a sorted, flushed record without expired entries whose Addrs() equal the reference model of the statement applied to the pre-state
//verif:bound one peer, three addresses (atoms), whole-second instants, <= 3 stored entries, TTL classes {Temp, RecentlyConnected, Connected, 0}, per-peer cap disabled
//verif:stub addrsRecord.flush (protobuf marshalling + datastore write) replaced by "mark clean, remember that it was flushed"; cache = unbounded harness map that always holds the peer's record (no datastore reads); ma.NewMultiaddrBytes / peer.SplitAddr operate on address atoms in the symbolic run
//verif:outside persistence itself (protobuf encoding, real datastore, close/reopen), ARC eviction, GC scheduling and lookahead batching, signed records in the datastore book, PeersWithAddrs (a datastore query)
package pstoreds

import (
	"bytes"
	"context"
	"errors"
	"time"

	ds "github.com/ipfs/go-datastore"
	"github.com/libp2p/go-libp2p/core/peer"
	pstore "github.com/libp2p/go-libp2p/core/peerstore"
	"github.com/libp2p/go-libp2p/p2p/host/peerstore/pstoreds/pb"
	"github.com/libp2p/go-libp2p/p2p/host/peerstore/pstoremem"
	ma "github.com/multiformats/go-multiaddr"
)

var vC09now time.Time

var vC09foreignSigner bool // the record being consumed was sealed by a key that is not its peer's

type vC09clock struct{}

func (vC09clock) Now() time.Time                         { return vC09now }
func (vC09clock) After(d time.Duration) <-chan time.Time { return nil }

func vC09splitAddr(m ma.Multiaddr) (ma.Multiaddr, peer.ID) { return m, "" }

var vC09addrs = []ma.Multiaddr{ma.StringCast("/ip4/1.2.3.4/tcp/1"), ma.StringCast("/ip4/1.2.3.4/tcp/2"), ma.StringCast("/ip4/1.2.3.4/tcp/3")}

var vC09extra []ma.Multiaddr // further addresses some harnesses use

func vC09addrFromBytes(b []byte) (ma.Multiaddr, error) {
	for _, a := range vC09addrs {
		if bytes.Equal(a.Bytes(), b) {
			return a, nil
		}
	}
	for _, a := range vC09extra {
		if bytes.Equal(a.Bytes(), b) {
			return a, nil
		}
	}
	return nil, errors.New("unknown address bytes")
}

const vC09peer = peer.ID("peerA")

type vC09cache struct{ m map[peer.ID]*addrsRecord }

func (c *vC09cache) Get(k peer.ID) (*addrsRecord, bool)  { v, ok := c.m[k]; return v, ok }
func (c *vC09cache) Add(k peer.ID, v *addrsRecord)       { c.m[k] = v }
func (c *vC09cache) Remove(k peer.ID)                    { delete(c.m, k) }
func (c *vC09cache) Contains(k peer.ID) bool             { _, ok := c.m[k]; return ok }
func (c *vC09cache) Peek(k peer.ID) (*addrsRecord, bool) { v, ok := c.m[k]; return v, ok }
func (c *vC09cache) Keys() []peer.ID                     { return nil }

type vC09store struct {
	ds.Batching
	deletes int
}

func (s *vC09store) Get(ctx context.Context, k ds.Key) ([]byte, error) { return nil, ds.ErrNotFound }
func (s *vC09store) Put(ctx context.Context, k ds.Key, v []byte) error { return nil }
func (s *vC09store) Delete(ctx context.Context, k ds.Key) error        { s.deletes++; return nil }

var vC09flushes int

func vC09flush(r *addrsRecord, w ds.Write) error {
	vC09flushes++
	r.dirty = false
	return nil
}

func vC09book(rec *addrsRecord) (*dsAddrBook, *vC09cache) {
	VerifHook_addrsRecord_flush = vC09flush
	c := &vC09cache{m: map[peer.ID]*addrsRecord{}}
	if rec != nil {
		c.m[vC09peer] = rec
	}
	ab := &dsAddrBook{ctx: context.Background(), opts: Options{}, cache: c, ds: &vC09store{}, subsManager: pstoremem.NewAddrSubManager(), clock: vC09clock{}}
	return ab, c
}

var vC09ttls = []time.Duration{pstore.TempAddrTTL, pstore.RecentlyConnectedAddrTTL, pstore.ConnectedAddrTTL, 0}

// ---- kernels ----

func VerifC09bDeleteInPlace() {
	n := vCase(5)
	var s []*pb.AddrBookRecord_AddrEntry
	ids := make([]int, n)
	for i := 0; i < n; i++ {
		ids[i] = vCase(3)
		s = append(s, &pb.AddrBookRecord_AddrEntry{Addr: vC09addrs[ids[i]].Bytes(), Expiry: int64(i)})
	}
	k := vCase(4)
	var del []ma.Multiaddr
	var delSet [3]bool
	for i := 0; i < k; i++ {
		d := vCase(3)
		del = append(del, vC09addrs[d])
		delSet[d] = true
	}
	orig := append([]*pb.AddrBookRecord_AddrEntry{}, s...)
	out := deleteInPlace(s, del)
	want := 0
	for i := 0; i < n; i++ {
		if !delSet[ids[i]] {
			want++
			found := 0
			for _, o := range out {
				if o == orig[i] {
					found++
				}
			}
			vAssert(found == 1, "survivor kept exactly once")
		}
	}
	if k > 0 && n > 0 {
		vCover("deleting")
	}
	vAssert(len(out) == want, "exactly the named addresses are removed")
}

func vC09record(n int, maySkipSort bool) (*addrsRecord, []int64) {
	rec := &addrsRecord{AddrBookRecord: &pb.AddrBookRecord{Id: []byte(vC09peer)}}
	var exps []int64
	prev := int64(0)
	for i := 0; i < n; i++ {
		e := int64(vRange(0, 1<<40))
		if !maySkipSort {
			vAssume(e >= prev)
		}
		prev = e
		exps = append(exps, e)
		rec.Addrs = append(rec.Addrs, &pb.AddrBookRecord_AddrEntry{Addr: vC09addrs[i].Bytes(), Expiry: e, Ttl: int64(pstore.TempAddrTTL)})
	}
	return rec, exps
}

func VerifC09bClean() {
	n := vCase(4)
	dirty := vBool()
	rec, exps := vC09record(n, dirty) // a dirty record may be unsorted, a clean one is sorted (record invariant)
	rec.dirty = dirty
	now := int64(vRange(0, 1<<40))
	orig := append([]*pb.AddrBookRecord_AddrEntry{}, rec.Addrs...)
	rec.clean(time.Unix(now, 0))
	live := 0
	for i := 0; i < n; i++ {
		in := 0
		for _, e := range rec.Addrs {
			if e == orig[i] {
				in++
			}
		}
		if exps[i] > now {
			live++
			vAssert(in == 1, "clean keeps every entry whose expiry lies in the future")
		} else {
			vCover("expired")
			vAssert(in == 0, "clean removes every expired entry")
		}
	}
	vAssert(len(rec.Addrs) == live, "clean leaves nothing else")
	sorted := true
	for i := 1; i < len(rec.Addrs); i++ {
		sorted = vAnd(sorted, rec.Addrs[i-1].Expiry <= rec.Addrs[i].Expiry)
	}
	vAssert(sorted, "clean leaves the record sorted by expiry")
}

// ---- inductive step on the public API ----

type vC09ref struct {
	present [3]bool
	ttl     [3]time.Duration
	exp     [3]int64
}

func vC09expiry(now int64, ttl time.Duration) int64 {
	return time.Unix(now, 0).Add(ttl).Unix()
}

func (r *vC09ref) expire(now int64) {
	for i := range r.present {
		if r.present[i] && r.exp[i] <= now {
			r.present[i] = false
		}
	}
}

// op encoding: 0..8 Add(a, ttl>0)  9..20 Set(a, ttl)  21..32 Update(old, new)  33 Clear
const vC09nOps = 34

func VerifC09bDsStep() {
	op := vCase(vC09nOps)
	n := vCase(4)
	// pre-state: entries for the first n addresses in some storage order, sorted by expiry, flushed
	rec := &addrsRecord{AddrBookRecord: &pb.AddrBookRecord{Id: []byte(vC09peer)}}
	ref := &vC09ref{}
	order := [][]int{{0, 1, 2}, {1, 0, 2}, {2, 1, 0}, {0, 2, 1}, {1, 2, 0}, {2, 0, 1}}[vCase(6)]
	prev := int64(0)
	for j := 0; j < n; j++ {
		a := order[j]
		ttl := vC09ttls[vCase(3)]
		e := int64(vRange(0, 1<<40))
		if ttl >= pstore.ConnectedAddrTTL {
			e = vC09expiry(int64(vRange(0, 1<<30)), ttl)
		}
		vAssume(e >= prev)
		prev = e
		rec.Addrs = append(rec.Addrs, &pb.AddrBookRecord_AddrEntry{Addr: vC09addrs[a].Bytes(), Expiry: e, Ttl: int64(ttl)})
		ref.present[a], ref.ttl[a], ref.exp[a] = true, ttl, e
	}
	ab, cache := vC09book(rec)
	defer func() { VerifHook_addrsRecord_flush = nil }()
	now := int64(vRange(0, 1<<30))
	vC09now = time.Unix(now, 0)
	ref.expire(now)
	switch {
	case op < 9:
		i, ttl := op%3, vC09ttls[op/3]
		ab.AddAddrs(vC09peer, []ma.Multiaddr{vC09addrs[i]}, ttl)
		e := vC09expiry(now, ttl)
		if !ref.present[i] {
			ref.present[i], ref.ttl[i], ref.exp[i] = true, ttl, e
		} else {
			if ttl > ref.ttl[i] {
				ref.ttl[i] = ttl
			}
			if e > ref.exp[i] {
				ref.exp[i] = e
			}
		}
	case op < 21:
		i, ttl := (op-9)%3, vC09ttls[(op-9)/3]
		ab.SetAddrs(vC09peer, []ma.Multiaddr{vC09addrs[i]}, ttl)
		if ttl <= 0 {
			ref.present[i] = false
		} else {
			ref.present[i], ref.ttl[i], ref.exp[i] = true, ttl, vC09expiry(now, ttl)
		}
	case op < 33:
		old, nw := vC09ttls[(op-21)%3], vC09ttls[(op-21)/3]
		ab.UpdateAddrs(vC09peer, old, nw)
		for i := range ref.present {
			if ref.present[i] && ref.ttl[i] == old {
				if nw <= 0 {
					ref.present[i] = false
				} else {
					ref.ttl[i], ref.exp[i] = nw, vC09expiry(now, nw)
				}
			}
		}
	default:
		ab.ClearAddrs(vC09peer)
		ref.present = [3]bool{}
	}
	got := ab.Addrs(vC09peer)
	var has [3]bool
	extra := false
	for _, g := range got {
		hit := false
		for i := range vC09addrs {
			if g.Equal(vC09addrs[i]) && !has[i] {
				has[i], hit = true, true
				break
			}
		}
		if !hit {
			extra = true
		}
	}
	vAssert(!extra && has == ref.present, "Addrs == addresses whose latest expiry lies in the future")
	if r, ok := cache.m[vC09peer]; ok {
		vCover("record-kept")
		sorted, noExpired := true, true
		for i, e := range r.Addrs {
			noExpired = vAnd(noExpired, e.Expiry > now)
			if i > 0 {
				sorted = vAnd(sorted, r.Addrs[i-1].Expiry <= e.Expiry)
			}
		}
		vAssert(sorted, "record stays sorted by expiry (soonest first)")
		vAssert(noExpired, "no expired entry stays in the record")
		vAssert(!r.dirty, "every change was flushed")
		for i := range vC09addrs {
			for _, e := range r.Addrs {
				if bytes.Equal(e.Addr, vC09addrs[i].Bytes()) {
					vAssert(e.Ttl == int64(ref.ttl[i]) && e.Expiry == ref.exp[i], "stored ttl and expiry follow the statement (add never shortens, set overrides, class update moves)")
				}
			}
		}
	}
}
