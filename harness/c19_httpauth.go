//go:build verif

//verif:dir p2p/http/auth/internal/handshake
//verif:hook p2p/http/auth/internal/handshake params.parsePeerIDAuthSchemeParams
//verif:hook p2p/http/auth/internal/handshake opaqueState.Unmarshal
//verif:hook p2p/http/auth/internal/handshake opaqueState.Marshal
//verif:hook p2p/http/auth/internal/handshake headerBuilder.writeParam
//verif:hook p2p/http/auth/internal/handshake headerBuilder.writeScheme
//verif:hook p2p/http/auth/internal/handshake headerBuilder.clear
//verif:hook core/crypto UnmarshalPublicKey
//verif:hook core/crypto MarshalPublicKey
//verif:hook core/peer IDFromPublicKey
//verif:replace (net/http.Header).Get vC19headerGet
//verif:shard VerifC19cClient 12
//verif:obligation C19.f the server handshake object reused from a pool: after Reset - whatever the previous request got to: any state, parsed but never run or run - no state, parameter or client identity of the previous exchange is left, and a following request without Authorization header reports no peer ID
//verif:obligation C19.a server: PeerIDAuthHandshakeServer.Run followed by PeerID reports a client peer ID only if (challenge flow) the opaque state authenticated under the server's HMAC, is a challenge (not a token), is not older than 5 minutes, carries the request's hostname, and the client's signature over (that state's challenge, the server's public key, the hostname) verifies under the key whose ID is reported - the key bound in the state for client-initiated handshakes, otherwise the presented one; or (bearer flow) the token authenticated under the HMAC, is a token, and is not older than TokenTTL, and the ID is the token's
//verif:obligation C19.b genDataToSign is injective: a reference parser recovers every (key, value) part and consumes the whole buffer for value lengths crossing the 127/128 varint edge
//verif:obligation C19.c client: after every ParseHeader / Run step of both flows, PeerID / ServerAuthenticated answer only if a signature over (the client's current challenge, the client's key, the hostname) verified under the very key whose peer ID is reported, and a server key once learned is never replaced
//verif:obligation C19.a' the same holds for a handshake object that served another client (token or challenge, any bound key) and was Reset: nothing of the previous exchange is visible to the next one (the opaque-state hook follows json.Unmarshal's semantics: fields the blob omits keep their previous value)
//verif:bound one server Run per run with every parameter-presence combination the state selection accepts; client histories of <= 4 ParseHeader+Run rounds; value lengths 0..300 in genDataToSign
//verif:stub header parsing, opaque state (de)serialisation (JSON + HMAC: symbolic "authentic" flag, then arbitrary fields), public-key (un)marshalling, peer.IDFromPublicKey and the header builder are replaced through hooks; keys are stub objects whose Verify logs its arguments and answers symbolically; clock and randomness through the package's own nowFn / randReader variables
//verif:outside HMAC-SHA256 and signature strength, JSON encoding, header syntax mutation at scale, key types
package handshake

import (
	"bytes"
	"encoding/binary"
	"errors"
	"hash"
	"net/http"
	"time"

	"github.com/libp2p/go-libp2p/core/crypto"
	pb "github.com/libp2p/go-libp2p/core/crypto/pb"
	"github.com/libp2p/go-libp2p/core/peer"
)

type vC19key struct {
	crypto.PubKey
	name     string
	okAnswer bool
	errAns   bool
	calls    int
	lastData []byte
	lastSig  []byte
}

func (k *vC19key) Verify(data, sig []byte) (bool, error) {
	k.calls++
	k.lastData = append([]byte{}, data...)
	k.lastSig = append([]byte{}, sig...)
	if k.errAns {
		return false, errors.New("malformed signature")
	}
	return k.okAnswer, nil
}
func (k *vC19key) Type() pb.KeyType { return pb.KeyType_Ed25519 }

type vC19priv struct {
	crypto.PrivKey
	pub *vC19key
}

func (p *vC19priv) GetPublic() crypto.PubKey      { return p.pub }
func (p *vC19priv) Sign(b []byte) ([]byte, error) { return []byte("sig-by-" + p.pub.name), nil }

type vC19rand struct{}

func (vC19rand) Read(b []byte) (int, error) {
	for i := range b {
		b[i] = 7
	}
	return len(b), nil
}

var vC19keys map[string]*vC19key

func vC19install(now time.Time) {
	nowFn = func() time.Time { return now }
	randReader = vC19rand{}
	crypto.VerifHook_UnmarshalPublicKey = func(b []byte) (crypto.PubKey, error) {
		if k, ok := vC19keys[string(b)]; ok {
			return k, nil
		}
		return nil, errors.New("bad key")
	}
	crypto.VerifHook_MarshalPublicKey = func(k crypto.PubKey) ([]byte, error) { return []byte(k.(*vC19key).name), nil }
	peer.VerifHook_IDFromPublicKey = func(k crypto.PubKey) (peer.ID, error) { return peer.ID("id-of-" + k.(*vC19key).name), nil }
	VerifHook_headerBuilder_writeParam = func(h *headerBuilder, key string, val []byte) {}
	VerifHook_headerBuilder_writeScheme = func(h *headerBuilder, s string) {}
	VerifHook_headerBuilder_clear = func(h *headerBuilder) {}
	VerifHook_opaqueState_Marshal = func(o *opaqueState, hm hash.Hash, b []byte) ([]byte, error) { return append(b, "opaque"...), nil }
}

func vC19remove() {
	nowFn = time.Now
	crypto.VerifHook_UnmarshalPublicKey, crypto.VerifHook_MarshalPublicKey, peer.VerifHook_IDFromPublicKey = nil, nil, nil
	VerifHook_headerBuilder_writeParam, VerifHook_headerBuilder_writeScheme, VerifHook_headerBuilder_clear = nil, nil, nil
	VerifHook_opaqueState_Marshal, VerifHook_opaqueState_Unmarshal, VerifHook_params_parsePeerIDAuthSchemeParams = nil, nil, nil
}

func vC19expect(parts []sigParam) []byte {
	b, _ := genDataToSign(nil, PeerIDAuthScheme, parts)
	return b
}

var vC19b64 = []byte("QUJD") // base64url("ABC")

type vC19hmac struct{ hash.Hash }

func (vC19hmac) Reset() {}

func VerifC19aServer() {
	defer vC19remove()
	now := vRange64(1<<40, 1<<60)
	vC19install(time.Unix(0, now))
	serverKey := &vC19key{name: "server"}
	kA := &vC19key{name: "ABC", okAnswer: vBool(), errAns: vBool()}   // the key named by the public-key parameter (base64 of "ABC")
	kB := &vC19key{name: "bound", okAnswer: vBool(), errAns: vBool()} // the key bound into the opaque state
	vC19keys = map[string]*vC19key{"ABC": kA, "bound": kB}
	// which parameters the request carries
	hasSig, hasOpaque, hasBearer, hasChalSrv, hasPub := vBool(), vBool(), vBool(), vBool(), vBool()
	hasChalCli := vBool() // the request also carries a challenge-client parameter of its own (a recorded one, of the right length)
	VerifHook_params_parsePeerIDAuthSchemeParams = func(p *params, hv []byte) error {
		if hasSig {
			p.sigB64 = vC19b64
		}
		if hasOpaque {
			p.opaqueB64 = vC19b64
		}
		if hasBearer {
			p.bearerTokenB64 = vC19b64
		}
		if hasChalSrv {
			p.challengeServer = bytes.Repeat([]byte{'c'}, challengeLen)
		}
		if hasPub {
			p.publicKeyB64 = vC19b64
		}
		if hasChalCli {
			p.challengeClient = []byte("old-challenge") // as long as the one in the opaque state
		}
		return nil
	}
	// what the opaque blob / token deserialises to
	authentic := vBool()
	st := opaqueState{IsToken: vBool(), ChallengeClient: "the-challenge", Hostname: "example.com"}
	if vBool() {
		st.Hostname = "other.example"
	}
	if vBool() {
		st.ClientPublicKey = []byte("bound")
	}
	if vBool() {
		st.PeerID = "id-in-state"
	}
	created := vRange64(1<<40, 1<<60)
	st.CreatedTime = time.Unix(0, created)
	VerifHook_opaqueState_Unmarshal = func(o *opaqueState, hm hash.Hash, d []byte) error {
		if !authentic {
			return ErrInvalidHMAC
		}
		// json.Unmarshal into the existing struct: fields the blob omits (omitempty) keep their old value
		if st.IsToken {
			o.IsToken = true
		}
		if st.ClientPublicKey != nil {
			o.ClientPublicKey = st.ClientPublicKey
		}
		if st.PeerID != "" {
			o.PeerID = st.PeerID
		}
		if st.ChallengeClient != "" {
			o.ChallengeClient = st.ChallengeClient
		}
		o.Hostname, o.CreatedTime = st.Hostname, st.CreatedTime
		return nil
	}
	ttl := time.Duration(vRange64(0, 1<<50))
	h := &PeerIDAuthHandshakeServer{Hostname: "example.com", PrivKey: &vC19priv{pub: serverKey}, TokenTTL: ttl, Hmac: vC19hmac{}}
	if vBool() {
		// the handshake object served another client before and was Reset (as the package's own tests and
		// benchmarks do): nothing of that exchange may leak into this one
		h.opaque = opaqueState{IsToken: vBool(), PeerID: "previous-client", ChallengeClient: "previous-challenge", Hostname: "example.com", CreatedTime: time.Unix(0, now)}
		if vBool() {
			h.opaque.ClientPublicKey = []byte("bound")
		}
		h.state = peerIDAuthServerStateVerifyBearer
		h.ran = true
		h.Reset()
		vCover("reused-after-reset")
	}
	if err := h.ParseHeaderVal([]byte("libp2p-PeerID x")); err != nil {
		vCover("header-rejected")
		_, perr := h.PeerID()
		vAssert(perr != nil, "no peer ID without a run")
		return
	}
	err := h.Run()
	id, perr := h.PeerID()
	if err != nil || perr != nil {
		vCover("refused")
		return
	}
	vAssert(id != "", "a reported peer ID is never empty")
	vAssert(authentic, "a peer ID is reported only for state that authenticated under the server's HMAC")
	switch h.state {
	case peerIDAuthServerStateVerifyChallenge:
		vCover("challenge-flow")
		vAssert(hasSig && hasOpaque, "the challenge flow needs a signature and the opaque state")
		vAssert(!st.IsToken, "a token is not accepted as a challenge")
		vAssert(now <= created+int64(challengeTTL), "the challenge is not older than 5 minutes")
		vAssert(st.Hostname == h.Hostname, "the challenge was issued for this hostname")
		k := kA
		if st.ClientPublicKey != nil {
			k = kB
			vCover("client-initiated")
		} else {
			vAssert(hasPub, "a server-initiated handshake needs the public-key parameter")
		}
		vAssert(id == peer.ID("id-of-"+k.name), "the reported ID is the ID of the key that verified the signature")
		vAssert(k.calls == 1 && k.okAnswer && !k.errAns, "the signature verified under that key")
		want := vC19expect([]sigParam{{"challenge-client", []byte(st.ChallengeClient)}, {"server-public-key", []byte("server")}, {"hostname", []byte(h.Hostname)}})
		vAssert(bytes.Equal(k.lastData, want), "the signature covers the server's own challenge, the server's public key and the hostname")
		vAssert(bytes.Equal(k.lastSig, []byte("ABC")), "the presented signature is the one verified")
	case peerIDAuthServerStateVerifyBearer:
		vCover("bearer-flow")
		vAssert(hasBearer, "the bearer flow needs a token")
		vAssert(st.IsToken, "a challenge is not accepted as a token")
		vAssert(now <= created+int64(ttl), "the token is not older than TokenTTL")
		vAssert(id == st.PeerID, "the reported ID is the one the token was issued for")
	default:
		vAssert(false, "no peer ID is reported in other states")
	}
}

// ---- C19.b ----

func VerifC19bGenDataToSign() {
	n1, n2 := vRange(0, 300), vRange(0, 300)
	v1, v2 := vBytes(n1), vBytes(n2)
	buf, err := genDataToSign(nil, PeerIDAuthScheme, []sigParam{{"hostname", v2}, {"challenge-client", v1}})
	vAssert(err == nil, "no error")
	// reference parser: prefix, then (uvarint length, key '=' value) parts in key order
	pos := len(PeerIDAuthScheme)
	vAssert(len(buf) >= pos && string(buf[:pos]) == PeerIDAuthScheme, "prefix")
	keys := []string{"challenge-client", "hostname"}
	vals := [][]byte{v1, v2}
	j := vRange(0, 300)
	for i := 0; i < 2; i++ {
		l, k := binary.Uvarint(buf[pos:])
		vAssert(k > 0 && int(l) == len(keys[i])+1+len(vals[i]), "length prefix covers key, '=' and value")
		if int(l) >= 128 {
			vCover("two-byte-length")
		}
		pos += k
		vAssert(string(buf[pos:pos+len(keys[i])]) == keys[i] && buf[pos+len(keys[i])] == '=', "key and separator")
		pos += len(keys[i]) + 1
		if j < len(vals[i]) {
			vAssert(buf[pos+j] == vals[i][j], "value bytes are recoverable at their position")
		}
		pos += len(vals[i])
	}
	vAssert(pos == len(buf), "the reference parser consumes the whole buffer")
}

// ---- C19.c client ----

func vC19headerGet(h http.Header, key string) string { return "libp2p-PeerID present" }

func VerifC19cClient() {
	first := vCase(24) // split over shards: flow x first response
	defer vC19remove()
	vC19install(time.Unix(1000, 0))
	clientKey := &vC19key{name: "client"}
	k1 := &vC19key{name: "ABC", okAnswer: vBool()}
	k2 := &vC19key{name: "victim", okAnswer: vBool()}
	vC19keys = map[string]*vC19key{"ABC": k1, "victim": k2}
	h := &PeerIDAuthHandshakeClient{Hostname: "example.com", PrivKey: &vC19priv{pub: clientKey}}
	if first%2 == 1 {
		h.SetInitiateChallenge()
		vCover("client-initiated")
	}
	hdr := http.Header{}
	hdr.Set("WWW-Authenticate", "libp2p-PeerID present")
	hdr.Set("Authentication-Info", "libp2p-PeerID present")
	var learned crypto.PubKey
	var verifiedKey *vC19key
	rounds := 3 + vTier()
	for r := 0; r < rounds; r++ {
		// what the server's response carries in this round
		// opaque / bearer values are only echoed by the client: always present
		hasOpaque, hasBearer := true, true
		var hasSig, hasChal bool
		var pubChoice int // 0 none, 1 the first key, 2 another key
		if r == 0 {
			c := first / 2
			hasSig, hasChal, pubChoice = c%2 == 1, (c/2)%2 == 1, c/4
		} else {
			hasSig, hasChal, pubChoice = vBool(), vBool(), vCase(3)
		}
		VerifHook_params_parsePeerIDAuthSchemeParams = func(p *params, hv []byte) error {
			if hasSig {
				p.sigB64 = vC19b64
			}
			if hasChal {
				p.challengeClient = bytes.Repeat([]byte{'k'}, challengeLen)
			}
			if hasOpaque {
				p.opaqueB64 = vC19b64
			}
			if hasBearer {
				p.bearerTokenB64 = vC19b64
			}
			switch pubChoice {
			case 1:
				p.publicKeyB64 = vC19b64 // decodes to "ABC"
			case 2:
				p.publicKeyB64 = []byte("dmljdGlt") // base64url("victim")
			}
			return nil
		}
		k1c, k2c := k1.calls, k2.calls
		chal := append([]byte{}, h.challengeServer...)
		perr := h.ParseHeader(hdr)
		if learned != nil {
			vAssert(h.serverPubKey == learned, "a server key once learned is never replaced")
		} else if h.serverPubKey != nil {
			learned = h.serverPubKey
		}
		if perr != nil {
			vCover("parse-error")
			continue
		}
		rerr := h.Run()
		if rerr == nil {
			// which key verified a signature in this round, and over which challenge
			for _, k := range []*vC19key{k1, k2} {
				before := k1c
				if k == k2 {
					before = k2c
				}
				if k.calls > before {
					want := vC19expect([]sigParam{{"challenge-server", chal}, {"client-public-key", []byte("client")}, {"hostname", []byte(h.Hostname)}})
					if k.okAnswer && bytes.Equal(k.lastData, want) && len(chal) > 0 {
						verifiedKey = k
					}
				}
			}
		}
		id, ierr := h.PeerID()
		if ierr == nil {
			vCover("server-authenticated")
			vAssert(h.ServerAuthenticated(), "PeerID and ServerAuthenticated agree")
			vAssert(verifiedKey != nil, "a server ID is reported only after a signature over the client's own challenge, key and hostname verified")
			if verifiedKey != nil {
				vAssert(id == peer.ID("id-of-"+verifiedKey.name), "the reported server ID is the ID of the key that signed the client's challenge")
			}
		} else {
			vAssert(!h.ServerAuthenticated(), "PeerID and ServerAuthenticated agree")
		}
	}
}

// C19.f: Reset between requests forgets everything, whatever the previous request got to
func VerifC19fResetForgetsThePreviousRequest() {
	defer vC19remove()
	vC19install(time.Unix(0, 1<<50))
	h := &PeerIDAuthHandshakeServer{Hostname: "example.com", PrivKey: &vC19priv{pub: &vC19key{name: "server"}}, TokenTTL: time.Hour, Hmac: vC19hmac{}}
	// a previous request on this (pooled) handshake object: parsed, and possibly never run (the connection dropped,
	// the handler bailed out early) or run to the end
	states := []peerIDAuthServerState{peerIDAuthServerStateVerifyBearer, peerIDAuthServerStateVerifyChallenge, peerIDAuthServerStateSignChallenge}
	h.state = states[vCase(3)]
	h.p = params{bearerTokenB64: vC19b64, sigB64: vC19b64, opaqueB64: vC19b64, publicKeyB64: vC19b64, challengeClient: []byte("c"), challengeServer: []byte("s")}
	h.opaque = opaqueState{IsToken: vBool(), PeerID: "previous-client", ChallengeClient: "previous-challenge", Hostname: "example.com", CreatedTime: time.Unix(0, 1<<50)}
	h.ran = vBool()
	if !h.ran {
		vCover("previous-request-parsed-but-never-run")
	}
	h.Reset()
	vAssert(!h.ran && h.state == 0 && h.opaque.PeerID == "" && h.opaque.ChallengeClient == "", "after Reset nothing of the previous exchange is left in the state")
	vAssert(h.p.bearerTokenB64 == nil && h.p.sigB64 == nil && h.p.opaqueB64 == nil && h.p.publicKeyB64 == nil && h.p.challengeClient == nil && h.p.challengeServer == nil, "after Reset none of the previous request's parameters is left")
	// the next request carries no Authorization header at all
	vAssert(h.ParseHeaderVal(nil) == nil, "an anonymous request parses")
	h.Run()
	id, err := h.PeerID()
	vAssert(err != nil && id == "", "an anonymous request is never reported as the client of an earlier request")
}
