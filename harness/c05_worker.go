//go:build verif

//verif:dir p2p/net/swarm
//verif:also C12
//verif:hook p2p/net/swarm Swarm.addrsForDial
//verif:hook p2p/net/swarm Swarm.dialNextAddr
//verif:hook p2p/net/swarm Swarm.addConn
//verif:hook p2p/net/swarm DialBackoff.AddBackoff
//verif:shard VerifC05fWorkerLoop 9
//verif:obligation C05.f the dial worker's loop() as an event machine (real loop in its own goroutine, real dial queue, timer protocol and dispatchError): for 2 dial requests (the second plain, demanding a direct connection, or a hole-punch attempt) with symbolic address sets over 2 addresses, a relayed connection to the peer appearing never / before / after the second request, symbolic ranking delay of the second address, every arrival pattern of the second request (before any result, between results, after all results), every completion order and outcome (success / failure) of the dials and refusals without a dial (back-off): every request receives exactly one response; an address is handed to dialNextAddr at most once while the worker lives (a back-off refusal is forgotten on purpose); a request is answered with a connection only if one of its addresses succeeded or an acceptable connection appeared, a request demanding a direct connection is never answered with the relayed one, and with an error only when every one of its addresses has failed or been refused; a success answers every pending request interested in that address; delayed addresses are dialed when the timer fires or when nothing is in flight; the loop returns when the request channel is closed
//verif:bound 2 requests, 2 addresses, <= 2 dials in flight, ranking delays {0, 250 ms}; the environment (request arrival, results, clock) is driven in every order permitted by the bound; cooperative schedule
//verif:stub addrsForDial, dialNextAddr (ghost log + symbolic back-off refusal), addConn, DialBackoff.AddBackoff hooked; clock / instant timer harness stubs; addresses are atoms
//verif:outside handshake-progress updates (TCP upgrade wait), more than 2 addresses / requests, cancellation of a request's context while its dials are pending
package swarm

import (
	"context"
	"errors"
	"time"

	"github.com/libp2p/go-libp2p/core/network"
	"github.com/libp2p/go-libp2p/core/peer"
	"github.com/libp2p/go-libp2p/core/transport"
	ma "github.com/multiformats/go-multiaddr"
)

type vC05timer struct {
	clk     *vC05clock
	ch      chan time.Time
	armed   bool
	pending bool // fired, value not yet drained
	when    time.Time
}

func (t *vC05timer) Ch() <-chan time.Time { return t.ch }
func (t *vC05timer) Stop() bool {
	was := t.armed
	t.armed = false
	return was
}
func (t *vC05timer) Reset(d time.Time) bool {
	was := t.armed
	t.armed, t.when = true, d
	t.clk.maybeFire()
	return was
}

type vC05clock struct {
	now   time.Time
	timer *vC05timer
}

func (c *vC05clock) Now() time.Time                  { return c.now }
func (c *vC05clock) Since(t time.Time) time.Duration { return c.now.Sub(t) }
func (c *vC05clock) InstantTimer(when time.Time) InstantTimer {
	c.timer = &vC05timer{clk: c, ch: make(chan time.Time, 1), armed: true, when: when}
	return c.timer
}
func (c *vC05clock) maybeFire() {
	t := c.timer
	if t != nil && t.armed && !t.when.After(c.now) {
		t.armed = false
		t.ch <- c.now
	}
}

type vC05reqCtxKey struct{}

var vC05wAddrs = []ma.Multiaddr{ma.StringCast("/ip4/7.7.7.1/tcp/1"), ma.StringCast("/ip4/7.7.7.2/tcp/1")}

func vC05wIdx(a ma.Multiaddr) int {
	for i := range vC05wAddrs {
		if vC05wAddrs[i].Equal(a) {
			return i
		}
	}
	panic("unknown address")
}

func VerifC05fWorkerLoop() {
	shape := vCase(9) // address sets of the two requests: {a0} {a1} {a0,a1} each
	sets := [][]int{{0}, {1}, {0, 1}}
	reqAddrs := [2][]int{sets[shape%3], sets[shape/3]}
	delayed := vBool() // the ranker delays the second address
	var dialed [2]int
	var inFlight [2]bool
	var everOK, everFailed, everRefused [2]bool
	refuse := vBoolSlice(2)
	s := &Swarm{local: "self"}
	s.conns.m = map[peer.ID][]*Conn{}
	s.limiter = newDialLimiterWithParams(nil, 8, 8)
	s.dialRanker = func(addrs []ma.Multiaddr) []network.AddrDelay {
		var r []network.AddrDelay
		for _, a := range addrs {
			d := time.Duration(0)
			if delayed && vC05wIdx(a) == 1 {
				d = 250 * time.Millisecond
			}
			r = append(r, network.AddrDelay{Addr: a, Delay: d})
		}
		return r
	}
	VerifHook_Swarm_addrsForDial = func(sw *Swarm, ctx context.Context, p peer.ID) ([]ma.Multiaddr, []TransportError, error) {
		r := ctx.Value(vC05reqCtxKey{}).(int)
		var out []ma.Multiaddr
		for _, i := range reqAddrs[r] {
			out = append(out, vC05wAddrs[i])
		}
		return out, nil, nil
	}
	refusedOnce := [2]bool{}
	VerifHook_Swarm_dialNextAddr = func(sw *Swarm, ctx context.Context, p peer.ID, a ma.Multiaddr, resch chan transport.DialUpdate) error {
		i := vC05wIdx(a)
		if refuse[i] && !refusedOnce[i] {
			refusedOnce[i] = true
			everRefused[i] = true
			return ErrDialBackoff
		}
		dialed[i]++
		inFlight[i] = true
		return nil
	}
	VerifHook_Swarm_addConn = func(sw *Swarm, tc transport.CapableConn, dir network.Direction) (*Conn, error) {
		return &Conn{conn: tc, swarm: sw}, nil
	}
	VerifHook_DialBackoff_AddBackoff = func(db *DialBackoff, p peer.ID, a ma.Multiaddr) {}
	defer func() {
		VerifHook_Swarm_addrsForDial, VerifHook_Swarm_dialNextAddr, VerifHook_Swarm_addConn, VerifHook_DialBackoff_AddBackoff = nil, nil, nil, nil
	}()
	clk := &vC05clock{now: time.Unix(1000, 0)}
	reqch := make(chan dialRequest)
	w := newDialWorker(s, "peerA", reqch, clk)
	exited := false
	go func() { w.loop(); exited = true }()
	settle := func() {
		for i := 0; i < 20; i++ {
			vYield()
		}
	}
	var resch [2]chan dialResponse
	kind := [2]int{0, vCase(3)} // the second request: plain, demanding a direct connection, or a hole-punch (simultaneous connect) attempt
	relayed := &Conn{conn: &vC05wtc{proxy: true}, swarm: s}
	relayed.streams.m = map[*Stream]struct{}{}
	relayLands := vCase(3) // a relayed connection to the peer appears: never / before the second request / after it
	land := func() {
		s.conns.m["peerA"] = append(s.conns.m["peerA"], relayed)
		vCover("relayed-connection-landed")
	}
	send := func(r int) {
		if r == 1 && relayLands == 1 {
			land()
		}
		resch[r] = make(chan dialResponse, 4)
		ctx := context.WithValue(context.Background(), vC05reqCtxKey{}, r)
		switch kind[r] {
		case 1:
			ctx = network.WithForceDirectDial(ctx, "verif")
		case 2:
			ctx = network.WithSimultaneousConnect(ctx, true, "verif")
		}
		reqch <- dialRequest{ctx: ctx, resch: resch[r]}
		settle()
		if r == 1 && relayLands == 2 {
			land()
		}
	}
	anyInFlight := func() bool { return inFlight[0] || inFlight[1] }
	deliverOne := func() {
		// which in-flight dial completes next, and how
		k := 0
		if inFlight[0] && inFlight[1] {
			k = vCase(2)
			vCover("two-dials-in-flight")
		} else if inFlight[1] {
			k = 1
		}
		ok := vBool()
		inFlight[k] = false
		upd := transport.DialUpdate{Kind: transport.UpdateKindDialFailed, Addr: vC05wAddrs[k], Err: errors.New("dial failed")}
		if ok {
			upd = transport.DialUpdate{Kind: transport.UpdateKindDialSuccessful, Addr: vC05wAddrs[k], Conn: &vC05wtc{}}
			everOK[k] = true
		} else {
			everFailed[k] = true
		}
		w.resch <- upd
		settle()
	}
	tick := func() {
		clk.now = clk.now.Add(time.Second)
		clk.maybeFire()
		settle()
	}
	drain := func() {
		for i := 0; i < 6; i++ {
			if anyInFlight() {
				deliverOne()
			} else {
				tick() // nothing in flight: a delayed address (if any) is due
				if !anyInFlight() {
					return
				}
			}
		}
	}
	switch vCase(3) {
	case 0: // second request after everything
		send(0)
		drain()
		send(1)
		drain()
	case 1: // both requests before any result
		send(0)
		send(1)
		drain()
	case 2: // second request between results
		send(0)
		if anyInFlight() {
			deliverOne()
		}
		send(1)
		drain()
	}
	vAssert(!anyInFlight(), "harness: every dial was completed")
	close(reqch)
	settle()
	vAssert(exited, "the worker returns when the request channel is closed")
	for i := 0; i < 2; i++ {
		vAssert(dialed[i] <= 1, "an address is handed to a transport at most once while the worker lives")
	}
	for r := 0; r < 2; r++ {
		vAssert(len(resch[r]) == 1, "every request receives exactly one response")
		if len(resch[r]) != 1 {
			continue
		}
		resp := <-resch[r]
		anyOK, allDone, refusals := false, true, false
		for _, i := range reqAddrs[r] {
			anyOK = anyOK || everOK[i]
			allDone = allDone && (everFailed[i] || everRefused[i])
			refusals = refusals || everRefused[i]
		}
		if resp.err == nil {
			vCover("request-connected")
			vAssert(resp.conn != nil && (anyOK || resp.conn == relayed), "a request gets a connection only if one of its addresses succeeded or an acceptable connection appeared meanwhile")
			if kind[r] == 1 {
				vCover("direct-demanded")
				vAssert(resp.conn != relayed, "a request that demands a direct connection is never answered with a relayed one")
			}
		} else {
			vCover("request-failed")
			vAssert(allDone, "a request fails only when every one of its addresses has failed or been refused")
		}
		if anyOK && !refusals {
			vAssert(resp.err == nil, "a success answers every request interested in that address")
		}
	}
}

type vC05wtpt struct {
	transport.Transport
	proxy bool
}

func (t *vC05wtpt) Proxy() bool { return t.proxy }

type vC05wtc struct {
	transport.CapableConn
	proxy bool
}

func (*vC05wtc) Close() error                     { return nil }
func (*vC05wtc) IsClosed() bool                   { return false }
func (c *vC05wtc) Transport() transport.Transport { return &vC05wtpt{proxy: c.proxy} }
func (c *vC05wtc) Stat() network.ConnStats {
	return network.ConnStats{Stats: network.Stats{Limited: c.proxy}}
}
