//go:build verif

//verif:dir p2p/http/auth
//verif:hook p2p/http/auth newHmacPool
//verif:hook p2p/http/auth hmacPool.Get
//verif:hook p2p/http/auth hmacPool.Put
//verif:hook p2p/http/auth/internal/handshake PeerIDAuthHandshakeServer.ParseHeaderVal
//verif:hook p2p/http/auth/internal/handshake PeerIDAuthHandshakeServer.Run
//verif:hook p2p/http/auth/internal/handshake PeerIDAuthHandshakeServer.PeerID
//verif:hook p2p/http/auth/internal/handshake PeerIDAuthHandshakeServer.SetHeader
//verif:subst p2p/http/auth crypto/rand.Read verifRandRead
//verif:replace (net/http.Header).Get vC19dHeaderGet
//verif:shard VerifC19dHTTPWrapper 8
//verif:obligation C19.d ServerPeerIDAuth.ServeHTTPWithNextHandler (the HTTP wrapper around the handshake): the HMAC that authenticates opaque state and tokens is keyed with exactly the server's secret - the configured HmacKey, or, when none is configured, 32 bytes drawn from the random source for this server instance (never an empty or shared key) -, on the first request and on later ones; the application handler runs only for a request whose hostname passed the TLS / NoTLS / ValidHostnameFn rules, whose handshake ran without error and reported a peer ID, and it receives exactly that ID; every handshake is given the request's hostname, the server's key and TokenTTL and an HMAC from that pool
//verif:bound two requests per server instance; hostname rule outcomes, handshake outcomes symbolic
//verif:stub the handshake server's ParseHeaderVal / Run / PeerID / SetHeader (C19.a) and the HMAC pool hooked; crypto/rand.Read substituted by a recorder; http.ResponseWriter stub; Header.Get replaced in the symbolic run
//verif:outside HMAC-SHA256 itself, net/http, concurrent first requests (sync.Once)
package httppeeridauth

import (
	"crypto/tls"
	"errors"
	"hash"
	"net/http"

	"github.com/libp2p/go-libp2p/core/peer"
	"github.com/libp2p/go-libp2p/p2p/http/auth/internal/handshake"
)

func vC19dHeaderGet(h http.Header, key string) string { return "libp2p-PeerID present" }

type vC19dWriter struct {
	codes []int
	hdr   http.Header
}

func (w *vC19dWriter) Header() http.Header         { return w.hdr }
func (w *vC19dWriter) Write(b []byte) (int, error) { return len(b), nil }
func (w *vC19dWriter) WriteHeader(c int)           { w.codes = append(w.codes, c) }

type vC19dHash struct {
	hash.Hash
	key string
}

func (vC19dHash) Reset() {}

func VerifC19dHTTPWrapper() {
	split := vCase(8) // shards: configured secret x NoTLS x (unused)
	var poolKeys [][]byte
	VerifHook_newHmacPool = func(key []byte) *hmacPool {
		poolKeys = append(poolKeys, append([]byte{}, key...))
		return &hmacPool{}
	}
	VerifHook_hmacPool_Get = func(p *hmacPool) hash.Hash { return vC19dHash{key: string(poolKeys[len(poolKeys)-1])} }
	VerifHook_hmacPool_Put = func(p *hmacPool, h hash.Hash) {}
	savedRand := verifRandRead
	randCalls := 0
	verifRandRead = func(b []byte) (int, error) {
		randCalls++
		for i := range b {
			b[i] = byte(0x40 + i%26)
		}
		return len(b), nil
	}
	parseFail, runErr, idErr := vBoolSlice(2), []int{vCase(3), vCase(3)}, vBoolSlice(2)
	req := 0
	var seen []handshake.PeerIDAuthHandshakeServer
	handshake.VerifHook_PeerIDAuthHandshakeServer_ParseHeaderVal = func(h *handshake.PeerIDAuthHandshakeServer, v []byte) error {
		seen = append(seen, handshake.PeerIDAuthHandshakeServer{Hostname: h.Hostname, PrivKey: h.PrivKey, TokenTTL: h.TokenTTL, Hmac: h.Hmac})
		if parseFail[req] {
			return errors.New("bad header")
		}
		return nil
	}
	runs := 0
	handshake.VerifHook_PeerIDAuthHandshakeServer_Run = func(h *handshake.PeerIDAuthHandshakeServer) error {
		runs++
		if runs > 1 && seenRunThisReq(runs) {
			return nil // the retry with a fresh handshake after an expired token / challenge never fails
		}
		switch runErr[req] {
		case 1:
			return handshake.ErrExpiredToken
		case 2:
			return errors.New("signature mismatch")
		}
		return nil
	}
	handshake.VerifHook_PeerIDAuthHandshakeServer_PeerID = func(h *handshake.PeerIDAuthHandshakeServer) (peer.ID, error) {
		if idErr[req] {
			return "", errors.New("not authenticated yet")
		}
		return peer.ID("client-" + string(rune('0'+req))), nil
	}
	handshake.VerifHook_PeerIDAuthHandshakeServer_SetHeader = func(h *handshake.PeerIDAuthHandshakeServer, hdr http.Header) {}
	defer func() {
		VerifHook_newHmacPool, VerifHook_hmacPool_Get, VerifHook_hmacPool_Put = nil, nil, nil
		verifRandRead = savedRand
		handshake.VerifHook_PeerIDAuthHandshakeServer_ParseHeaderVal, handshake.VerifHook_PeerIDAuthHandshakeServer_Run = nil, nil
		handshake.VerifHook_PeerIDAuthHandshakeServer_PeerID, handshake.VerifHook_PeerIDAuthHandshakeServer_SetHeader = nil, nil
	}()
	a := &ServerPeerIDAuth{TokenTTL: 12345}
	configured := split&1 != 0
	if configured {
		a.HmacKey = []byte("configured-secret-configured-key")
	}
	a.NoTLS = split&2 != 0
	hostOK := vBoolSlice(2)
	if vBool() {
		a.ValidHostnameFn = func(h string) bool { return hostOK[req] }
	}
	var called []peer.ID
	next := func(p peer.ID, w http.ResponseWriter, r *http.Request) { called = append(called, p) }
	for req = 0; req < 2; req++ {
		vC19dRunBase = runs
		r := &http.Request{Host: "example.com", Header: http.Header{}}
		tlsMode := vCase(3) // none, matching server name, other server name
		switch tlsMode {
		case 1:
			r.TLS = &tls.ConnectionState{ServerName: "example.com"}
		case 2:
			r.TLS = &tls.ConnectionState{ServerName: "other.example"}
		}
		w := &vC19dWriter{hdr: http.Header{}}
		before := len(called)
		nseen := len(seen)
		a.ServeHTTPWithNextHandler(w, r, next)
		// the secret
		vAssert(len(poolKeys) == 1, "the HMAC pool is created once per server")
		vAssert(len(poolKeys[0]) >= 32, "the HMAC key is never empty or short")
		vAssert(string(poolKeys[0]) == string(a.HmacKey), "the HMAC pool is keyed with the server's own secret")
		if configured {
			vAssert(randCalls == 0 && string(a.HmacKey) == "configured-secret-configured-key", "a configured secret is used as it is")
		} else {
			vAssert(randCalls == 1, "without a configured secret one is drawn from the random source, once per server")
		}
		hostnameOK := (a.NoTLS && a.ValidHostnameFn != nil && hostOK[req]) ||
			(!a.NoTLS && tlsMode == 1 && (a.ValidHostnameFn == nil || hostOK[req]))
		if len(called) > before {
			vCover("handler-ran")
			vAssert(len(called) == before+1, "the handler runs once")
			vAssert(hostnameOK, "the handler runs only for a hostname that passed the TLS / NoTLS / ValidHostnameFn rules")
			vAssert(!parseFail[req] && runErr[req] == 0 && !idErr[req], "the handler runs only after a handshake that parsed, ran and reported a peer ID")
			vAssert(called[before] == peer.ID("client-"+string(rune('0'+req))), "the handler receives exactly the authenticated peer ID")
		} else {
			vCover("handler-not-run")
			vAssert(!(hostnameOK && !parseFail[req] && runErr[req] == 0 && !idErr[req]), "an authenticated request for a valid hostname reaches the handler")
			vAssert(len(w.codes) >= 1 && w.codes[0] != http.StatusOK, "a request that is not authenticated is answered with an error status")
		}
		for _, h := range seen[nseen:] {
			vAssert(h.Hostname == "example.com" && h.TokenTTL == 12345 && h.Hmac != nil, "every handshake gets the request's hostname, the server's TokenTTL and an HMAC from the pool")
			vAssert(h.Hmac.(vC19dHash).key == string(a.HmacKey), "the HMAC handed to the handshake is keyed with the server's secret")
		}
		if !hostnameOK {
			vAssert(len(seen) == nseen, "no handshake is attempted for a hostname that failed the rules")
		}
	}
}

var vC19dRunBase int

func seenRunThisReq(runs int) bool { return runs-vC19dRunBase > 1 }
