//go:build verif

//verif:dir p2p/transport/tcpreuse/internal/sampledconn
//verif:obligation C02.c wrappedSampledConn.Read: the 3 peeked bytes are delivered first, in order, never skipped or duplicated, for every split into reads of any size (including 0), then the underlying reader is used and never before
//verif:bound bytesPeeked 0..3 as pre-state, read buffers 0..5 bytes, two consecutive reads
//verif:stub underlying connection = harness stub counting Read calls
//verif:outside WriteTo / SyscallConn fallbacks of the embedded TCP connection, real sockets
package sampledconn

type vC02under struct {
	ManetTCPConnInterface
	reads int
}

func (u *vC02under) Read(b []byte) (int, error) {
	u.reads++
	for i := range b {
		b[i] = 0xEE
	}
	return len(b), nil
}

func VerifC02cSampledRead() {
	u := &vC02under{}
	sc := &wrappedSampledConn{ManetTCPConnInterface: u}
	for i := range sc.peekedBytes {
		sc.peekedBytes[i] = vUint8()
	}
	peeked := sc.peekedBytes
	start := vCase(4)
	sc.bytesPeeked = uint8(start)
	pos := start
	for r := 0; r < 2; r++ {
		b := make([]byte, vCase(6))
		n, err := sc.Read(b)
		vAssert(err == nil, "no-error")
		if pos < 3 {
			want := 3 - pos
			if len(b) < want {
				want = len(b)
			}
			vAssert(n == want && u.reads == 0, "peeked-bytes-come-first-without-touching-the-connection")
			for i := 0; i < n; i++ {
				vAssert(b[i] == peeked[pos+i], "peeked-bytes-in-order-none-skipped-none-repeated")
			}
			pos += n
			vAssert(int(sc.bytesPeeked) == pos, "cursor-advances-by-the-bytes-delivered")
		} else {
			vCover("underlying")
			vAssert(n == len(b) && u.reads > 0, "after-the-peeked-bytes-the-connection-is-read")
		}
	}
}
