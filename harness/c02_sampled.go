//go:build verif

//verif:dir p2p/transport/tcpreuse/internal/sampledconn
//verif:obligation C02.c wrappedSampledConn.Read: the 3 peeked bytes are delivered first, in order, never skipped or duplicated, for every split into reads of any size (including 0), then the underlying reader is used and never before
//verif:bound bytesPeeked 0..3 as pre-state, read buffers 0..5 bytes, two consecutive reads
//verif:stub underlying connection = harness stub counting Read calls
//verif:obligation C02.c' reading the sampled connection through io.Copy (which prefers the connection's io.WriterTo): for every number 0..3 of peeked bytes already consumed, the copy delivers the remaining peeked bytes first and then the wire - nothing is skipped
//verif:obligation C02.c'' a copy whose destination accepts 0..2 bytes and then fails (short write with an error), after which the caller keeps reading the connection: every peeked byte is delivered exactly once across the two ways of reading, in order, and the wire follows
//verif:outside the SyscallConn fallback of the embedded TCP connection (documented as a footgun in the source), real sockets
package sampledconn

import "io"

type vC02under struct {
	ManetTCPConnInterface
	reads int
}

func (u *vC02under) Read(b []byte) (int, error) {
	u.reads++
	for i := range b {
		b[i] = 0xEE
	}
	return len(b), nil
}

func VerifC02cSampledRead() {
	u := &vC02under{}
	sc := &wrappedSampledConn{ManetTCPConnInterface: u}
	for i := range sc.peekedBytes {
		sc.peekedBytes[i] = vUint8()
	}
	peeked := sc.peekedBytes
	start := vCase(4)
	sc.bytesPeeked = uint8(start)
	pos := start
	for r := 0; r < 2; r++ {
		b := make([]byte, vCase(6))
		n, err := sc.Read(b)
		vAssert(err == nil, "no-error")
		if pos < 3 {
			want := 3 - pos
			if len(b) < want {
				want = len(b)
			}
			vAssert(n == want && u.reads == 0, "peeked-bytes-come-first-without-touching-the-connection")
			for i := 0; i < n; i++ {
				vAssert(b[i] == peeked[pos+i], "peeked-bytes-in-order-none-skipped-none-repeated")
			}
			pos += n
			vAssert(int(sc.bytesPeeked) == pos, "cursor-advances-by-the-bytes-delivered")
		} else {
			vCover("underlying")
			vAssert(n == len(b) && u.reads > 0, "after-the-peeked-bytes-the-connection-is-read")
		}
	}
}

// ---- the other way to read a connection: io.Copy / io.WriterTo ----

func (u *vC02under) WriteTo(w io.Writer) (int64, error) {
	n, err := w.Write([]byte{0xEE, 0xEE, 0xEE, 0xEE}) // what is left on the wire
	return int64(n), err
}

type vC02sink struct{ got []byte }

func (s *vC02sink) Write(b []byte) (int, error) { s.got = append(s.got, b...); return len(b), nil }

func VerifC02cSampledCopy() {
	u := &vC02under{}
	sc := &wrappedSampledConn{ManetTCPConnInterface: u}
	for i := range sc.peekedBytes {
		sc.peekedBytes[i] = vUint8()
	}
	peeked := sc.peekedBytes
	start := vCase(4) // bytes already consumed through Read
	sc.bytesPeeked = uint8(start)
	sink := &vC02sink{}
	n, err := io.Copy(sink, sc) // uses the connection's WriterTo if it has one, Read otherwise
	vAssert(err == nil, "copy succeeds")
	want := 3 - start + 4
	vAssert(int(n) == want && len(sink.got) == want, "a copy out of the connection delivers every byte not yet read: the rest of the peeked bytes and then the wire")
	for i := 0; i < 3-start && i < len(sink.got); i++ {
		vAssert(sink.got[i] == peeked[start+i], "the peeked bytes are not skipped by a copy")
	}
	for i := 3 - start; i < len(sink.got); i++ {
		vAssert(sink.got[i] == 0xEE, "then the bytes from the wire follow")
	}
}

// a destination that accepts some bytes of a write and then fails
type vC02faultySink struct {
	got    []byte
	accept int // bytes still accepted before the failure
}

func (s *vC02faultySink) Write(b []byte) (int, error) {
	if len(b) <= s.accept {
		s.got = append(s.got, b...)
		s.accept -= len(b)
		return len(b), nil
	}
	n := s.accept
	s.got = append(s.got, b[:n]...)
	s.accept = 0
	return n, io.ErrShortWrite
}

// C02.c”: a copy that fails inside the peeked bytes, then the caller goes on reading the connection
func VerifC02cSampledCopyFault() {
	u := &vC02under{}
	sc := &wrappedSampledConn{ManetTCPConnInterface: u}
	for i := range sc.peekedBytes {
		sc.peekedBytes[i] = vUint8()
	}
	peeked := sc.peekedBytes
	start := vCase(4)
	sc.bytesPeeked = uint8(start)
	sink := &vC02faultySink{accept: vCase(3)} // 0..2 bytes get through before the destination fails
	n, err := io.Copy(sink, sc)
	if err == nil {
		vCover("destination-failure-not-reached")
		return
	}
	vCover("copy-failed-part-way")
	vAssert(int(n) == len(sink.got), "the copy reports the bytes the destination accepted")
	// what the connection still owes: the peeked bytes not yet handed over, then the wire
	var rest []byte
	for r := 0; r < 2; r++ {
		b := make([]byte, 3)
		k, rerr := sc.Read(b)
		vAssert(rerr == nil, "reading on works")
		rest = append(rest, b[:k]...)
	}
	all := append(append([]byte{}, sink.got...), rest...)
	for i := 0; i < 3-start; i++ {
		vAssert(i < len(all) && all[i] == peeked[start+i], "after a copy that failed part-way every peeked byte is still delivered exactly once, in order (none lost, none repeated)")
	}
	if len(all) > 3-start {
		vAssert(all[3-start] == 0xEE, "and the wire follows right after the last peeked byte")
	}
}
