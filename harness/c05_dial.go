//go:build verif

//verif:dir p2p/net/swarm
//verif:shard VerifC05aLimiterHistory 12
//verif:obligation C05.a dial limiter on every history of 3 (thorough 4) dial jobs for 2 peers (symbolic fd consumption, fd limit and per-peer limit in 1..2) that are finished or cancelled in every order, optionally after the worker of one peer has exited (clearAllPeerDials) with dials still in flight: at every quiescent point the fd counter equals the number of running fd-consuming dials and never exceeds the fd limit, a peer's counter equals its running dials plus its jobs queued for an fd token and its running dials never exceed the per-peer limit; every job that was not cancelled is dialed exactly once and answered exactly once; once every job has finished no token, counter or waiter remains
//verif:obligation C05.b dial queue: Add keeps the queue sorted by delay and the multiset of entries, UpdateOrAdd leaves an address exactly once with its new delay, NextBatch returns exactly the entries of minimal delay and removes them (queues of <= 4 entries, symbolic delays)
//verif:bound 3 (4) jobs, limits 1..2; <= 4 queue entries; 2 callers; cooperative schedule (goroutines switch at blocking points), timers fire only when idle
//verif:stub dialFunc = harness stub blocking until released; addresses are real multiaddrs of a symbolic kind per job (TCP: takes an fd token; QUIC: none; the first job may also be a circuit through a TCP relay: none at this limiter) so the real shouldConsumeFd / isFdConsumingAddr decide on both the take and the release side; the dial worker is a harness stub in C05.e
//verif:outside the worker loop's pacing and result dispatch (planned C05.f), completion orders under real preemption, back-off and black-hole filtering, ranking delays
package swarm

import (
	"context"
	"errors"
	"time"

	"github.com/libp2p/go-libp2p/core/network"
	"github.com/libp2p/go-libp2p/core/peer"
	"github.com/libp2p/go-libp2p/core/transport"
	ma "github.com/multiformats/go-multiaddr"
)

var vC05addrs = []ma.Multiaddr{ma.StringCast("/ip4/1.1.1.1/tcp/1"), ma.StringCast("/ip4/1.1.1.2/tcp/1"), ma.StringCast("/ip4/1.1.1.3/tcp/1"), ma.StringCast("/ip4/1.1.1.4/tcp/1")}
var vC05peers = []peer.ID{"peerA", "peerA", "peerB", "peerB"}

// real multiaddrs (parsed once, by the real parser): [kind][job] with kind 0 = TCP, 1 = QUIC, 2 = circuit through a TCP relay
var vC05real = vC05parseAll()

func vC05parseAll() [][]ma.Multiaddr {
	out := make([][]ma.Multiaddr, 3)
	for i := 0; i < 4; i++ {
		for k, text := range []string{"/ip4/1.1.1." + string(rune('1'+i)) + "/tcp/1", "/ip4/1.1.1." + string(rune('1'+i)) + "/udp/1/quic-v1", "/ip4/9.9.9.9/tcp/1/p2p/QmYyQSo1c1Ym7orWxLYvCrM2EmxFTANf8wXmmE7DWjhx5N/p2p-circuit"} {
			a, err := ma.NewMultiaddr(text)
			if err != nil {
				panic(err)
			}
			out[k] = append(out[k], a)
		}
	}
	return out
}

type vC05job struct {
	dj       *dialJob
	cancel   context.CancelFunc
	release  chan struct{}
	fd       bool
	entered  int
	running  bool
	released bool
	canceled bool
}

func VerifC05aLimiterHistory() {
	n := 3 + vTier()
	perm := vCase(6 * 2) // split: completion order of the first three jobs x cancel flag of the first
	jobs := make([]*vC05job, n)
	addrs := make([]ma.Multiaddr, n)
	fds := make([]bool, n)
	for i := 0; i < n; i++ {
		kinds := 2
		if i == 0 {
			kinds = 3
		}
		switch vCase(kinds) {
		case 0:
			addrs[i], fds[i] = vC05real[0][i], true
		case 1:
			addrs[i] = vC05real[1][i]
		default:
			addrs[i] = vC05real[2][0]
			vCover("circuit-through-a-tcp-relay")
		}
	}
	df := func(ctx context.Context, p peer.ID, a ma.Multiaddr, upd chan<- transport.DialUpdate) (transport.CapableConn, error) {
		var me *vC05job
		for i, j := range jobs {
			if addrs[i].Equal(a) {
				me = j
			}
		}
		me.entered++
		me.running = true
		<-me.release
		me.running = false
		return nil, errors.New("dial failed")
	}
	dl := newDialLimiterWithParams(df, 1+vCase(2), 1+vCase(2))
	for i := 0; i < n; i++ {
		ctx, cancel := context.WithCancel(context.Background())
		jobs[i] = &vC05job{cancel: cancel, release: make(chan struct{}), fd: fds[i]}
		jobs[i].dj = &dialJob{addr: addrs[i], peer: vC05peers[i], ctx: ctx, resp: make(chan transport.DialUpdate, 4), timeout: time.Minute}
	}
	settle := func() {
		for i := 0; i < 30; i++ {
			vYield()
		}
	}
	check := func(where string) {
		dl.lk.Lock()
		defer dl.lk.Unlock()
		runFd := 0
		perPeer := map[peer.ID]int{}
		for _, j := range jobs {
			if j.running {
				perPeer[j.dj.peer]++
				if j.fd {
					runFd++
				}
			}
		}
		vAssert(dl.fdConsuming == runFd && runFd <= dl.fdLimit, "fd tokens equal the running fd-consuming dials and never exceed the fd limit")
		for _, p := range []peer.ID{"peerA", "peerB"} {
			queued := 0
			for _, w := range dl.waitingOnFd {
				if w.peer == p {
					queued++
				}
			}
			vAssert(perPeer[p] <= dl.perPeerLimit, "a peer's running dials never exceed the per-peer limit")
			vAssert(dl.activePerPeer[p] == perPeer[p]+queued, "a peer's tokens equal its running dials plus its jobs queued for an fd token")
		}
	}
	for i := 0; i < n; i++ {
		dl.AddDialJob(jobs[i].dj)
		if i == 1 && vBool() {
			// every caller gives up in the window between the limiter handing the job its tokens and the
			// job's goroutine starting (or while it still waits for a token)
			jobs[i].cancel()
			jobs[i].canceled = true
			vCover("cancelled-before-start")
		}
		settle()
		check("after-add")
	}
	if vBool() {
		// every caller for peerA has gone: its worker cancels the shared attempt and exits while dials may
		// still be inside a transport
		for i := 0; i < n; i++ {
			if vC05peers[i] == "peerA" && !jobs[i].canceled {
				jobs[i].cancel()
				jobs[i].canceled = true
			}
		}
		dl.clearAllPeerDials("peerA")
		settle()
		check("after-worker-exit")
		vCover("worker-exited-with-dials-in-flight")
	}
	orders := [][]int{{0, 1, 2}, {0, 2, 1}, {1, 0, 2}, {1, 2, 0}, {2, 0, 1}, {2, 1, 0}}
	order := append([]int{}, orders[perm%6]...)
	if n == 4 {
		pos := vCase(4)
		order = append(order[:pos], append([]int{3}, order[pos:]...)...)
	}
	for k, i := range order {
		j := jobs[i]
		cancelIt := vBool()
		if k == 0 {
			cancelIt = perm/6 == 1
		}
		if cancelIt {
			j.cancel() // every caller interested in this address gave up
			j.canceled = true
			vCover("cancelled-job")
		}
		close(j.release)
		j.released = true
		settle()
		check("after-finish")
	}
	settle()
	dl.lk.Lock()
	vAssert(dl.fdConsuming == 0, "once every job has finished no fd token remains")
	vAssert(len(dl.activePerPeer) == 0, "once every job has finished no per-peer token remains")
	vAssert(len(dl.waitingOnFd) == 0 && len(dl.waitingOnPeerLimit) == 0, "once every job has finished no waiter remains")
	dl.lk.Unlock()
	for _, j := range jobs {
		vAssert(j.entered <= 1, "an address is handed to a transport at most once")
		if !j.canceled {
			vAssert(j.entered == 1 && len(j.dj.resp) == 1, "a job that was not cancelled is dialed and answered exactly once")
		} else {
			vAssert(len(j.dj.resp) <= 1, "no job is answered twice")
		}
	}
}

// ---- C05.b ----

func VerifC05bDialQueue() {
	n := vCase(4)
	dq := newDialQueue()
	delays := make([]time.Duration, 4)
	prev := 0
	for i := 0; i < n; i++ {
		d := prev + vRange(0, 1000)
		prev = d
		delays[i] = time.Duration(d)
		dq.q = append(dq.q, network.AddrDelay{Addr: vC05addrs[i], Delay: delays[i]})
	}
	sorted := func() bool {
		ok := true
		for i := 1; i < dq.Len(); i++ {
			ok = vAnd(ok, dq.q[i-1].Delay <= dq.q[i].Delay)
		}
		return ok
	}
	count := func(a ma.Multiaddr) int {
		c := 0
		for _, e := range dq.q {
			if e.Addr.Equal(a) {
				c++
			}
		}
		return c
	}
	switch vCase(3) {
	case 0:
		d := time.Duration(vRange(0, 4000))
		dq.Add(network.AddrDelay{Addr: vC05addrs[n], Delay: d})
		vAssert(dq.Len() == n+1 && sorted(), "Add keeps the queue sorted")
		for i := 0; i <= n; i++ {
			vAssert(count(vC05addrs[i]) == 1, "Add keeps every entry exactly once")
		}
	case 1:
		k := vCase(4)
		d := time.Duration(vRange(0, 4000))
		dq.UpdateOrAdd(network.AddrDelay{Addr: vC05addrs[k], Delay: d})
		vAssert(sorted(), "UpdateOrAdd keeps the queue sorted")
		vAssert(count(vC05addrs[k]) == 1, "UpdateOrAdd leaves the address exactly once")
		for _, e := range dq.q {
			if e.Addr.Equal(vC05addrs[k]) {
				vAssert(e.Delay == d, "with its new delay")
			}
		}
		want := n
		if k >= n {
			want = n + 1
		}
		vAssert(dq.Len() == want, "and touches nothing else")
	case 2:
		b := dq.NextBatch()
		if n == 0 {
			vAssert(b == nil, "empty queue, empty batch")
			return
		}
		vCover("batch")
		for _, e := range b {
			vAssert(e.Delay == delays[0], "the batch holds entries of minimal delay")
		}
		for _, e := range dq.q {
			vAssert(e.Delay != delays[0], "every entry of minimal delay is in the batch")
		}
		vAssert(len(b)+dq.Len() == n && sorted(), "nothing is lost and the rest stays sorted")
	}
}
