//go:build verif

//verif:dir p2p/net/swarm
//verif:replace github.com/libp2p/go-libp2p/p2p/net/swarm.isProtocolAddr vC20isProtocolAddr
//verif:replace github.com/multiformats/go-multiaddr/net.IsPublicAddr vC20isPublicAddr
//verif:obligation C20.a inductive step of BlackHoleSuccessCounter.RecordResult / HandleRequest from an arbitrary state satisfying the representation invariant (window length <= N, successes == #true, state == f(window), requests >= 0); init establishes the invariant
//verif:obligation C20.b probe cadence: from any Blocked state, N consecutive HandleRequest calls return Probing exactly once
//verif:obligation C20.c blackHoleDetector.FilterAddrs over <= 3 addresses with symbolic public/UDP/IPv6 classification, both counters in arbitrary invariant states, read-only symbolic
//verif:bound window size N in 1..6 (quick) / 1..10 (thorough), all MinSuccesses (any int), requests in [0, 2^62]
//verif:bound FilterAddrs: 1..2 addresses (thorough 1..3), counters with N in 1..2 (thorough 1..3), any state/requests (not only reachable ones)
//verif:stub multiaddrs are opaque atoms in the symbolic run; isProtocolAddr / manet.IsPublicAddr answer from symbolic per-address flags (classification is an input, not verified); natively the addresses are real multiaddrs built to have exactly those classes and the real classifiers run
//verif:outside requests >= 2^62 (counter overflow), N > 10, N <= 0 (misconfiguration: HandleRequest divides by N), real multiaddr classification code, metrics tracer
//verif:assume BlackHoleSuccessCounter.N >= 1
package swarm

import (
	"fmt"

	ma "github.com/multiformats/go-multiaddr"
)

func vC20maxN() int {
	if vTier() > 0 {
		return 10
	}
	return 6
}

// representation invariant, built without forking (one term)
func vInvBH(b *BlackHoleSuccessCounter) bool {
	n := 0
	for _, r := range b.dialResults {
		n += vB2I(r)
	}
	ok := vAnd(len(b.dialResults) <= b.N, b.successes == n)
	ok = vAnd(ok, b.requests >= 0)
	full := len(b.dialResults) >= b.N
	want := vIte(full, vIte(b.successes >= b.MinSuccesses, int(blackHoleStateAllowed), int(blackHoleStateBlocked)), int(blackHoleStateProbing))
	return vAnd(ok, int(b.state) == want)
}

func vArbitraryBH(maxN int) *BlackHoleSuccessCounter {
	N := 1 + vCase(maxN)
	b := &BlackHoleSuccessCounter{N: N, MinSuccesses: vInt(), requests: vRange(0, 1<<62),
		successes: vRange(0, 64), state: BlackHoleState(vRange(0, 2))}
	b.dialResults = vBoolSlice(vCase(N + 1))
	vAssume(vInvBH(b))
	return b
}

func VerifC20aInit() {
	b := &BlackHoleSuccessCounter{N: 1 + vCase(vC20maxN()), MinSuccesses: vInt()}
	vAssert(vInvBH(b), "inv-init")
	vAssert(b.state == blackHoleStateProbing, "starts-probing")
}

func VerifC20aRecordResult() {
	b := vArbitraryBH(vC20maxN())
	wasBlocked := b.state == blackHoleStateBlocked
	req0 := b.requests
	ok := vBool()
	b.RecordResult(ok)
	vAssert(vInvBH(b), "inv-preserved")
	if wasBlocked && ok {
		vCover("reset")
		vAssert(b.state == blackHoleStateProbing && len(b.dialResults) == 0 && b.requests == 0, "success-clears")
	} else {
		vAssert(b.requests == req0, "requests-untouched")
	}
	if b.state == blackHoleStateBlocked {
		vCover("blocked")
		vAssert(len(b.dialResults) == b.N && b.successes < b.MinSuccesses, "blocked-only-after-full-window-below-threshold")
	}
}

func VerifC20aHandleRequest() {
	b := vArbitraryBH(vC20maxN())
	st0, req0 := b.state, b.requests
	r := b.HandleRequest()
	vAssert(vInvBH(b), "inv-preserved")
	vAssert(b.requests == req0+1 && b.state == st0, "only-requests-changes")
	if st0 == blackHoleStateAllowed {
		vAssert(r == blackHoleStateAllowed, "allowed")
	} else if st0 == blackHoleStateProbing {
		vAssert(r == blackHoleStateProbing, "probing")
	} else {
		vCover("blocked")
		vAssert((r == blackHoleStateProbing) == (b.requests%b.N == 0), "probe-cadence")
		vAssert(r == blackHoleStateProbing || r == blackHoleStateBlocked, "blocked-or-probe")
	}
}

// C20.b: N consecutive requests while blocked (no results in between) contain exactly one probe,
// so the detector "lets one request in every window-size requests through".
func VerifC20bProbeCadence() {
	b := vArbitraryBH(vC20maxN())
	vAssume(b.state == blackHoleStateBlocked)
	probes := 0
	for i := 0; i < b.N; i++ {
		r := b.HandleRequest()
		probes += vB2I(r == blackHoleStateProbing)
		vAssert(r != blackHoleStateAllowed, "never-allowed-while-blocked")
	}
	vCover("window-of-requests")
	vAssert(probes == 1, "exactly-one-probe-per-N-requests")
	// a success reported for the probe clears the block
	b.RecordResult(true)
	vAssert(b.state == blackHoleStateProbing && b.HandleRequest() == blackHoleStateProbing, "probe-success-unblocks")
}

// C20.b': a blocked detector cannot stay blocked forever while results keep failing either: failed
// results never change the cadence (requests is only reset by a success).
func VerifC20bFailuresKeepCadence() {
	b := vArbitraryBH(4 + 2*vTier()) // window sizes up to 4 (thorough 6): every further size doubles the interleavings; 8 ran past an hour
	vAssume(b.state == blackHoleStateBlocked)
	probes := 0
	for i := 0; i < b.N; i++ {
		if vBool() {
			b.RecordResult(false)
			vAssert(b.state == blackHoleStateBlocked, "failure-keeps-blocked")
		}
		r := b.HandleRequest()
		probes += vB2I(r == blackHoleStateProbing)
	}
	vCover("interleaved-failures")
	vAssert(probes == 1, "exactly-one-probe-with-interleaved-failed-results")
}

// address atoms and their symbolic classification (engine) / real multiaddrs of that class (native)
var vC20addrs []ma.Multiaddr
var vC20pub, vC20udp, vC20ip6 []bool

func vC20idx(a ma.Multiaddr) int {
	for i := range vC20addrs {
		if vC20addrs[i].Equal(a) {
			return i
		}
	}
	panic("unknown address atom")
}

func vC20isProtocolAddr(a ma.Multiaddr, p int) bool {
	i := vC20idx(a)
	if p == ma.P_UDP {
		return vC20udp[i]
	}
	if p == ma.P_IP6 {
		return vC20ip6[i]
	}
	return false
}

func vC20isPublicAddr(a ma.Multiaddr) bool { return vC20pub[vC20idx(a)] }

func vC20mkAddr(i int, pub, udp, ip6 bool) ma.Multiaddr {
	if !vNative() {
		return ma.StringCast(fmt.Sprintf("/atom/%d", i))
	}
	ip := "/ip4/192.168.1." + fmt.Sprint(i+1)
	if pub {
		ip = "/ip4/1.2.3." + fmt.Sprint(i+1)
	}
	if ip6 {
		ip = "/ip6/fd00::" + fmt.Sprint(i+1)
		if pub {
			ip = "/ip6/2001:4860::" + fmt.Sprint(i+1)
		}
	}
	if udp {
		return ma.StringCast(ip + "/udp/4001/quic-v1")
	}
	return ma.StringCast(ip + "/tcp/4001")
}

func vC20expect(hasKind bool, readOnly bool, c *BlackHoleSuccessCounter) BlackHoleState {
	if c == nil || !hasKind {
		return blackHoleStateAllowed
	}
	if readOnly {
		if c.state != blackHoleStateAllowed {
			return blackHoleStateBlocked
		}
		return blackHoleStateAllowed
	}
	if c.state == blackHoleStateAllowed {
		return blackHoleStateAllowed
	}
	if c.state == blackHoleStateProbing || (c.requests+1)%c.N == 0 {
		return blackHoleStateProbing
	}
	return blackHoleStateBlocked
}

func VerifC20cFilterAddrs() {
	maxA := 2
	if vTier() > 0 {
		maxA = 3
	}
	n := 1 + vCase(maxA)
	addrs := make([]ma.Multiaddr, n)
	pub, udp, ip6 := vBoolSlice(n), vBoolSlice(n), vBoolSlice(n)
	for i := range addrs {
		addrs[i] = vC20mkAddr(i, pub[i], udp[i], ip6[i])
	}
	vC20addrs, vC20pub, vC20udp, vC20ip6 = addrs, pub, udp, ip6
	// FilterAddrs reads only N, state and requests of a counter: any values are allowed here (a superset
	// of the reachable states), the window itself is irrelevant.
	maxN := 2 + vTier()
	d := &blackHoleDetector{readOnly: vBool()}
	if vBool() {
		d.udp = &BlackHoleSuccessCounter{N: 1 + vCase(maxN), requests: vRange(0, 1<<62), state: BlackHoleState(vRange(0, 2))}
	}
	if vBool() {
		d.ipv6 = &BlackHoleSuccessCounter{N: 1 + vCase(maxN), requests: vRange(0, 1<<62), state: BlackHoleState(vRange(0, 2))}
	}
	hasUDP, hasIP6 := false, false
	for i := range addrs {
		hasUDP = vOr(hasUDP, vAnd(pub[i], udp[i]))
		hasIP6 = vOr(hasIP6, vAnd(pub[i], ip6[i]))
	}
	udpRes := vC20expect(hasUDP, d.readOnly, d.udp)
	ip6Res := vC20expect(hasIP6, d.readOnly, d.ipv6)
	var uReq, uSt, iReq, iSt int
	if d.udp != nil {
		uReq, uSt = d.udp.requests, int(d.udp.state)
	}
	if d.ipv6 != nil {
		iReq, iSt = d.ipv6.requests, int(d.ipv6.state)
	}

	valid, blackHoled := d.FilterAddrs(addrs)

	vAssert(len(valid)+len(blackHoled) == n, "partition-size")
	vi, bi := 0, 0
	for i := range addrs {
		inValid := vi < len(valid) && valid[vi].Equal(addrs[i])
		inBH := bi < len(blackHoled) && blackHoled[bi].Equal(addrs[i])
		if inValid {
			vi++
		} else {
			vAssert(inBH, "every-address-is-kept-or-reported-in-order")
			bi++
			vCover("dropped")
			vAssert(pub[i], "private-address-never-dropped")
			vAssert(vOr(udp[i], ip6[i]), "other-kind-never-dropped")
			blockedU := vAnd(udp[i], udpRes == blackHoleStateBlocked)
			blockedI := vAnd(ip6[i], ip6Res == blackHoleStateBlocked)
			vAssert(vOr(blockedU, blockedI), "dropped-only-when-its-kind-is-blocked")
			vAssert(vNot(vAnd(udp[i], udpRes == blackHoleStateProbing)), "udp-probe-lets-udp-through")
			vAssert(vNot(vAnd(ip6[i], ip6Res == blackHoleStateProbing)), "ip6-probe-lets-ip6-through")
		}
	}
	vAssert(vi == len(valid) && bi == len(blackHoled), "no-extra-addresses")
	if d.readOnly {
		vCover("read-only")
		if d.udp != nil {
			vAssert(d.udp.requests == uReq && int(d.udp.state) == uSt, "read-only-never-changes-udp-state")
		}
		if d.ipv6 != nil {
			vAssert(d.ipv6.requests == iReq && int(d.ipv6.state) == iSt, "read-only-never-changes-ip6-state")
		}
	} else {
		if d.udp != nil {
			vAssert(d.udp.requests == uReq+vB2I(hasUDP) && int(d.udp.state) == uSt, "udp-request-counted-once-iff-public-udp-present")
		}
		if d.ipv6 != nil {
			vAssert(d.ipv6.requests == iReq+vB2I(hasIP6) && int(d.ipv6.state) == iSt, "ip6-request-counted-once-iff-public-ip6-present")
		}
	}
}
