//go:build verif

//verif:dir config
//verif:hook config Config.addTransports
//verif:hook p2p/net/swarm NewSwarm
//verif:hook p2p/net/swarm WithConnectionGater
//verif:hook p2p/net/swarm WithUDPBlackHoleSuccessCounter
//verif:hook p2p/net/swarm WithIPv6BlackHoleSuccessCounter
//verif:hook p2p/net/swarm WithReadOnlyBlackHoleDetector
//verif:hook p2p/net/swarm WithResourceManager
//verif:subst config github.com/libp2p/go-libp2p/core/crypto.GenerateEd25519Key vC10cfgGenKey
//verif:subst config github.com/libp2p/go-libp2p/core/peer.IDFromPublicKey vC10cfgIDFromKey
//verif:also C16
//verif:also C20
//verif:obligation C10.d wiring of the node's swarms (config.makeSwarm and the separate AutoNATv2 dial-back host of config.makeAutoNATV2Host), for every combination of configured / absent connection gater, resource manager and black-hole counters: the swarm is constructed with exactly the configured gater (so InterceptPeerDial / InterceptAddrDial / InterceptSecured are consulted on it), the UDP counter in the UDP slot and the IPv6 counter in the IPv6 slot, the configured resource manager; the dial-back host inherits the main node's gater, resource manager, PSK and both counters - each in its own slot - and is the only one built with the read-only black-hole detector
//verif:bound one Config; gater / resource manager / counters each present or absent (symbolic choice)
//verif:stub key generation and peer-ID derivation substituted by fixed values (the dial-back host's memory peerstore is the real one); addTransports hooked to capture the dial-back configuration and stop; the swarm's option constructors and NewSwarm hooked to record which value lands in which slot
//verif:outside what the swarm does with its options (C10.c, C20.c-e), the fx application graph, transports' own gating (C04.a/b)
package config

import (
	"errors"
	"io"

	"github.com/libp2p/go-libp2p/core/connmgr"
	"github.com/libp2p/go-libp2p/core/crypto"
	pb "github.com/libp2p/go-libp2p/core/crypto/pb"
	"github.com/libp2p/go-libp2p/core/event"
	"github.com/libp2p/go-libp2p/core/network"
	"github.com/libp2p/go-libp2p/core/peer"
	"github.com/libp2p/go-libp2p/core/peerstore"
	"github.com/libp2p/go-libp2p/core/pnet"
	"github.com/libp2p/go-libp2p/p2p/net/swarm"
	"go.uber.org/fx"
)

type vC10cfgPub struct{ crypto.PubKey }

func (vC10cfgPub) Type() pb.KeyType { return pb.KeyType_Ed25519 }

type vC10cfgKey struct{ crypto.PrivKey }

func (vC10cfgKey) Type() pb.KeyType         { return pb.KeyType_Ed25519 }
func (vC10cfgKey) GetPublic() crypto.PubKey { return vC10cfgPub{} }

func vC10cfgGenKeyStub(src io.Reader) (crypto.PrivKey, crypto.PubKey, error) {
	return vC10cfgKey{}, vC10cfgPub{}, nil
}

type vC10cfgPs struct{ peerstore.Peerstore }

func (*vC10cfgPs) AddPrivKey(peer.ID, crypto.PrivKey) error { return nil }
func (*vC10cfgPs) AddPubKey(peer.ID, crypto.PubKey) error   { return nil }
func (*vC10cfgPs) Close() error                             { return nil }

func vC10cfgIDFromKeyStub(crypto.PubKey) (peer.ID, error) { return "dialer", nil }

type vC10cfgGater struct{ connmgr.ConnectionGater }
type vC10cfgRcmgr struct{ network.ResourceManager }

// what the swarm constructor was given
type vC10cfgSwarm struct {
	built                   int
	gater                   connmgr.ConnectionGater
	gaterSet, rcmgrSet      bool
	rcmgr                   network.ResourceManager
	udp, ipv6               *swarm.BlackHoleSuccessCounter
	udpSet, ipv6Set, rdOnly bool
}

var vC10cfgRec *vC10cfgSwarm

var errC10cfgStop = errors.New("stop here")

func vC10cfgInstall() func() {
	savedGen, savedID := vC10cfgGenKey, vC10cfgIDFromKey
	vC10cfgGenKey, vC10cfgIDFromKey = vC10cfgGenKeyStub, vC10cfgIDFromKeyStub
	swarm.VerifHook_WithConnectionGater = func(g connmgr.ConnectionGater) swarm.Option {
		return func(*swarm.Swarm) error { vC10cfgRec.gater, vC10cfgRec.gaterSet = g, true; return nil }
	}
	swarm.VerifHook_WithResourceManager = func(m network.ResourceManager) swarm.Option {
		return func(*swarm.Swarm) error { vC10cfgRec.rcmgr, vC10cfgRec.rcmgrSet = m, true; return nil }
	}
	swarm.VerifHook_WithUDPBlackHoleSuccessCounter = func(f *swarm.BlackHoleSuccessCounter) swarm.Option {
		return func(*swarm.Swarm) error { vC10cfgRec.udp, vC10cfgRec.udpSet = f, true; return nil }
	}
	swarm.VerifHook_WithIPv6BlackHoleSuccessCounter = func(f *swarm.BlackHoleSuccessCounter) swarm.Option {
		return func(*swarm.Swarm) error { vC10cfgRec.ipv6, vC10cfgRec.ipv6Set = f, true; return nil }
	}
	swarm.VerifHook_WithReadOnlyBlackHoleDetector = func() swarm.Option {
		return func(*swarm.Swarm) error { vC10cfgRec.rdOnly = true; return nil }
	}
	swarm.VerifHook_NewSwarm = func(local peer.ID, peers peerstore.Peerstore, bus event.Bus, opts ...swarm.Option) (*swarm.Swarm, error) {
		vC10cfgRec.built++
		for _, o := range opts {
			if o != nil {
				o(&swarm.Swarm{}) // options not hooked here set their field on a scratch swarm
			}
		}
		return nil, errC10cfgStop
	}
	return func() {
		vC10cfgGenKey, vC10cfgIDFromKey = savedGen, savedID
		swarm.VerifHook_WithConnectionGater, swarm.VerifHook_WithResourceManager = nil, nil
		swarm.VerifHook_WithUDPBlackHoleSuccessCounter, swarm.VerifHook_WithIPv6BlackHoleSuccessCounter = nil, nil
		swarm.VerifHook_WithReadOnlyBlackHoleDetector, swarm.VerifHook_NewSwarm = nil, nil
		VerifHook_Config_addTransports = nil
	}
}

// a slot holds what was configured; a slot left alone is only acceptable for "nothing configured"
func vC10cfgSlot(set bool, got, want *swarm.BlackHoleSuccessCounter) bool {
	if set {
		return got == want
	}
	return want == nil
}

func VerifC10dSwarmWiring() {
	defer vC10cfgInstall()()
	saved := pnet.ForcePrivateNetwork
	pnet.ForcePrivateNetwork = false
	defer func() { pnet.ForcePrivateNetwork = saved }()
	cfg := &Config{}
	var gater connmgr.ConnectionGater
	var rcmgr network.ResourceManager
	if vBool() {
		gater = &vC10cfgGater{}
		vCover("gater-configured")
	}
	if vBool() {
		rcmgr = &vC10cfgRcmgr{}
	}
	udp := &swarm.BlackHoleSuccessCounter{N: 100, MinSuccesses: 5, Name: "UDP"}
	ipv6 := &swarm.BlackHoleSuccessCounter{N: 100, MinSuccesses: 5, Name: "IPv6"}
	if vBool() {
		udp = nil
		vCover("udp-detection-disabled")
	}
	if vBool() {
		ipv6 = nil
	}
	cfg.ConnectionGater, cfg.ResourceManager = gater, rcmgr
	cfg.UDPBlackHoleSuccessCounter, cfg.IPv6BlackHoleSuccessCounter = udp, ipv6
	cfg.PSK = pnet.PSK("0123456789abcdef0123456789abcdef")
	cfg.PeerKey = vC10cfgKey{}
	cfg.Peerstore = &vC10cfgPs{}

	// the node's own swarm
	vC10cfgRec = &vC10cfgSwarm{}
	_, err := cfg.makeSwarm(nil, false)
	vAssert(err == errC10cfgStop && vC10cfgRec.built == 1, "makeSwarm reaches the swarm constructor")
	main := vC10cfgRec
	vAssert(main.gater == gater && main.gaterSet == (gater != nil), "the node's swarm is built with exactly the configured connection gater")
	vAssert(main.rcmgr == rcmgr && main.rcmgrSet == (rcmgr != nil), "the node's swarm is built with the configured resource manager")
	vAssert(vC10cfgSlot(main.udpSet, main.udp, udp) && vC10cfgSlot(main.ipv6Set, main.ipv6, ipv6), "the UDP counter lands in the UDP slot and the IPv6 counter in the IPv6 slot")
	vAssert(!main.rdOnly, "the node's own swarm updates the black-hole state (not read-only)")

	// the AutoNATv2 dial-back host: capture the configuration it is built from, then build its swarm
	var dial *Config
	VerifHook_Config_addTransports = func(c *Config) ([]fx.Option, error) {
		dial = c
		return nil, errC10cfgStop
	}
	_, err = cfg.makeAutoNATV2Host()
	VerifHook_Config_addTransports = nil
	vAssert(err == errC10cfgStop && dial != nil, "makeAutoNATV2Host reaches the transport set-up of the dial-back host")
	vAssert(dial.ConnectionGater == gater, "the dial-back host inherits the node's connection gater")
	vAssert(string(dial.PSK) == string(cfg.PSK), "the dial-back host stays inside the private network")
	vAssert(dial.Peerstore != nil && dial.Peerstore != cfg.Peerstore && dial.PeerKey != nil, "the dial-back host has its own identity and peerstore")
	dial.Peerstore = &vC10cfgPs{} // the real key book would ask the stub key for its bytes
	vC10cfgRec = &vC10cfgSwarm{}
	_, err = dial.makeSwarm(nil, false)
	d := vC10cfgRec
	vAssert(err == errC10cfgStop && d.built == 1, "the dial-back swarm is constructed")
	vAssert(d.gater == gater && d.gaterSet == (gater != nil), "the dial-back swarm consults the same connection gater")
	vAssert(d.rcmgr == rcmgr, "the dial-back swarm is charged to the same resource manager")
	vAssert(vC10cfgSlot(d.udpSet, d.udp, udp) && vC10cfgSlot(d.ipv6Set, d.ipv6, ipv6), "the dial-back swarm judges UDP addresses by the UDP counter and IPv6 addresses by the IPv6 counter")
	vAssert(d.rdOnly, "the dial-back swarm reads the black-hole state without updating it")
}
