//go:build verif

//verif:dir p2p/net/upgrader
//verif:also C12 VerifC04aUpgrade
//verif:hook p2p/net/upgrader upgrader.setupSecurity
//verif:hook p2p/net/upgrader upgrader.setupMuxer
//verif:hook p2p/net/pnet NewProtectedConn
//verif:obligation C04.a every exit of upgrader.Upgrade (private-network wrapping failure, forced private network without PSK, security failure, gater rejection after the handshake, resource-manager refusal at SetPeer, muxer failure) for both directions, with and without PSK / gater / pre-attached peer scope: on error the connection scope is released exactly once and the raw connection (or a wrapper that closes it) is closed; on success neither happens and the returned transportConn releases the scope exactly once when closed
//verif:obligation C04.b gatedMaListener.Accept: a connection rejected by the gater is closed and opens no scope; a connection refused by the resource manager is closed; the connection handed out is open and carries exactly the scope that was opened for it (up to 3 accepts per call)
//verif:bound one upgrade per run; all stage outcomes symbolic (fault vector); accept loop unwound 3 times
//verif:stub setupSecurity / setupMuxer / pnet.NewProtectedConn replaced through hooks by stages that fail symbolically; manet.Conn, ConnManagementScope, gater, resource manager, muxed conn are harness stub types that count Close / Done
//verif:outside the k-th I/O fault positions inside the real security / muxer negotiation, goroutine termination, accept-queue timeout (C04.c), other transports
package upgrader

import (
	"context"
	"errors"
	"net"

	"github.com/libp2p/go-libp2p/core/connmgr"
	"github.com/libp2p/go-libp2p/core/network"
	"github.com/libp2p/go-libp2p/core/peer"
	ipnet "github.com/libp2p/go-libp2p/core/pnet"
	"github.com/libp2p/go-libp2p/core/protocol"
	"github.com/libp2p/go-libp2p/core/sec"
	"github.com/libp2p/go-libp2p/p2p/net/pnet"
	ma "github.com/multiformats/go-multiaddr"
	manet "github.com/multiformats/go-multiaddr/net"
)

type vC04conn struct {
	manet.Conn
	closed  int
	limited bool // a relayed connection with limits: the transport marks it
}

func (c *vC04conn) Stat() network.ConnStats {
	return network.ConnStats{Stats: network.Stats{Limited: c.limited}}
}

func (c *vC04conn) Close() error                  { c.closed++; return nil }
func (c *vC04conn) RemoteMultiaddr() ma.Multiaddr { return nil }
func (c *vC04conn) LocalMultiaddr() ma.Multiaddr  { return nil }
func (c *vC04conn) RemoteAddr() net.Addr          { return nil }

type vC04pconn struct { // private-network wrapper: closing it closes the raw conn
	net.Conn
	raw *vC04conn
}

func (c *vC04pconn) Close() error         { return c.raw.Close() }
func (c *vC04pconn) RemoteAddr() net.Addr { return nil }

type vC04secConn struct {
	sec.SecureConn
	under net.Conn
	rp    peer.ID
}

func (c *vC04secConn) Close() error                       { return c.under.Close() }
func (c *vC04secConn) RemotePeer() peer.ID                { return c.rp }
func (c *vC04secConn) ConnState() network.ConnectionState { return network.ConnectionState{} }

type vC04muxed struct {
	network.MuxedConn
	under  sec.SecureConn
	closed int
}

func (m *vC04muxed) Close() error                               { m.closed++; return m.under.Close() }
func (m *vC04muxed) CloseWithError(network.ConnErrorCode) error { m.closed++; return m.under.Close() }

type vC04scope struct {
	network.ConnManagementScope
	done     int
	hasPeer  bool
	failPeer bool
	setPeers int
}

func (s *vC04scope) Done() { s.done++ }
func (s *vC04scope) PeerScope() network.PeerScope {
	if s.hasPeer {
		return vC04peerScope{}
	}
	return nil
}
func (s *vC04scope) SetPeer(p peer.ID) error {
	s.setPeers++
	if s.failPeer {
		return errors.New("rcmgr refused")
	}
	s.hasPeer = true
	return nil
}

type vC04peerScope struct{ network.PeerScope }

type vC04gater struct {
	connmgr.ConnectionGater
	allowSecured bool
	accepts      []bool
	n            int
}

func (g *vC04gater) InterceptSecured(network.Direction, peer.ID, network.ConnMultiaddrs) bool {
	return g.allowSecured
}
func (g *vC04gater) InterceptAccept(network.ConnMultiaddrs) bool {
	a := g.accepts[g.n%len(g.accepts)]
	g.n++
	return a
}

func VerifC04aUpgrade() {
	failPnet, failSec, failMux := vBool(), vBool(), vBool()
	force := vBool()
	saved := ipnet.ForcePrivateNetwork
	ipnet.ForcePrivateNetwork = force
	raw := &vC04conn{limited: vBool()}
	pnet.VerifHook_NewProtectedConn = func(psk ipnet.PSK, conn net.Conn) (net.Conn, error) {
		if failPnet {
			return nil, errors.New("pnet")
		}
		return &vC04pconn{raw: raw}, nil
	}
	VerifHook_upgrader_setupSecurity = func(u *upgrader, ctx context.Context, conn net.Conn, p peer.ID, isServer bool) (sec.SecureConn, protocol.ID, error) {
		if failSec {
			return nil, "", errors.New("sec")
		}
		return &vC04secConn{under: conn, rp: "remote"}, "/noise", nil
	}
	var muxed *vC04muxed
	VerifHook_upgrader_setupMuxer = func(u *upgrader, ctx context.Context, conn sec.SecureConn, server bool, scope network.PeerScope) (protocol.ID, network.MuxedConn, error) {
		if failMux {
			return "", nil, errors.New("mux")
		}
		muxed = &vC04muxed{under: conn}
		return "/yamux", muxed, nil
	}
	defer func() {
		pnet.VerifHook_NewProtectedConn, VerifHook_upgrader_setupSecurity, VerifHook_upgrader_setupMuxer = nil, nil, nil
		ipnet.ForcePrivateNetwork = saved
	}()
	u := &upgrader{}
	if vBool() {
		u.psk = ipnet.PSK{1}
	}
	if vBool() {
		u.connGater = &vC04gater{allowSecured: vBool()}
	}
	sc := &vC04scope{hasPeer: vBool(), failPeer: vBool()}
	dir := network.DirInbound
	p := peer.ID("")
	if vBool() {
		dir = network.DirOutbound
		p = "remote" // an outbound upgrade without a peer ID is API misuse (ErrNilPeer): assumed away
	}
	c, err := u.Upgrade(context.Background(), nil, raw, dir, p, sc)
	if err != nil {
		vCover("error")
		vAssert(c == nil, "no-conn-on-error")
		vAssert(sc.done == 1, "failed upgrade releases the connection scope exactly once")
		vAssert(raw.closed >= 1, "failed upgrade closes the raw connection")
		return
	}
	vCover("ok")
	vAssert(sc.done == 0 && raw.closed == 0, "successful upgrade keeps scope and connection")
	vAssert(sc.hasPeer, "admitted connection is attached to a peer scope")
	tc := c.(*transportConn)
	vAssert(tc.scope == network.ConnManagementScope(sc), "the returned connection owns exactly this scope")
	vAssert(tc.Stat().Limited == raw.limited, "the upgraded connection carries the Limited mark of the connection it was built on - also inside a private network - so a limited relayed connection is never taken for a full one")
	if vBool() {
		tc.Close()
	} else {
		tc.CloseWithError(1)
	}
	vAssert(sc.done == 1 && raw.closed >= 1 && muxed.closed == 1, "closing the upgraded connection releases the scope once and closes the raw connection")
}

// ---- C04.b ----

type vC04listener struct {
	manet.Listener
	conns []*vC04conn
	n     int
}

func (l *vC04listener) Accept() (manet.Conn, error) {
	if l.n >= len(l.conns) {
		return nil, errors.New("listener closed")
	}
	c := l.conns[l.n]
	l.n++
	return c, nil
}

type vC04rcmgr struct {
	network.ResourceManager
	admits []bool
	n      int
	scopes []*vC04scope
}

func (r *vC04rcmgr) OpenConnection(dir network.Direction, usefd bool, endpoint ma.Multiaddr) (network.ConnManagementScope, error) {
	a := r.admits[r.n%len(r.admits)]
	r.n++
	if !a || dir != network.DirInbound {
		return nil, errors.New("refused")
	}
	s := &vC04scope{}
	r.scopes = append(r.scopes, s)
	return s, nil
}

func VerifC04bGatedAccept() {
	l := &vC04listener{conns: []*vC04conn{{}, {}, {}}}
	g := &vC04gater{accepts: vBoolSlice(3)}
	r := &vC04rcmgr{admits: vBoolSlice(3)}
	gl := &gatedMaListener{Listener: l, rcmgr: r}
	withGater := vBool()
	if withGater {
		gl.connGater = g
	}
	conn, scope, err := gl.Accept()
	if err != nil {
		vCover("listener-closed")
		vAssert(conn == nil && scope == nil, "nothing-handed-out-on-error")
		for _, c := range l.conns {
			vAssert(c.closed == 1, "every rejected or refused connection was closed")
		}
		vAssert(len(r.scopes) == 0, "no scope stays open for a connection that was not handed out")
		return
	}
	vCover("accepted")
	k := l.n - 1
	vAssert(conn == manet.Conn(l.conns[k]) && l.conns[k].closed == 0, "the connection handed out is open")
	vAssert(len(r.scopes) == 1 && scope == network.ConnManagementScope(r.scopes[0]) && r.scopes[0].done == 0, "exactly one scope is open and it belongs to the connection handed out")
	for i := 0; i < k; i++ {
		vAssert(l.conns[i].closed == 1, "every rejected or refused connection was closed")
	}
	if withGater {
		vAssert(g.accepts[k], "a connection the gater rejects is never handed out")
	}
}
