//go:build verif

//verif:dir p2p/host/resource-manager
//verif:shard VerifC03gConfiguredLimits 8
//verif:obligation C03.g the limit a scope is created with is the limit the operator configured: for every scope class (system, transient, both allow-listed scopes, service / service-peer / protocol / protocol-peer / peer defaults, conn, stream) and every keyed override (service, service-peer, protocol, protocol-peer, peer), every one of the 8 limit fields and every configured value (a number, "default", "unlimited", "block all"), the Limiter built by PartialLimitConfig.Build + NewFixedLimiter hands out: the number itself, MaxInt for unlimited, 0 for block-all, and for "default" the value of the next level - for a keyed override the base config's entry for that key if it has one, otherwise the CONFIGURED class default (itself resolved against the base class default); a key without override gets the class default
//verif:bound one symbolic field per run in one slot (plus the class default of a keyed slot), all base values symbolic in [0, 2^40]
//verif:outside scaling (AutoScale), JSON (un)marshalling of limit configs
package rcmgr

import (
	"math"

	"github.com/libp2p/go-libp2p/core/network"
	"github.com/libp2p/go-libp2p/core/peer"
	"github.com/libp2p/go-libp2p/core/protocol"
)

func vC03gBase() BaseLimit {
	return BaseLimit{
		Streams: vRange(0, 1<<40), StreamsInbound: vRange(0, 1<<40), StreamsOutbound: vRange(0, 1<<40),
		Conns: vRange(0, 1<<40), ConnsInbound: vRange(0, 1<<40), ConnsOutbound: vRange(0, 1<<40),
		FD: vRange(0, 1<<40), Memory: int64(vRange(0, 1<<40)),
	}
}

func vC03gSet(rl *ResourceLimits, f int, v int) {
	switch f {
	case 0:
		rl.Streams = LimitVal(v)
	case 1:
		rl.StreamsInbound = LimitVal(v)
	case 2:
		rl.StreamsOutbound = LimitVal(v)
	case 3:
		rl.Conns = LimitVal(v)
	case 4:
		rl.ConnsInbound = LimitVal(v)
	case 5:
		rl.ConnsOutbound = LimitVal(v)
	case 6:
		rl.FD = LimitVal(v)
	default:
		rl.Memory = LimitVal64(v)
	}
}

func vC03gBaseField(b BaseLimit, f int) int {
	switch f {
	case 0:
		return b.Streams
	case 1:
		return b.StreamsInbound
	case 2:
		return b.StreamsOutbound
	case 3:
		return b.Conns
	case 4:
		return b.ConnsInbound
	case 5:
		return b.ConnsOutbound
	case 6:
		return b.FD
	}
	return int(b.Memory)
}

func vC03gGet(l Limit, f int) int {
	switch f {
	case 0:
		return l.GetStreamTotalLimit()
	case 1:
		return l.GetStreamLimit(network.DirInbound)
	case 2:
		return l.GetStreamLimit(network.DirOutbound)
	case 3:
		return l.GetConnTotalLimit()
	case 4:
		return l.GetConnLimit(network.DirInbound)
	case 5:
		return l.GetConnLimit(network.DirOutbound)
	case 6:
		return l.GetFDLimit()
	}
	return int(l.GetMemoryLimit())
}

// the statement's reading of a configured value
func vC03gResolve(v int, next int) int {
	switch v {
	case 0:
		return next
	case -1:
		return math.MaxInt
	case -2:
		return 0
	}
	return v
}

func VerifC03gConfiguredLimits() {
	slot := vCase(16)
	f := vCase(8)
	v := vRange(-2, 1<<40)
	const svc, other = "svc", "other"
	var cfg PartialLimitConfig
	var def ConcreteLimitConfig
	def.system, def.transient, def.allowlistedSystem, def.allowlistedTransient = vC03gBase(), vC03gBase(), vC03gBase(), vC03gBase()
	def.serviceDefault, def.servicePeerDefault, def.protocolDefault, def.protocolPeerDefault = vC03gBase(), vC03gBase(), vC03gBase(), vC03gBase()
	def.peerDefault, def.conn, def.stream = vC03gBase(), vC03gBase(), vC03gBase()
	if slot < 11 {
		plain := []*ResourceLimits{&cfg.System, &cfg.Transient, &cfg.AllowlistedSystem, &cfg.AllowlistedTransient, &cfg.ServiceDefault, &cfg.ServicePeerDefault, &cfg.ProtocolDefault, &cfg.ProtocolPeerDefault, &cfg.PeerDefault, &cfg.Conn, &cfg.Stream}
		base := []BaseLimit{def.system, def.transient, def.allowlistedSystem, def.allowlistedTransient, def.serviceDefault, def.servicePeerDefault, def.protocolDefault, def.protocolPeerDefault, def.peerDefault, def.conn, def.stream}
		vC03gSet(plain[slot], f, v)
		lim := NewFixedLimiter(cfg.Build(def))
		got := []Limit{lim.GetSystemLimits(), lim.GetTransientLimits(), lim.GetAllowlistedSystemLimits(), lim.GetAllowlistedTransientLimits(), lim.GetServiceLimits(other), lim.GetServicePeerLimits(other), lim.GetProtocolLimits(other), lim.GetProtocolPeerLimits(other), lim.GetPeerLimits(other), lim.GetConnLimits(), lim.GetStreamLimits("")}
		vAssert(vC03gGet(got[slot], f) == vC03gResolve(v, vC03gBaseField(base[slot], f)), "a scope class gets the configured value (number, unlimited = MaxInt, block-all = 0, default = the base config's value)")
		for g := 0; g < 8; g++ {
			if g != f {
				vAssert(vC03gGet(got[slot], g) == vC03gBaseField(base[slot], g), "fields left at default keep the base config's value")
			}
		}
		return
	}
	// keyed overrides
	k := slot - 11
	w := vRange(-2, 1<<40) // the configured class default for the same field
	var entry, classDef ResourceLimits
	vC03gSet(&entry, f, v)
	vC03gSet(&classDef, f, w)
	baseHasKey := vBool()
	baseEntry := vC03gBase()
	var classBase BaseLimit
	switch k {
	case 0:
		cfg.ServiceDefault, cfg.Service, classBase = classDef, map[string]ResourceLimits{svc: entry}, def.serviceDefault
		if baseHasKey {
			def.service = map[string]BaseLimit{svc: baseEntry}
		}
	case 1:
		cfg.ServicePeerDefault, cfg.ServicePeer, classBase = classDef, map[string]ResourceLimits{svc: entry}, def.servicePeerDefault
		if baseHasKey {
			def.servicePeer = map[string]BaseLimit{svc: baseEntry}
		}
	case 2:
		cfg.ProtocolDefault, cfg.Protocol, classBase = classDef, map[protocol.ID]ResourceLimits{svc: entry}, def.protocolDefault
		if baseHasKey {
			def.protocol = map[protocol.ID]BaseLimit{svc: baseEntry}
		}
	case 3:
		cfg.ProtocolPeerDefault, cfg.ProtocolPeer, classBase = classDef, map[protocol.ID]ResourceLimits{svc: entry}, def.protocolPeerDefault
		if baseHasKey {
			def.protocolPeer = map[protocol.ID]BaseLimit{svc: baseEntry}
		}
	default:
		cfg.PeerDefault, cfg.Peer, classBase = classDef, map[peer.ID]ResourceLimits{svc: entry}, def.peerDefault
		if baseHasKey {
			def.peer = map[peer.ID]BaseLimit{svc: baseEntry}
		}
	}
	lim := NewFixedLimiter(cfg.Build(def))
	var forKey, forOther Limit
	switch k {
	case 0:
		forKey, forOther = lim.GetServiceLimits(svc), lim.GetServiceLimits(other)
	case 1:
		forKey, forOther = lim.GetServicePeerLimits(svc), lim.GetServicePeerLimits(other)
	case 2:
		forKey, forOther = lim.GetProtocolLimits(svc), lim.GetProtocolLimits(other)
	case 3:
		forKey, forOther = lim.GetProtocolPeerLimits(svc), lim.GetProtocolPeerLimits(other)
	default:
		forKey, forOther = lim.GetPeerLimits(svc), lim.GetPeerLimits(other)
	}
	classWant := vC03gResolve(w, vC03gBaseField(classBase, f))
	vAssert(vC03gGet(forOther, f) == classWant, "a key without an override gets the configured class default")
	next := classWant
	if baseHasKey {
		next = vC03gBaseField(baseEntry, f)
		vCover("base-config-has-the-key")
	} else {
		vCover("override-falls-back-to-the-configured-class-default")
	}
	vAssert(vC03gGet(forKey, f) == vC03gResolve(v, next), "a keyed override gets its configured value; its default fields fall back to the base entry for the key, else to the CONFIGURED class default")
}
