//go:build verif

//verif:dir p2p/host/peerstore/pstoremem
//verif:replace github.com/libp2p/go-libp2p/core/peer.SplitAddr vC13eSplitAddr
//verif:obligation C13.e the memory address book under identify's last-disconnect sequence (UpdateAddrs Connected->Temp, AddAddrs of the kept addresses with the recently-connected TTL, UpdateAddrs Temp->0), for 1..3 connected addresses of the peer, 0..2 of them kept, and an address book holding 0..3 unconnected addresses of other peers against a global limit of 2 (so the sequence runs below, at and above the limit): afterwards no address of the peer has an unbounded (connected) lifetime - every remaining one expires within the recently-connected TTL and the peer stops being listed after that - and other peers' addresses are untouched
//verif:bound one peer with <= 3 addresses, <= 3 addresses of other peers, global unconnected-address limit 2
//verif:stub multiaddrs are atoms; harness clock
//verif:outside the datastore-backed book at capacity, concurrent identify exchanges
package pstoremem

import (
	"fmt"
	"time"

	"github.com/libp2p/go-libp2p/core/peer"
	"github.com/libp2p/go-libp2p/core/peerstore"
	ma "github.com/multiformats/go-multiaddr"
)

var vC13eNow time.Time

type vC13eClock struct{}

func (vC13eClock) Now() time.Time { return vC13eNow }

func vC13eSplitAddr(m ma.Multiaddr) (ma.Multiaddr, peer.ID) { return m, "" }

func vC13eAddr(i int) ma.Multiaddr {
	if vNative() {
		return ma.StringCast(fmt.Sprintf("/ip4/10.0.0.%d/tcp/1", i))
	}
	return ma.StringCast(fmt.Sprintf("/atom/%d", i))
}

func VerifC13eDowngradeAtCapacity() {
	vC13eNow = time.Unix(1000, 0)
	mab := &memoryAddrBook{addrs: newPeerAddrs(), signedPeerRecords: make(map[peer.ID]*peerRecordState),
		subManager: NewAddrSubManager(), clock: vC13eClock{}, maxUnconnectedAddrs: 2, maxSignedPeerRecords: 1 << 30}
	others := vCase(4)
	for i := 0; i < others; i++ {
		mab.AddAddrs(peer.ID(fmt.Sprint("other", i)), []ma.Multiaddr{vC13eAddr(100 + i)}, time.Hour)
	}
	before := len(mab.PeersWithAddrs())
	n := 1 + vCase(3)
	var mine []ma.Multiaddr
	for i := 0; i < n; i++ {
		mine = append(mine, vC13eAddr(i))
	}
	const p = peer.ID("peerA")
	mab.AddAddrs(p, mine, peerstore.ConnectedAddrTTL) // identify while connected
	keep := vCase(3)
	if keep > n {
		keep = n
	}
	// netNotifiee.Disconnected, last connection gone:
	mab.UpdateAddrs(p, peerstore.ConnectedAddrTTL, peerstore.TempAddrTTL)
	mab.AddAddrs(p, mine[:keep], peerstore.RecentlyConnectedAddrTTL)
	mab.UpdateAddrs(p, peerstore.TempAddrTTL, 0)
	if others >= 2 {
		vCover("address-book-at-its-limit")
	}
	for _, e := range mab.addrs.Addrs[p] {
		vAssert(!e.IsConnected(), "after the last disconnect no address of the peer keeps the connected (unbounded) lifetime")
		vAssert(!e.Expiry.After(vC13eNow.Add(peerstore.RecentlyConnectedAddrTTL)), "every remaining address expires within the recently-connected lifetime")
	}
	vC13eNow = vC13eNow.Add(peerstore.RecentlyConnectedAddrTTL + time.Second)
	vAssert(len(mab.Addrs(p)) == 0, "once that lifetime has passed the peer has no addresses")
	mab.gc()
	listed := false
	for _, q := range mab.PeersWithAddrs() {
		if q == p {
			listed = true
		}
	}
	vAssert(!listed, "and it is no longer listed")
	vAssert(len(mab.PeersWithAddrs()) == before, "other peers' addresses are untouched")
}
