//go:build verif

//verif:dir p2p/security/noise
//verif:hook p2p/security/noise secureSession.decrypt
//verif:hook p2p/security/noise secureSession.encrypt
//verif:hook p2p/security/noise secureSession.readNextInsecureMsgLen
//verif:hook p2p/security/noise secureSession.readNextMsgInsecure
//verif:obligation C02.a Noise secureSession.Read, one step at full scale: from a state with no queued bytes and a wire carrying one frame of any length 0..65535 built from the ghost plaintext stream, for any read buffer of 0..200000 bytes: on success exactly min(len(buf), chunk) bytes are delivered, equal to the plaintext at that position (symbolic witness index), the remainder is queued intact, exactly one frame is consumed; a frame that fails authentication (or is shorter than a tag) yields an error and no bytes; from a state with a queued remainder (any length, any seek) a read of any size (including 0) delivers the next bytes in order, never skips or repeats, never touches the wire, and releases the queue exactly when it is exhausted; a Read that fails after the length prefix (frame body unreadable: deadline, cut stream) returns no bytes and leaves nothing queued
//verif:obligation C02.b Noise secureSession.Write: for every payload length 0..3*65519+1 the frames written carry a 2-byte big-endian prefix equal to chunk+16, every chunk is <= 65519 bytes, the concatenated chunk bodies equal the payload (witness index), the returned count is the payload length; when the underlying write fails at frame k the returned count is the number of payload bytes of the frames written before it
//verif:bound frame length 0..65535, read buffer 0..200000 bytes, queued remainder up to 65519 bytes, payload up to 196558 bytes (<= 4 frames; unwinding checked), all byte contents symbolic (functional arrays, symbolic witness index)
//verif:stub idealised AEAD through hooks on the session's own encrypt/decrypt: ciphertext = plaintext || 16-byte tag, decrypt fails iff the frame is not authentic (symbolic) or shorter than a tag; the insecure reader is all-or-error (io.ReadFull contract); go-buffer-pool: Get returns arbitrary bytes, Put havocs the buffer (any later read of a returned buffer is unconstrained)
//verif:outside real ChaCha20-Poly1305 (nonce reuse / reordering detection lives in flynn/noise), TLS record layer, yamux, concurrent readers and writers
package noise

import (
	"errors"
	"io"
	"net"
)

var (
	vC02wire     []byte // the insecure wire
	vC02cur      int    // read cursor
	vC02readFail bool
	vC02bodyFail bool // the length prefix arrives, the frame body does not
	vC02auth     bool // is the next frame authentic?
	vC02wireOps  int
)

func vC02readLen(s *secureSession) (int, error) {
	vC02wireOps++
	if vC02readFail {
		return 0, io.ErrUnexpectedEOF
	}
	n := int(vC02wire[vC02cur])<<8 | int(vC02wire[vC02cur+1])
	vC02cur += 2
	return n, nil
}

func vC02readMsg(s *secureSession, buf []byte) error {
	vC02wireOps++
	if vC02readFail || vC02bodyFail {
		return io.ErrUnexpectedEOF
	}
	n := copy(buf, vC02wire[vC02cur:vC02cur+len(buf)])
	vC02cur += n
	return nil
}

// idealised AEAD: authentic frames decrypt to their body (ciphertext = plaintext || 16-byte tag)
func vC02decrypt(s *secureSession, out, ct []byte) ([]byte, error) {
	if len(ct) < 16 || !vC02auth {
		return nil, errors.New("decrypt failed")
	}
	return append(out, ct[:len(ct)-16]...), nil
}

var vC02tag [16]byte

func vC02encrypt(s *secureSession, out, pt []byte) ([]byte, error) {
	out = append(out, pt...)
	return append(out, vC02tag[:]...), nil
}

func vC02install() {
	VerifHook_secureSession_decrypt = vC02decrypt
	VerifHook_secureSession_encrypt = vC02encrypt
	VerifHook_secureSession_readNextInsecureMsgLen = vC02readLen
	VerifHook_secureSession_readNextMsgInsecure = vC02readMsg
	vC02wireOps = 0
}

func vC02remove() {
	VerifHook_secureSession_decrypt, VerifHook_secureSession_encrypt = nil, nil
	VerifHook_secureSession_readNextInsecureMsgLen, VerifHook_secureSession_readNextMsgInsecure = nil, nil
}

// C02.a: one Read step from a state with no queued bytes
func VerifC02aReadFresh() {
	vC02install()
	defer vC02remove()
	P := vBytes(1 << 20)
	c := vRange(0, 1<<19)
	ell := vRange(0, 65535) // frame length on the wire (body + tag)
	w := vRange(0, 1<<19)
	vC02wire = vBytes(1 << 21)
	vC02cur = w
	vC02wire[w] = byte(ell >> 8)
	vC02wire[w+1] = byte(ell)
	k := ell - 16 // plaintext chunk length (if the frame is long enough to carry a tag)
	if k > 0 {
		copy(vC02wire[w+2:w+2+k], P[c:c+k])
	}
	vC02auth = vBool()
	vC02readFail = false
	vC02bodyFail = vBool() // the frame body cannot be read (deadline, cut stream)
	defer func() { vC02bodyFail = false }()
	s := &secureSession{}
	buf := vBytes(vRange(0, 200000))
	n, err := s.Read(buf)
	j := vRange(0, 70000) // witness index
	if err != nil {
		vCover("error")
		vAssert(!vC02auth || ell < 16 || vC02bodyFail, "error-only-if-tampered-or-truncated")
		vAssert(n == 0, "no-bytes-on-error")
		vAssert(s.qbuf == nil, "a failed read leaves nothing queued: a later Read cannot deliver bytes that never authenticated")
		return
	}
	vAssert(vC02auth && ell >= 16 && !vC02bodyFail, "tampered-or-truncated-frame-rejected")
	vAssert(n <= len(buf) && n <= k, "n-bounded")
	if j < n {
		vAssert(buf[j] == P[c+j], "bytes-delivered-in-order-unmodified")
	}
	if s.qbuf != nil {
		vCover("queued")
		vAssert(s.qseek == n && len(s.qbuf) == k, "queue-state")
		vAssert(n == len(buf) || n == k, "buffer-saturated-or-frame-finished")
		if j >= n && j < k {
			vAssert(s.qbuf[j] == P[c+j], "remainder-queued-intact")
		}
	} else {
		vCover("direct")
		vAssert(n == k, "whole-frame-delivered")
	}
	vAssert(vC02cur == w+2+ell, "wire-consumed-exactly-one-frame")
}

// C02.a': one Read step from a state with a queued remainder
func VerifC02aReadQueued() {
	vC02install()
	defer vC02remove()
	L := vRange(1, 65519)
	seek := vRange(0, 65518)
	vAssume(seek < L)
	q := vBytes(L)
	ghost := make([]byte, L) // the queue is returned to the pool when exhausted: compare against a copy
	copy(ghost, q)
	s := &secureSession{qbuf: q, qseek: seek}
	vC02wire = vBytes(16)
	vC02cur = 0
	vC02auth = true
	buf := vBytes(vRange(0, 200000))
	n, err := s.Read(buf)
	j := vRange(0, 70000)
	vAssert(err == nil, "queued-read-cannot-fail")
	rem := L - seek
	want := rem
	if len(buf) < rem {
		want = len(buf)
		vCover("partial")
	} else {
		vCover("exhausted")
	}
	if len(buf) == 0 {
		vCover("zero-length-read")
	}
	vAssert(n == want, "delivers-min(len(buf),remaining)")
	if j < n {
		vAssert(buf[j] == ghost[seek+j], "queued-bytes-in-order-none-skipped-none-repeated")
	}
	vAssert(vC02wireOps == 0 && vC02cur == 0, "queued-read-does-not-touch-the-wire")
	if n == rem {
		vAssert(s.qbuf == nil && s.qseek == 0, "queue-released-when-exhausted")
	} else {
		vAssert(s.qbuf != nil && len(s.qbuf) == L && s.qseek == seek+n, "queue-keeps-the-unread-tail")
	}
}

// C02.b Write
type vC02conn struct {
	net.Conn
	lens   []int
	bodies [][]byte
	failAt int
}

func (c *vC02conn) Write(b []byte) (int, error) {
	if len(c.lens) == c.failAt {
		return 0, errors.New("write failed")
	}
	cp := make([]byte, len(b))
	copy(cp, b)
	c.lens = append(c.lens, len(b))
	c.bodies = append(c.bodies, cp)
	return len(b), nil
}

func VerifC02bWrite() {
	vC02install()
	defer vC02remove()
	total := vRange(0, 3*MaxPlaintextLength+1)
	data := vBytes(total)
	conn := &vC02conn{failAt: vRange(0, 5)}
	s := &secureSession{insecureConn: conn}
	vSetUnwind(8)
	n, err := s.Write(data)
	frames := len(conn.lens)
	j := vRange(0, 3*MaxPlaintextLength+1)
	sum := 0
	for i := 0; i < frames; i++ {
		chunk := conn.lens[i] - 2 - 16
		vAssert(chunk >= 0 && chunk <= MaxPlaintextLength, "every-chunk-within-the-noise-frame-limit")
		vAssert(int(conn.bodies[i][0])<<8|int(conn.bodies[i][1]) == chunk+16, "length-prefix-is-chunk-plus-tag")
		if i < frames-1 || err != nil {
			vAssert(chunk == MaxPlaintextLength, "only-the-last-frame-is-short")
		}
		if j >= sum && j < sum+chunk {
			vAssert(conn.bodies[i][2+j-sum] == data[j], "frame-bodies-are-the-payload-in-order")
		}
		sum += chunk
	}
	if err == nil {
		vCover("written")
		vAssert(n == total && sum == total, "whole-payload-written-exactly-once")
		if total > MaxPlaintextLength {
			vCover("multi-frame")
		}
	} else {
		vCover("write-failed")
		vAssert(n == sum && frames == conn.failAt, "count-equals-payload-bytes-of-the-frames-written")
	}
}
