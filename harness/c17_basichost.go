//go:build verif

//verif:dir p2p/host/basic
//verif:obligation C17.e the host's use of observed addresses (addrsManager.appendObservedAddrs with the real unspecified-address resolution): for a specific and an unspecified listen address and an observed-address manager answering 0..5 addresses per local address in most-observed-first order (whose byte order is the reverse), the host advertises for every local address exactly the first min(3, n) of them in that order - at most three per local address, the most observed - and nothing else
//verif:bound 2 listen addresses (one unspecified, resolved through 1 interface address), 0..5 observed addresses each
//verif:stub ObservedAddrsManager harness stub; multiaddrs are produced by the real parser
//verif:outside how the observed-address manager ranks (C17.a), NAT-type dependent address inference
package basichost

import (
	"fmt"

	"github.com/libp2p/go-libp2p/core/network"
	ma "github.com/multiformats/go-multiaddr"
)

type vC17eObs struct {
	n    map[string]int
	asks []string
}

func vC17eParse(s string) ma.Multiaddr {
	m, err := ma.NewMultiaddr(s)
	if err != nil {
		panic(err)
	}
	return m
}

// the i-th most observed address for local address l: ports descend, so byte order is the reverse of rank
func vC17eAddr(l ma.Multiaddr, i int) ma.Multiaddr {
	tag := 1
	if s := l.String(); len(s) > 5 && s[:6] == "/ip4/0" {
		tag = 2
	} else if len(s) > 12 && s[:13] == "/ip4/192.168." {
		tag = 3
	}
	return vC17eParse(fmt.Sprintf("/ip4/8.8.%d.8/tcp/%d", tag, 9000-i))
}

func (o *vC17eObs) AddrsFor(l ma.Multiaddr) []ma.Multiaddr {
	o.asks = append(o.asks, l.String())
	var r []ma.Multiaddr
	for i := 0; i < o.n[l.String()]; i++ {
		r = append(r, vC17eAddr(l, i))
	}
	return r
}
func (o *vC17eObs) Addrs(minObservers int) []ma.Multiaddr           { return nil }
func (o *vC17eObs) Record(conn network.Conn, observed ma.Multiaddr) {}
func (o *vC17eObs) Start(n network.Network)                         {}
func (o *vC17eObs) Close() error                                    { return nil }

func VerifC17eHostObservedAddrs() {
	specific := vC17eParse("/ip4/10.1.1.1/tcp/4001")
	unspec := vC17eParse("/ip4/0.0.0.0/tcp/4001")
	resolved := vC17eParse("/ip4/192.168.1.5/tcp/4001")
	iface := vC17eParse("/ip4/192.168.1.5")
	obs := &vC17eObs{n: map[string]int{specific.String(): vCase(6), unspec.String(): vCase(6), resolved.String(): vCase(6)}}
	a := &addrsManager{observedAddrsManager: obs}
	pre := vC17eParse("/ip4/1.1.1.1/tcp/1")
	got := a.appendObservedAddrs([]ma.Multiaddr{pre}, []ma.Multiaddr{specific, unspec}, []ma.Multiaddr{iface})
	vAssert(len(got) >= 1 && got[0].Equal(pre), "addresses already collected are kept")
	var want []ma.Multiaddr
	for _, l := range []ma.Multiaddr{specific, unspec, specific, resolved} {
		_ = l
	}
	// expected: per local address, in the order the function visits them, the first min(3, n) most observed
	order := []ma.Multiaddr{specific, unspec}
	for _, l := range obs.asks[2:] { // the resolved forms it asked about
		order = append(order, vC17eParse(l))
	}
	for _, l := range order {
		n := obs.n[l.String()]
		if n > 3 {
			n = 3
			vCover("more-than-three-observed")
		}
		for i := 0; i < n; i++ {
			want = append(want, vC17eAddr(l, i))
		}
	}
	sawResolved := false
	for _, l := range obs.asks {
		if l == resolved.String() {
			sawResolved = true
		}
	}
	vAssert(sawResolved, "the unspecified listen address is also looked up in its resolved form")
	vAssert(len(got)-1 == len(want), "at most three observed addresses per local address, nothing else")
	for i := range want {
		if i+1 < len(got) {
			vAssert(got[i+1].Equal(want[i]), "the advertised observed addresses are the most observed ones, most observed first")
		}
	}
}
