//go:build verif

//verif:dir p2p/security/noise
//verif:subst p2p/security/noise google.golang.org/protobuf/proto.Unmarshal verifProtoUnmarshal
//verif:hook core/crypto UnmarshalPublicKey
//verif:hook core/peer IDFromPublicKey
//verif:hook p2p/security/noise newSecureSession
//verif:obligation C01.a Noise handleRemoteHandshakePayload for every outcome of payload parsing, key unmarshalling, ID derivation and signature verification, with and without an expected peer: it returns nil only if Verify was called under the unmarshalled identity key exactly on "noise-libp2p-static-key:" followed by the remote static key of this session (32 symbolic bytes, witness index) with the payload's signature and answered (true, nil) - an error from Verify is a rejection too; the reported remote ID is the ID of that key; with the peer-ID check enabled it equals the expected ID; on any failure the session's remote identity is left unset
//verif:obligation C01.c peer-ID check flags: Transport.SecureOutbound always checks the remote ID against the dialed peer; Transport.SecureInbound checks iff a peer was named; SessionTransport does the same unless the check was explicitly disabled; the role (initiator / responder) and the expected peer are passed unchanged
//verif:bound one payload per run; remote static key = 32 symbolic bytes
//verif:stub proto.Unmarshal substituted at its call site (symbolic payload content), crypto.UnmarshalPublicKey / peer.IDFromPublicKey hooked, identity key = stub object whose Verify logs its arguments and answers symbolically (idealised signature scheme); newSecureSession hooked for the flag derivation
//verif:outside the Noise XX message processing itself (flynn/noise: DH, AEAD, prologue binding), wire mutation of handshake bytes, the key-type matrix, TLS (certificate chain / extension verification), QUIC / WebTransport / WebRTC wiring
package noise

import (
	"context"
	"errors"
	"net"

	"github.com/libp2p/go-libp2p/core/crypto"
	"github.com/libp2p/go-libp2p/core/peer"
	"github.com/libp2p/go-libp2p/p2p/security/noise/pb"
	"google.golang.org/protobuf/proto"
)

type vC01key struct {
	crypto.PubKey
	ok, fail bool
	calls    int
	msg, sig []byte
}

func (k *vC01key) Verify(msg, sig []byte) (bool, error) {
	k.calls++
	k.msg = append([]byte{}, msg...)
	k.sig = append([]byte{}, sig...)
	if k.fail {
		return false, errors.New("malformed signature")
	}
	return k.ok, nil
}

func VerifC01aRemotePayload() {
	key := &vC01key{ok: vBool(), fail: vBool()}
	parseFail, keyFail, idFail := vBool(), vBool(), vBool()
	saved := verifProtoUnmarshal
	verifProtoUnmarshal = func(b []byte, m proto.Message) error {
		if parseFail {
			return errors.New("bad payload")
		}
		p := m.(*pb.NoiseHandshakePayload)
		p.IdentityKey, p.IdentitySig = []byte("identity-key"), []byte("identity-sig")
		return nil
	}
	crypto.VerifHook_UnmarshalPublicKey = func(b []byte) (crypto.PubKey, error) {
		if keyFail || string(b) != "identity-key" {
			return nil, errors.New("bad key")
		}
		return key, nil
	}
	ids := []peer.ID{"expected-peer", "other-peer"}
	keyID := ids[vCase(2)]
	peer.VerifHook_IDFromPublicKey = func(k crypto.PubKey) (peer.ID, error) {
		if idFail {
			return "", errors.New("no id")
		}
		return keyID, nil
	}
	defer func() {
		verifProtoUnmarshal = saved
		crypto.VerifHook_UnmarshalPublicKey, peer.VerifHook_IDFromPublicKey = nil, nil
	}()
	static := vBytes(32)
	check := vBool()
	s := &secureSession{checkPeerID: check}
	if check || vBool() {
		s.remoteID = "expected-peer"
	}
	before := s.remoteID
	_, err := s.handleRemoteHandshakePayload([]byte("payload"), static)
	if err != nil {
		vCover("rejected")
		vAssert(s.remoteKey == nil && s.remoteID == before, "a rejected handshake payload leaves the session's remote identity untouched")
		return
	}
	vCover("accepted")
	vAssert(!parseFail && !keyFail && !idFail, "accepted only if every decoding step succeeded")
	vAssert(key.calls == 1 && key.ok && !key.fail, "accepted only if the identity signature verified (an error from Verify is a rejection)")
	const prefix = "noise-libp2p-static-key:"
	vAssert(len(key.msg) == len(prefix)+32 && string(key.msg[:len(prefix)]) == prefix, "the signed message is the fixed prefix followed by the static key")
	j := vRange(0, 31)
	vAssert(key.msg[len(prefix)+j] == static[j], "the signature covers exactly this session's remote static key")
	vAssert(string(key.sig) == "identity-sig", "the payload's signature is the one verified")
	vAssert(s.remoteKey == crypto.PubKey(key) && s.remoteID == keyID, "the reported remote peer is the ID of the key that signed the static key")
	if check {
		vAssert(keyID == "expected-peer", "when the local side named the peer it expects, only that peer is accepted")
	}
}

type vC01conn struct{ net.Conn }

func (vC01conn) RemoteAddr() net.Addr { return nil }

func VerifC01cFlags() {
	var gotInitiator, gotCheck bool
	var gotRemote peer.ID
	calls := 0
	VerifHook_newSecureSession = func(t *Transport, ctx context.Context, c net.Conn, remote peer.ID, prologue []byte, i, r EarlyDataHandler, initiator, checkPeerID bool) (*secureSession, error) {
		calls++
		gotInitiator, gotCheck, gotRemote = initiator, checkPeerID, remote
		return &secureSession{}, nil
	}
	defer func() { VerifHook_newSecureSession = nil }()
	t := &Transport{}
	p := peer.ID("")
	if vBool() {
		p = "expected-peer"
	}
	outbound := vBool()
	disabled := false
	if vBool() {
		vCover("session-transport")
		st := &SessionTransport{t: t}
		disabled = vBool()
		st.disablePeerIDCheck = disabled
		if outbound {
			st.SecureOutbound(context.Background(), vC01conn{}, p)
		} else {
			st.SecureInbound(context.Background(), vC01conn{}, p)
		}
	} else {
		if outbound {
			t.SecureOutbound(context.Background(), vC01conn{}, p)
		} else {
			t.SecureInbound(context.Background(), vC01conn{}, p)
		}
	}
	vAssert(calls == 1 && gotInitiator == outbound && gotRemote == p, "role and expected peer are passed on unchanged")
	if outbound {
		vAssert(gotCheck == !disabled, "an outbound handshake always checks the remote ID against the dialed peer (unless explicitly disabled)")
	} else {
		vAssert(gotCheck == (p != "" && !disabled), "an inbound handshake checks the remote ID iff a peer was named (unless explicitly disabled)")
	}
}
