//go:build verif

//verif:dir p2p/host/observedaddrs
//verif:obligation C17.i the addresses reported for sibling listeners of one observed thin waist (observerSet.cacheMultiaddr: observed IP:port + the listener's remaining components), on real multiaddrs whose thin waist is - as the manager produces it - a slice of a longer address with spare capacity: for every order of 3 queries over 2 different remainders (quic-v1, webrtc-direct) every answer, also one handed out earlier, is and stays exactly thin waist + the remainder asked for, and the observed thin waist itself is never modified; so no address nobody observed (a QUIC listener reported as webrtc-direct) is ever reported
//verif:bound one observed address, 2 remainders, 3 queries in every order
//verif:outside eviction from the 10-entry cache
package observedaddrs

import (
	ma "github.com/multiformats/go-multiaddr"
)

var vC17iFull = vC17iParse("/ip4/2.2.2.2/udp/2/quic-v1")
var vC17iRests = []ma.Multiaddr{vC17iParse("/quic-v1"), vC17iParse("/webrtc-direct")}

func vC17iParse(s string) ma.Multiaddr {
	a, err := ma.NewMultiaddr(s)
	if err != nil {
		panic(err)
	}
	return a
}

func VerifC17iSiblingAddrs() {
	full := append(ma.Multiaddr{}, vC17iFull...) // a fresh copy of the observed address ...
	full = append(full[:2:2], full[2])           // ... laid out with one spare slot behind the thin waist, as a parsed address is
	tw := full[:2]                               // its thin waist: a slice of it
	twText := tw.String()
	s := &observerSet{ObservedTWAddr: tw, ObservedBy: map[string]int{"A": 1}}
	var got [3]ma.Multiaddr
	var asked [3]int
	for q := 0; q < 3; q++ {
		asked[q] = vCase(2)
		got[q] = s.cacheMultiaddr(vC17iRests[asked[q]])
	}
	for q := 0; q < 3; q++ {
		want := twText + vC17iRests[asked[q]].String()
		vAssert(got[q].String() == want, "every address handed out is, and stays, the observed thin waist followed by the remainder that was asked for")
	}
	vAssert(s.ObservedTWAddr.String() == twText && len(s.ObservedTWAddr) == 2, "the observed thin waist itself is never modified")
	if asked[0] != asked[1] && asked[2] == asked[0] {
		vCover("a-b-a")
	}
}
