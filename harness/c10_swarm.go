//go:build verif

//verif:dir p2p/net/swarm
//verif:hook p2p/net/swarm Swarm.InterfaceListenAddresses
//verif:hook p2p/net/swarm Swarm.TransportForDialing
//verif:hook p2p/net/swarm blackHoleDetector.FilterAddrs
//verif:hook p2p/net/swarm dialSync.Dial
//verif:hook p2p/net/swarm Swarm.resolveAddrs
//verif:obligation C10.c the gater's outbound call sites in the swarm: Swarm.dialPeer to a peer the gater refuses fails with ErrGaterDisallowedConnection before any dial attempt is started (unless a usable connection already exists); Swarm.filterKnownUndialables, over really parsed multiaddrs, never lets an address the gater refuses (InterceptAddrDial false) through to the dialer and reports it as gated, while an allowed, dialable address is never lost to the gater; the same holds for the candidate list of the real addrsForDial, with and without a demand for a direct connection (force-direct dials are gated like any other); Swarm.addConn consults InterceptUpgraded before the connection becomes visible (C06.c)
//verif:bound one peer, 3 candidate addresses with symbolic gater answers
//verif:stub gater stub with symbolic answers; TransportForDialing / black-hole filter / listen addresses / dialSync.Dial hooked
//verif:outside the inbound call sites (InterceptAccept / InterceptSecured are exercised in the upgrader and the gated listener, C04.a/b), QUIC / WebTransport / WebRTC listeners
package swarm

import (
	"context"
	"errors"
	"time"

	"github.com/libp2p/go-libp2p/core/connmgr"
	"github.com/libp2p/go-libp2p/core/network"
	"github.com/libp2p/go-libp2p/core/peer"
	"github.com/libp2p/go-libp2p/core/peerstore"
	"github.com/libp2p/go-libp2p/core/transport"
	ma "github.com/multiformats/go-multiaddr"
)

type vC10cGater struct {
	connmgr.ConnectionGater
	peerOK bool
	addrOK map[string]bool
	asked  []string
}

func (g *vC10cGater) InterceptPeerDial(p peer.ID) bool { return g.peerOK }
func (g *vC10cGater) InterceptAddrDial(p peer.ID, a ma.Multiaddr) bool {
	g.asked = append(g.asked, a.String())
	return g.addrOK[a.String()]
}

type vC10cTpt struct{ transport.Transport }

func (vC10cTpt) Proxy() bool { return false }

func vC10cParse(s string) ma.Multiaddr {
	m, err := ma.NewMultiaddr(s)
	if err != nil {
		panic(err)
	}
	return m
}

func VerifC10cDialPeerGate() {
	dials := 0
	VerifHook_dialSync_Dial = func(ds *dialSync, ctx context.Context, p peer.ID) (*Conn, error) {
		dials++
		return nil, errors.New("all dials failed")
	}
	defer func() { VerifHook_dialSync_Dial = nil }()
	g := &vC10cGater{peerOK: vBool()}
	s := &Swarm{local: "self", ctx: context.Background()}
	s.conns.m = map[peer.ID][]*Conn{}
	if vBool() {
		s.gater = g
	}
	c, err := s.dialPeer(context.Background(), "peerA")
	vAssert(c == nil && err != nil, "harness: no connection can be made")
	if s.gater != nil && !g.peerOK {
		vCover("peer-gated")
		vAssert(dials == 0, "a dial to a peer the gater refuses starts no dial attempt")
		vAssert(errors.Is(err, ErrGaterDisallowedConnection), "and fails with the gater's error")
	} else {
		vAssert(dials == 1, "an allowed peer is dialed")
	}
}

func VerifC10cAddrGate() {
	texts := []string{"/ip4/1.2.3.4/tcp/4001", "/ip4/5.6.7.8/udp/4001/quic-v1", "/ip6/2001:db8::1/tcp/4001"}
	var addrs []ma.Multiaddr
	g := &vC10cGater{addrOK: map[string]bool{}}
	for _, t := range texts {
		a := vC10cParse(t)
		addrs = append(addrs, a)
		g.addrOK[a.String()] = vBool()
	}
	VerifHook_Swarm_InterfaceListenAddresses = func(s *Swarm) ([]ma.Multiaddr, error) { return nil, nil }
	VerifHook_Swarm_TransportForDialing = func(s *Swarm, a ma.Multiaddr) transport.Transport { return vC10cTpt{} }
	VerifHook_blackHoleDetector_FilterAddrs = func(d *blackHoleDetector, a []ma.Multiaddr) ([]ma.Multiaddr, []ma.Multiaddr) { return a, nil }
	defer func() {
		VerifHook_Swarm_InterfaceListenAddresses, VerifHook_Swarm_TransportForDialing, VerifHook_blackHoleDetector_FilterAddrs = nil, nil, nil
	}()
	s := &Swarm{local: "self"}
	withGater := vBool()
	if withGater {
		s.gater = g
	}
	good, errs := s.filterKnownUndialables("peerA", addrs)
	for _, a := range addrs {
		in := false
		for _, x := range good {
			if x.Equal(a) {
				in = true
			}
		}
		gated := false
		for _, e := range errs {
			if e.Address.Equal(a) && errors.Is(e.Cause, ErrGaterDisallowedConnection) {
				gated = true
			}
		}
		if withGater && !g.addrOK[a.String()] {
			vCover("address-gated")
			vAssert(!in, "an address the gater refuses never reaches the dialer")
			vAssert(gated, "and is reported as refused by the gater")
		} else {
			vAssert(in && !gated, "an allowed, dialable address is not lost")
		}
	}
	vAssert(len(good) <= len(addrs), "nothing is invented")
}

type vC10cPs struct {
	peerstore.Peerstore
	known []ma.Multiaddr
	added []ma.Multiaddr
}

func (p *vC10cPs) Addrs(peer.ID) []ma.Multiaddr { return p.known }
func (p *vC10cPs) AddAddrs(_ peer.ID, a []ma.Multiaddr, _ time.Duration) {
	p.added = append(p.added, a...)
}

func VerifC10cForceDirectGate() {
	texts := []string{"/ip4/1.2.3.4/tcp/4001", "/ip4/5.6.7.8/udp/4001/quic-v1"}
	g := &vC10cGater{addrOK: map[string]bool{}}
	ps := &vC10cPs{}
	for _, t := range texts {
		a := vC10cParse(t)
		ps.known = append(ps.known, a)
		g.addrOK[a.String()] = vBool()
	}
	VerifHook_Swarm_InterfaceListenAddresses = func(s *Swarm) ([]ma.Multiaddr, error) { return nil, nil }
	VerifHook_Swarm_TransportForDialing = func(s *Swarm, a ma.Multiaddr) transport.Transport { return vC10cTpt{} }
	VerifHook_blackHoleDetector_FilterAddrs = func(d *blackHoleDetector, a []ma.Multiaddr) ([]ma.Multiaddr, []ma.Multiaddr) { return a, nil }
	VerifHook_Swarm_resolveAddrs = func(s *Swarm, ctx context.Context, pi peer.AddrInfo) []ma.Multiaddr { return pi.Addrs }
	defer func() {
		VerifHook_Swarm_InterfaceListenAddresses, VerifHook_Swarm_TransportForDialing, VerifHook_blackHoleDetector_FilterAddrs = nil, nil, nil
		VerifHook_Swarm_resolveAddrs = nil
	}()
	s := &Swarm{local: "self", peers: ps, gater: g}
	ctx := context.Background()
	if vBool() {
		ctx = network.WithForceDirectDial(ctx, "verif")
		vCover("force-direct")
	}
	good, _, _ := s.addrsForDial(ctx, "peerA")
	for _, a := range append(append([]ma.Multiaddr{}, good...), ps.added...) {
		vAssert(g.addrOK[a.String()], "a dial - also one that demands a direct connection - is never given an address the gater refuses")
	}
	for _, a := range ps.known {
		if g.addrOK[a.String()] {
			in := false
			for _, x := range good {
				if x.Equal(a) {
					in = true
				}
			}
			vAssert(in, "an allowed address stays a candidate")
		}
	}
}
