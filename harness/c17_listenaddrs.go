//go:build verif

//verif:dir p2p/net/swarm
//verif:subst p2p/net/swarm github.com/multiformats/go-multiaddr/net.ResolveUnspecifiedAddresses verifResolveUnspecified
//verif:obligation C17.g the list of local listen addresses that observations are matched against (Swarm.InterfaceListenAddresses, the source the observed-address manager is built with), one query from every cache state: with the cache invalidated (as adding or closing a listener leaves it) the answer is exactly the addresses of the CURRENT listeners - nothing at all once the last listener is gone, whatever the cache still holds - and the cache is refreshed to that; with a valid cache the cached list is returned
//verif:bound 0..2 listeners, a cache holding 0..1 stale addresses, cache valid or invalidated
//verif:stub manet.ResolveUnspecifiedAddresses substituted by the identity (no unspecified addresses here); listeners are harness stubs
//verif:outside interface enumeration for 0.0.0.0 / :: listeners, the one-minute cache lifetime itself
package swarm

import (
	"time"

	"github.com/libp2p/go-libp2p/core/transport"
	ma "github.com/multiformats/go-multiaddr"
)

type vC17gListener struct {
	transport.Listener
	a ma.Multiaddr
}

func (l *vC17gListener) Multiaddr() ma.Multiaddr { return l.a }

func VerifC17gListenAddrCache() {
	saved := verifResolveUnspecified
	verifResolveUnspecified = func(unspec, iface []ma.Multiaddr) ([]ma.Multiaddr, error) {
		return append([]ma.Multiaddr{}, unspec...), nil
	}
	defer func() { verifResolveUnspecified = saved }()
	la := []ma.Multiaddr{ma.StringCast("/ip4/192.168.1.5/tcp/4001"), ma.StringCast("/ip4/192.168.1.5/udp/4001/quic-v1")}
	stale := ma.StringCast("/ip4/192.168.1.5/tcp/9999")
	s := &Swarm{}
	s.listeners.m = map[transport.Listener]struct{}{}
	n := vCase(3)
	for i := 0; i < n; i++ {
		s.listeners.m[&vC17gListener{a: la[i]}] = struct{}{}
	}
	if vBool() {
		s.listeners.ifaceListenAddres = []ma.Multiaddr{stale} // what an earlier query cached (a listener that is gone)
	}
	valid := vBool()
	if valid {
		s.listeners.cacheEOL = time.Now().Add(time.Hour)
	} // else: the zero time, which is how adding / closing a listener invalidates the cache
	got, err := s.InterfaceListenAddresses()
	vAssert(err == nil, "the query succeeds")
	if valid {
		vCover("cache-valid")
		vAssert(len(got) == len(s.listeners.ifaceListenAddres), "a valid cache is answered from")
		return
	}
	vCover("cache-invalidated")
	if n == 0 {
		vCover("no-listener-left")
	}
	vAssert(len(got) == n, "after the cache was invalidated the answer is exactly the current listeners' addresses - none once the last listener is gone")
	for i := 0; i < n; i++ {
		found := false
		for _, g := range got {
			if g.Equal(la[i]) {
				found = true
			}
		}
		vAssert(found, "every current listener's address is listed")
	}
	vAssert(len(s.listeners.ifaceListenAddres) == n, "the cache is refreshed to the current listeners")
}
