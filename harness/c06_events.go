//go:build verif

//verif:dir p2p/net/swarm
//verif:also C17 -
//verif:hook p2p/net/swarm Conn.start
//verif:shard VerifC06aNotifyPeer 9
//verif:obligation C06.a notifyPeer on every history of <= 4 add/remove events for a peer with an arbitrary connectedness answer (NotConnected / Connected / Limited) per event: two consecutive published states are different, except a NotConnected published for an add event (a connection that vanished before it was announced); after every event the last published state equals the connectedness just observed (nothing published counts as NotConnected) and the remembered state equals it
//verif:obligation C06.b AddConn / RemoveConn on the real emitter (run loop goroutine included) for the three orders removal-after-admission, removal-before-admission (parked) and removal from inside the Connected callback, followed by Close: Connected fires exactly once, Disconnected exactly once, Disconnected never begins before Connected has returned, both maps are empty afterwards, Close returns only after both were delivered, and nothing fires after Close
//verif:obligation C06.c Swarm.removeConn / addConn bookkeeping: exactly the given connection is removed from the peer's list, the order of the others is preserved, an empty list is deleted; addConn on a closed swarm or against a gater refusal closes the transport connection and registers nothing; an admitted connection is listed before Connected fires and its accept loop starts only after
//verif:bound <= 4 events, one connection for the ordering obligation, <= 3 connections in a peer's list; cooperative schedule (goroutines switch at blocking points)
//verif:stub event emitter / gater / transport connection stubs; Conn.start hooked (ghost event)
//verif:outside genuinely concurrent AddConn calls for several connections, Swarm.Close draining, stream delivery ordering, preemptive interleavings inside the atomic sections
package swarm

import (
	"time"

	"github.com/libp2p/go-libp2p/core/connmgr"
	"github.com/libp2p/go-libp2p/core/control"
	ic "github.com/libp2p/go-libp2p/core/crypto"
	"github.com/libp2p/go-libp2p/core/event"
	"github.com/libp2p/go-libp2p/core/network"
	"github.com/libp2p/go-libp2p/core/peer"
	"github.com/libp2p/go-libp2p/core/peerstore"
	"github.com/libp2p/go-libp2p/core/transport"
	ma "github.com/multiformats/go-multiaddr"
)

type vC06emitter struct {
	log []network.Connectedness
}

func (e *vC06emitter) Emit(ev interface{}) error {
	e.log = append(e.log, ev.(event.EvtPeerConnectednessChanged).Connectedness)
	return nil
}
func (e *vC06emitter) Close() error { return nil }

var vC06states = []network.Connectedness{network.NotConnected, network.Connected, network.Limited}

func VerifC06aNotifyPeer() {
	first := vCase(6) // split: first event's type x state
	K := 3 + vTier()
	em := &vC06emitter{}
	var now network.Connectedness
	c := &connectionEventsEmitter{lastConnectednessEvent: map[peer.ID]network.Connectedness{}, emitter: em,
		connectedness: func(peer.ID) network.Connectedness { return now }}
	for i := 0; i < K; i++ {
		t, st := first%2, first/2
		if i > 0 {
			t, st = vCase(2), vCase(3)
		}
		now = vC06states[st]
		before := len(em.log)
		c.notifyPeer(peerConnectednessEvent{PeerID: "peerA", Type: peerConnectednessEventType(t)})
		published := len(em.log) > before
		if published {
			vAssert(len(em.log) == before+1 && em.log[before] == now, "the published state is the observed connectedness")
			if before > 0 && em.log[before-1] == now {
				vCover("repeated-not-connected")
				vAssert(now == network.NotConnected && t == int(addConnEvent), "the same state is never published twice in a row, except NotConnected announcing a connection that vanished before it was announced")
			}
		}
		last := network.NotConnected
		if len(em.log) > 0 {
			last = em.log[len(em.log)-1]
		}
		vAssert(last == now, "the last published event equals the peer's actual connectedness")
		mem, ok := c.lastConnectednessEvent["peerA"]
		if !ok {
			mem = network.NotConnected
		}
		vAssert(mem == now && (ok == (now != network.NotConnected)), "the remembered state equals the last observed one (absent means NotConnected)")
	}
}

// ---- C06.b ----

func VerifC06bExactlyOnce() {
	order := vCase(3)
	var log []string
	inConnected := false
	open := false
	var em *connectionEventsEmitter
	conn := &Conn{conn: &vC06tc{p: "peerA"}}
	onConnected := func(c *Conn) {
		inConnected = true
		log = append(log, "connected-begin")
		if order == 2 {
			for i := 0; i < 10; i++ { // the emitter's loop has announced the connection by now
				vYield()
			}
			open = false        // the swarm unlists the connection, then tells the emitter
			go em.RemoveConn(c) // the connection is closed from inside the handler (asynchronously, as required)
			for i := 0; i < 50; i++ {
				vYield()
			}
		}
		log = append(log, "connected-end")
		inConnected = false
	}
	onDisconnected := func(c *Conn) {
		if inConnected {
			log = append(log, "disconnected-during-connected")
		}
		time.Sleep(30 * time.Millisecond) // a slow handler: Close must wait for it
		log = append(log, "disconnected")
	}
	// what the swarm would answer: the peer is connected exactly while its one connection is listed
	pub := &vC06emitter{}
	em = newConnectionEventsEmitter(func(peer.ID) network.Connectedness {
		if open {
			return network.Connected
		}
		return network.NotConnected
	}, pub, onConnected, onDisconnected)
	switch order {
	case 0:
		open = true
		em.AddConn(conn)
		open = false
		em.RemoveConn(conn)
	case 1:
		// listed and unlisted again before the emitter has announced it
		em.RemoveConn(conn)
		vCover("parked-removal")
		em.AddConn(conn)
	case 2:
		open = true
		em.AddConn(conn)
	}
	em.Close()
	for i := 1; i < len(pub.log); i++ {
		vAssert(pub.log[i] != pub.log[i-1], "the published connectedness never repeats the same state twice in a row")
	}
	last := network.NotConnected
	if len(pub.log) > 0 {
		last = pub.log[len(pub.log)-1]
	}
	vAssert(last == network.NotConnected, "once activity has stopped the last published event equals the peer's actual connectedness (its only connection is gone) - also when the removal was parked behind a running Connected handler")
	nc, nd, bad := 0, 0, 0
	ce, d := -1, -1
	for i, l := range log {
		switch l {
		case "connected-end":
			nc++
			ce = i
		case "disconnected":
			nd++
			d = i
		case "disconnected-during-connected":
			bad++
		}
	}
	vAssert(nc == 1, "Connected is delivered exactly once")
	vAssert(nd == 1, "Disconnected is delivered exactly once and Close returns only after it")
	vAssert(bad == 0 && ce < d, "Disconnected never begins before Connected has returned")
	vAssert(len(em.connected) == 0 && len(em.pendingDisconnect) == 0, "nothing stays tracked")
	n := len(log)
	em.AddConn(conn)
	em.RemoveConn(conn)
	vAssert(len(log) == n, "nothing fires after Close")
}

// ---- C06.c ----

type vC06tpt struct{ transport.Transport }

func (vC06tpt) Proxy() bool { return false }

type vC06tc struct {
	transport.CapableConn
	p      peer.ID
	closes int
}

func (c *vC06tc) IsClosed() bool                             { return c.closes > 0 }
func (c *vC06tc) Transport() transport.Transport             { return vC06tpt{} }
func (c *vC06tc) RemotePeer() peer.ID                        { return c.p }
func (c *vC06tc) RemoteMultiaddr() ma.Multiaddr              { return nil }
func (c *vC06tc) RemotePublicKey() ic.PubKey                 { return nil }
func (c *vC06tc) Close() error                               { c.closes++; return nil }
func (c *vC06tc) CloseWithError(network.ConnErrorCode) error { c.closes++; return nil }

type vC06gater struct {
	connmgr.ConnectionGater
	allow bool
}

func (g *vC06gater) InterceptUpgraded(network.Conn) (bool, control.DisconnectReason) {
	return g.allow, 0
}

type vC06ps struct{ peerstore.Peerstore }

func VerifC06cRemoveConn() {
	s := &Swarm{}
	s.conns.m = map[peer.ID][]*Conn{}
	n := 1 + vCase(3)
	var cs []*Conn
	for i := 0; i < n; i++ {
		c := &Conn{conn: &vC06tc{p: "peerA"}, swarm: s}
		cs = append(cs, c)
		s.conns.m["peerA"] = append(s.conns.m["peerA"], c)
	}
	k := vCase(n + 1) // which one is removed; n = one that is not listed
	victim := &Conn{conn: &vC06tc{p: "peerA"}, swarm: s}
	if k < n {
		victim = cs[k]
	}
	s.removeConn(victim)
	var want []*Conn
	for i, c := range cs {
		if i != k {
			want = append(want, c)
		}
	}
	got := s.conns.m["peerA"]
	vAssert(len(got) == len(want), "exactly the given connection is removed")
	for i := range want {
		vAssert(got[i] == want[i], "the order of the remaining connections is preserved")
	}
	_, present := s.conns.m["peerA"]
	vAssert(present == (len(want) > 0), "a peer without connections is not listed")
}

func VerifC06cAddConn() {
	var log []string
	VerifHook_Conn_start = func(c *Conn) { log = append(log, "accept-loop-started") }
	defer func() { VerifHook_Conn_start = nil }()
	s := &Swarm{peers: vC06ps{}}
	closedSwarm := vBool()
	if !closedSwarm {
		s.conns.m = map[peer.ID][]*Conn{}
	}
	s.directConnNotifs.m = map[peer.ID][]chan struct{}{}
	g := &vC06gater{allow: vBool()}
	if vBool() {
		s.gater = g
	}
	listedAtConnected := false
	s.connectionEventsEmitter = newConnectionEventsEmitter(func(peer.ID) network.Connectedness { return network.Connected }, &vC06emitter{},
		func(c *Conn) {
			listedAtConnected = len(s.conns.m["peerA"]) == 1 && s.conns.m["peerA"][0] == c
			log = append(log, "connected")
		}, func(c *Conn) {})
	tc := &vC06tc{p: "peerA"}
	c, err := s.addConn(tc, network.DirInbound)
	s.connectionEventsEmitter.Close()
	if err != nil {
		vCover("refused")
		vAssert(c == nil && tc.closes >= 1, "a refused connection is closed")
		vAssert(len(s.conns.m["peerA"]) == 0 && len(log) == 0, "a refused connection is not listed and announces nothing")
		vAssert(closedSwarm || (s.gater != nil && !g.allow), "refused only by a closed swarm or the gater")
		return
	}
	vCover("admitted")
	vAssert(len(s.conns.m["peerA"]) == 1 && s.conns.m["peerA"][0] == c && tc.closes == 0, "an admitted connection is listed and open")
	vAssert(len(log) == 2 && log[0] == "connected" && log[1] == "accept-loop-started", "Connected is delivered before the accept loop starts, so no inbound stream precedes it")
	vAssert(listedAtConnected, "the connection is listed before Connected fires")
}
