//go:build verif

//verif:dir p2p/transport/tcpreuse
//verif:hook p2p/transport/tcpreuse identifyConnType
//verif:obligation C04.c shared TCP listener (multiplexedListener.run and its per-connection goroutines, demultiplexedListener.Accept / Close): for 2 incoming connections whose type identification fails, yields a type with or without a registered listener, or yields a connection that cannot carry a scope, with a consumer that accepts 0..2 connections, the 30 s accept timeout expiring for the rest, and the listener closed before or after: every connection the inner listener produced is either handed to exactly one Accept call - open, with its own scope un-released - or it has been closed and its scope released exactly once; when the listener is closed every goroutine has finished
//verif:bound 2 connections, one registered connection type, cooperative schedule, timers fire when everything else is blocked
//verif:stub identifyConnType hooked (symbolic outcome; on error it has closed the connection, as its contract says); inner listener, connections and scopes are counting stubs
//verif:obligation C04.c' identifyConnType itself, for every outcome of setting the deadline, reading the first three bytes (any values) and clearing the deadline: an error return has closed the connection exactly once and hands nothing out (the listener relies on it: it only releases the scope); a success hands the connection on open, also for a prefix no transport recognises
//verif:outside a full accept queue (64 connections in identification at once), the 3-byte peek itself (C02.c), the kernel listener
package tcpreuse

import (
	"context"
	"errors"
	"time"

	"github.com/libp2p/go-libp2p/core/network"
	"github.com/libp2p/go-libp2p/core/transport"
	"github.com/libp2p/go-libp2p/p2p/transport/tcpreuse/internal/sampledconn"
	ma "github.com/multiformats/go-multiaddr"
	manet "github.com/multiformats/go-multiaddr/net"
)

type vC04cConn struct {
	sampledconn.ManetTCPConnInterface
	closed int
}

func (c *vC04cConn) Close() error                  { c.closed++; return nil }
func (c *vC04cConn) RemoteMultiaddr() ma.Multiaddr { return nil }

type vC04cPlain struct { // a wrapper that is not a TCP connection: cannot be paired with a scope
	manet.Conn
	under *vC04cConn
}

func (c *vC04cPlain) Close() error                  { return c.under.Close() }
func (c *vC04cPlain) RemoteMultiaddr() ma.Multiaddr { return nil }

type vC04cScope struct {
	network.ConnManagementScope
	done int
}

func (s *vC04cScope) Done() { s.done++ }

type vC04cInner struct {
	transport.GatedMaListener
	conns  []*vC04cConn
	scopes []*vC04cScope
	i      int
	end    chan struct{}
	closed int
}

func (l *vC04cInner) Accept() (manet.Conn, network.ConnManagementScope, error) {
	if l.i < len(l.conns) && l.closed == 0 {
		i := l.i
		l.i++
		return l.conns[i], l.scopes[i], nil
	}
	<-l.end
	return nil, nil, errors.New("listener closed")
}
func (l *vC04cInner) Close() error {
	l.closed++
	if l.closed == 1 {
		close(l.end)
	}
	return nil
}
func (l *vC04cInner) Multiaddr() ma.Multiaddr { return nil }

func VerifC04cSharedListener() {
	vDeadlockIsViolation()
	inner := &vC04cInner{conns: []*vC04cConn{{}, {}}, scopes: []*vC04cScope{{}, {}}, end: make(chan struct{})}
	outcome := []int{vCase(5), vCase(5)}
	VerifHook_identifyConnType = func(c manet.Conn) (DemultiplexedConnType, manet.Conn, error) {
		raw := c.(*vC04cConn)
		k := 0
		if raw == inner.conns[1] {
			k = 1
		}
		switch outcome[k] {
		case 0:
			raw.Close()
			return 0, nil, errors.New("read timeout while identifying the connection")
		case 1:
			return DemultiplexedConnType_MultistreamSelect, raw, nil
		case 2:
			return DemultiplexedConnType_TLS, raw, nil // nobody listens for TLS
		case 3:
			return DemultiplexedConnType_Unknown, raw, nil
		default:
			return DemultiplexedConnType_MultistreamSelect, &vC04cPlain{under: raw}, nil
		}
	}
	defer func() { VerifHook_identifyConnType = nil }()
	ctx, cancel := context.WithCancel(context.Background())
	ml := &multiplexedListener{GatedMaListener: inner, listeners: make(map[DemultiplexedConnType]*demultiplexedListener), ctx: ctx,
		closeFn: func() error { cancel(); return inner.Close() }}
	dl, err := ml.DemultiplexedListen(DemultiplexedConnType_MultistreamSelect)
	vAssume(err == nil)
	settle := func() {
		for i := 0; i < 40; i++ {
			vYield()
		}
	}
	closeFirst := vBool()
	if closeFirst {
		dl.Close() // the only listener goes away before anything is accepted: the shared listener shuts down
		vCover("closed-before-accepting")
	}
	ml.wg.Add(1)
	go ml.run()
	settle()
	type got struct {
		c manet.Conn
		s network.ConnManagementScope
	}
	var delivered []got
	nAccept := vCase(3)
	for i := 0; i < nAccept; i++ {
		done := false
		go func() {
			c, s, err := dl.Accept()
			if err == nil {
				delivered = append(delivered, got{c, s})
			}
			done = true
		}()
		settle()
		if !done {
			break // nothing (more) to accept: the call stays parked until the listener closes
		}
	}
	if vBool() {
		// nobody accepts for longer than the accept timeout (the native replay does not sit out the 30 s:
		// there the same connections are dropped by the close below)
		vCover("accept-timeout-expired")
		if !vNative() {
			<-time.After(acceptTimeout + time.Second)
		}
	}
	settle()
	if !closeFirst {
		dl.Close()
	}
	settle()
	ml.wg.Wait()
	for i, c := range inner.conns {
		if i >= inner.i {
			vAssert(c.closed == 0 && inner.scopes[i].done == 0, "a connection that was never produced is untouched")
			continue
		}
		n := 0
		for _, g := range delivered {
			if g.c == manet.Conn(c) {
				n++
				vAssert(g.s == network.ConnManagementScope(inner.scopes[i]), "a connection is handed out with its own scope")
			}
		}
		vAssert(n <= 1, "a connection is handed to at most one Accept call")
		if n == 1 {
			vCover("handed-out")
			vAssert(c.closed == 0 && inner.scopes[i].done == 0, "a connection handed to Accept is open and holds its scope")
		} else {
			vCover("dropped")
			vAssert(c.closed >= 1, "a connection that is not handed out is closed")
			vAssert(inner.scopes[i].done == 1, "a connection that is not handed out releases its scope exactly once")
		}
	}
}

// ---- the identification step itself (the contract the check above assumes) ----

type vC04cRaw struct {
	sampledconn.ManetTCPConnInterface
	closed         int
	deadlines      int
	failDeadlineAt int // which SetReadDeadline call fails (0: none)
	readFails      bool
	first          [3]byte
}

func (c *vC04cRaw) Close() error { c.closed++; return nil }
func (c *vC04cRaw) SetReadDeadline(t time.Time) error {
	c.deadlines++
	if c.deadlines == c.failDeadlineAt {
		return errors.New("deadline refused")
	}
	return nil
}
func (c *vC04cRaw) Read(b []byte) (int, error) {
	if c.readFails {
		return 0, errors.New("connection reset")
	}
	return copy(b, c.first[:]), nil
}

func VerifC04cIdentify() {
	c := &vC04cRaw{failDeadlineAt: vCase(3), readFails: vBool()}
	for i := range c.first {
		c.first[i] = vUint8()
	}
	typ, out, err := identifyConnType(c)
	if err != nil {
		vCover("identification-failed")
		vAssert(c.closed == 1, "identifyConnType closes the connection exactly once when it returns an error (its callers only release the scope)")
		vAssert(out == nil, "no connection is handed out with an error")
		return
	}
	vAssert(!c.readFails, "identification succeeds only if the first bytes arrived")
	vAssert(out != nil && c.closed == 0, "an identified connection is handed on open")
	if typ == DemultiplexedConnType_Unknown {
		vCover("unknown-prefix")
	} else {
		vCover("known-prefix")
	}
	want := DemultiplexedConnType_Unknown
	switch {
	case IsMultistreamSelect(c.first):
		want = DemultiplexedConnType_MultistreamSelect
	case IsTLS(c.first):
		want = DemultiplexedConnType_TLS
	case IsHTTP(c.first):
		want = DemultiplexedConnType_HTTP
	}
	vAssert(typ == want, "the reported type follows the prefix matchers")
}
