//go:build verif

//verif:dir p2p/net/swarm
//verif:also C06 VerifC12aBestConn
//verif:hook p2p/net/swarm Swarm.dialPeer
//verif:hook p2p/net/swarm Conn.openAndAddStream
//verif:hook p2p/net/swarm Conn.start
//verif:hook p2p/net/swarm connectionEventsEmitter.AddConn
//verif:shard VerifC12aBestConn 9
//verif:obligation C12.a connection choice over every set of <= 3 connections to a peer with symbolic closed / limited / relayed-transport flags and stream counts: bestConnToPeer never returns a closed connection, returns a limited one only if every open connection is limited, and nil iff none is open; Connectedness is Connected iff an open unlimited connection exists, Limited iff none but an open limited one; under force-direct bestAcceptableConnToPeer never returns a connection over a relay transport
//verif:obligation C12.b Swarm.NewStream / Conn.NewStream: a stream is opened over a limited connection only if the caller allowed limited connections; otherwise the call waits for a direct connection and fails if none appears; with NoDial and no connection it fails with ErrNoConn; a stream reported as opened was opened on the connection chosen
//verif:obligation C12.c waitForDirectConn: a waiter parked behind a limited connection is woken by every direct connection admitted for that peer (also when the limited connection has gone meanwhile and the direct one is the peer's only connection) and then returns that direct connection; without one it gives up at the dial timeout, removes itself from the waiter list and returns an error; it never returns a limited connection; a direct connection admitted exactly while a caller is between looking at the existing connections and registering as a waiter (window held open at Conn.Stat, where waitForDirectConn stops between the two) is not missed: the caller gets it instead of timing out
//verif:bound <= 3 connections per peer, stream counts 0..2, one waiter, one NewStream call (retry loop unwound 3 times)
//verif:stub transport.CapableConn / Transport / resource manager / peerstore stubs; dialPeer, Conn.openAndAddStream, Conn.start and the connection-events emitter hooked; timers fire only when every goroutine is blocked (time passes when nothing else can happen)
//verif:outside waiter wake-up races under real preemption, several concurrent waiters, hole-punch protocol exchange, relay address filtering in addrsForDial
package swarm

import (
	"context"
	"errors"
	"time"

	ic "github.com/libp2p/go-libp2p/core/crypto"
	"github.com/libp2p/go-libp2p/core/network"
	"github.com/libp2p/go-libp2p/core/peer"
	"github.com/libp2p/go-libp2p/core/peerstore"
	"github.com/libp2p/go-libp2p/core/transport"
	ma "github.com/multiformats/go-multiaddr"
)

type vC12tpt struct {
	transport.Transport
	proxy bool
}

func (t *vC12tpt) Proxy() bool { return t.proxy }

type vC12tc struct {
	transport.CapableConn
	closed  bool
	limited bool
	tpt     *vC12tpt
	p       peer.ID
	closes  int
}

func (c *vC12tc) IsClosed() bool                 { return c.closed }
func (c *vC12tc) Transport() transport.Transport { return c.tpt }
func (c *vC12tc) RemotePeer() peer.ID            { return c.p }
func (c *vC12tc) RemoteMultiaddr() ma.Multiaddr  { return nil }
func (c *vC12tc) RemotePublicKey() ic.PubKey     { return nil }
func (c *vC12tc) Stat() network.ConnStats {
	return network.ConnStats{Stats: network.Stats{Limited: c.limited}}
}
func (c *vC12tc) Close() error { c.closes++; c.closed = true; return nil }

type vC12rcmgr struct {
	network.ResourceManager
	opened int
}

type vC12sscope struct {
	network.StreamManagementScope
	done int
}

func (s *vC12sscope) Done() { s.done++ }

func (r *vC12rcmgr) OpenStream(p peer.ID, dir network.Direction) (network.StreamManagementScope, error) {
	r.opened++
	return &vC12sscope{}, nil
}

type vC12ps struct{ peerstore.Peerstore }

const vC12peer = peer.ID("peerA")

func vC12swarm() *Swarm {
	s := &Swarm{local: "self", rcmgr: &vC12rcmgr{}, peers: vC12ps{}}
	s.conns.m = map[peer.ID][]*Conn{}
	s.directConnNotifs.m = map[peer.ID][]chan struct{}{}
	return s
}

func vC12conn(s *Swarm, closed, limited, proxy bool, nstreams int) *Conn {
	tc := &vC12tc{closed: closed, limited: limited, tpt: &vC12tpt{proxy: proxy}, p: vC12peer}
	c := &Conn{conn: tc, swarm: s, stat: network.ConnStats{Stats: network.Stats{Limited: limited}}}
	c.streams.m = map[*Stream]struct{}{}
	for i := 0; i < nstreams; i++ {
		c.streams.m[&Stream{}] = struct{}{}
	}
	return c
}

func VerifC12aBestConn() {
	shape := vCase(9) // streams of the first two connections
	s := vC12swarm()
	n := vCase(4)
	var conns []*Conn
	for i := 0; i < n; i++ {
		ns := 0
		if i == 0 {
			ns = shape % 3
		} else if i == 1 {
			ns = shape / 3
		}
		limited := vBool()
		proxy := vBool()
		vAssume(!limited || proxy) // a limited connection is a relayed one
		c := vC12conn(s, vBool(), limited, proxy, ns)
		conns = append(conns, c)
		s.conns.m[vC12peer] = append(s.conns.m[vC12peer], c)
	}
	anyOpen, anyOpenUnlimited, anyOpenLimited := false, false, false
	for _, c := range conns {
		tc := c.conn.(*vC12tc)
		anyOpen = vOr(anyOpen, !tc.closed)
		anyOpenUnlimited = vOr(anyOpenUnlimited, vAnd(!tc.closed, !tc.limited))
		anyOpenLimited = vOr(anyOpenLimited, vAnd(!tc.closed, tc.limited))
	}
	best := s.bestConnToPeer(vC12peer)
	vAssert((best != nil) == anyOpen, "a connection is chosen iff an open one exists")
	if best != nil {
		tc := best.conn.(*vC12tc)
		vAssert(!tc.closed, "a closed connection is never chosen")
		if tc.limited {
			vCover("best-is-limited")
			vAssert(!anyOpenUnlimited, "a limited connection is chosen only if every open connection is limited")
		}
	}
	cn := s.Connectedness(vC12peer)
	vAssert((cn == network.Connected) == anyOpenUnlimited, "Connected iff an open unlimited connection exists")
	vAssert((cn == network.Limited) == vAnd(!anyOpenUnlimited, anyOpenLimited), "Limited iff only limited connections are open")
	ctx := network.WithForceDirectDial(context.Background(), "verif")
	if acc := s.bestAcceptableConnToPeer(ctx, vC12peer); acc != nil {
		vCover("force-direct-conn")
		tc := acc.conn.(*vC12tc)
		vAssert(!tc.tpt.proxy && !tc.closed, "a dial that demands a direct connection never gets a relayed one")
	}
	if acc := s.bestAcceptableConnToPeer(context.Background(), vC12peer); true {
		vAssert(acc == best, "without force-direct the best connection is acceptable")
	}
}

// ---- C12.b ----

func VerifC12bNewStream() {
	s := vC12swarm()
	var openedOn *Conn
	failOpen := vBool()
	VerifHook_Conn_openAndAddStream = func(c *Conn, ctx context.Context, scope network.StreamManagementScope) (network.Stream, error) {
		if failOpen {
			return nil, errors.New("open failed")
		}
		openedOn = c
		return &Stream{conn: c}, nil
	}
	dialMode := vCase(3) // 0 fails, 1 yields a direct conn, 2 yields a limited conn
	dials := 0
	VerifHook_Swarm_dialPeer = func(sw *Swarm, ctx context.Context, p peer.ID) (*Conn, error) {
		dials++
		if dialMode == 0 {
			return nil, errors.New("dial failed")
		}
		c := vC12conn(sw, false, dialMode == 2, dialMode == 2, 0)
		sw.conns.m[p] = append(sw.conns.m[p], c)
		return c, nil
	}
	defer func() { VerifHook_Conn_openAndAddStream, VerifHook_Swarm_dialPeer = nil, nil }()
	existing := vCase(3) // 0 none, 1 direct, 2 limited
	if existing > 0 {
		s.conns.m[vC12peer] = []*Conn{vC12conn(s, false, existing == 2, existing == 2, 0)}
	}
	ctx := network.WithDialPeerTimeout(context.Background(), 200*time.Millisecond)
	allowLimited, noDial := vBool(), vBool()
	if allowLimited {
		ctx = network.WithAllowLimitedConn(ctx, "verif")
	}
	if noDial {
		ctx = network.WithNoDial(ctx, "verif")
	}
	str, err := s.NewStream(ctx, vC12peer)
	if err == nil {
		vCover("stream-opened")
		vAssert(str != nil && openedOn != nil, "a stream was opened")
		tc := openedOn.conn.(*vC12tc)
		vAssert(!tc.limited || allowLimited, "a stream is opened over a limited connection only if the caller allowed it")
		vAssert(!(noDial && existing == 0), "NoDial without a connection opens nothing")
	} else {
		vCover("refused")
		vAssert(openedOn == nil || failOpen, "no stream is left open on an error")
		if noDial && existing == 0 {
			vAssert(err == network.ErrNoConn && dials == 0, "NoDial without a connection fails with ErrNoConn and does not dial")
		}
	}
	if noDial {
		vAssert(dials == 0, "NoDial never dials")
	}
}

// ---- C12.c ----

func VerifC12cWaitForDirect() {
	s := vC12swarm()
	VerifHook_Conn_start = func(c *Conn) {}
	VerifHook_connectionEventsEmitter_AddConn = func(e *connectionEventsEmitter, c *Conn) {}
	defer func() { VerifHook_Conn_start, VerifHook_connectionEventsEmitter_AddConn = nil, nil }()
	lim := vC12conn(s, false, true, true, 0)
	s.conns.m[vC12peer] = []*Conn{lim}
	ctx := network.WithDialPeerTimeout(context.Background(), 300*time.Millisecond)
	var got *Conn
	var gerr error
	done := make(chan struct{})
	go func() {
		got, gerr = s.waitForDirectConn(ctx, vC12peer)
		close(done)
	}()
	parked := func() bool {
		s.directConnNotifs.Lock()
		defer s.directConnNotifs.Unlock()
		return len(s.directConnNotifs.m[vC12peer]) == 1
	}
	for i := 0; i < 500 && !parked(); i++ {
		vYield()
	}
	vAssert(parked(), "the waiter parks behind the limited connection")
	limitedGone := vBool()
	if limitedGone {
		lim.conn.(*vC12tc).closed = true
		s.removeConn(lim) // the relayed connection went away while the waiter is parked
		vCover("limited-conn-gone")
	}
	arrives := vCase(3) // 0 nothing, 1 a direct connection, 2 another limited connection
	var direct *Conn
	switch arrives {
	case 1:
		c, err := s.addConn(&vC12tc{tpt: &vC12tpt{}, p: vC12peer}, network.DirInbound)
		vAssert(err == nil, "direct connection admitted")
		direct = c
	case 2:
		_, err := s.addConn(&vC12tc{limited: true, tpt: &vC12tpt{proxy: true}, p: vC12peer}, network.DirInbound)
		vAssert(err == nil, "limited connection admitted")
	}
	<-done
	if arrives == 1 {
		vCover("direct-arrived")
		vAssert(gerr == nil && got == direct, "a waiter is woken by a direct connection and gets it")
	} else {
		vCover("gave-up")
		vAssert(gerr != nil && got == nil, "without a direct connection the wait fails")
		vAssert(len(s.directConnNotifs.m[vC12peer]) == 0, "a waiter that gives up removes itself from the list")
	}
	if got != nil {
		vAssert(!got.conn.(*vC12tc).limited, "a limited connection is never handed to a caller that did not allow it")
	}
}

// A direct connection that is admitted exactly while a caller is on its way into the wait - after it has
// looked at the existing connections, before it is registered as a waiter - must not be missed. The window is
// held open deterministically (also natively) by keeping the limited connection's stream table locked, which
// is where waitForDirectConn stops between the two steps (Conn.Stat).
func VerifC12cDirectArrivesWhileRegistering() {
	vDeadlockIsViolation()
	s := vC12swarm()
	VerifHook_Conn_start = func(c *Conn) {}
	VerifHook_connectionEventsEmitter_AddConn = func(e *connectionEventsEmitter, c *Conn) {}
	defer func() { VerifHook_Conn_start, VerifHook_connectionEventsEmitter_AddConn = nil, nil }()
	lim := vC12conn(s, false, true, true, 0)
	s.conns.m[vC12peer] = []*Conn{lim}
	ctx := network.WithDialPeerTimeout(context.Background(), 300*time.Millisecond)
	settle := func() {
		for i := 0; i < 25; i++ {
			vYield()
		}
	}
	lim.streams.Lock() // somebody is opening or listing streams on the relayed connection
	var got *Conn
	var gerr error
	done := make(chan struct{})
	go func() {
		got, gerr = s.waitForDirectConn(ctx, vC12peer)
		close(done)
	}()
	settle()
	var direct *Conn
	added := false
	go func() {
		direct, _ = s.addConn(&vC12tc{tpt: &vC12tpt{}, p: vC12peer}, network.DirInbound)
		added = true
	}()
	settle()
	lim.streams.Unlock()
	<-done
	settle()
	vAssert(added && direct != nil, "the direct connection is admitted")
	vAssert(gerr == nil && got == direct, "a direct connection admitted while the caller is entering the wait is not missed")
	vAssert(len(s.directConnNotifs.m[vC12peer]) == 0, "no waiter registration is left behind")
}

// Several callers wait for a direct connection to the same peer; some give up, in any order, before it arrives.
func VerifC12cSeveralWaiters() {
	vDeadlockIsViolation()
	s := vC12swarm()
	VerifHook_Conn_start = func(c *Conn) {}
	VerifHook_connectionEventsEmitter_AddConn = func(e *connectionEventsEmitter, c *Conn) {}
	defer func() { VerifHook_Conn_start, VerifHook_connectionEventsEmitter_AddConn = nil, nil }()
	lim := vC12conn(s, false, true, true, 0)
	s.conns.m[vC12peer] = []*Conn{lim}
	settle := func() {
		for i := 0; i < 25; i++ {
			vYield()
		}
	}
	var got [3]*Conn
	var gerr [3]error
	var done [3]bool
	var cancel [3]context.CancelFunc
	for i := 0; i < 3; i++ {
		i := i
		ctx, c := context.WithCancel(network.WithDialPeerTimeout(context.Background(), time.Hour))
		cancel[i] = c
		go func() {
			got[i], gerr[i] = s.waitForDirectConn(ctx, vC12peer)
			done[i] = true
		}()
		settle() // registered in the order 0, 1, 2
	}
	vAssert(len(s.directConnNotifs.m[vC12peer]) == 3, "three waiters are parked")
	// up to two of them give up, in any order
	var cancelled [3]bool
	orders := [][]int{{}, {0}, {1}, {2}, {0, 1}, {1, 0}, {0, 2}, {2, 0}, {1, 2}, {2, 1}}
	for _, w := range orders[vCase(len(orders))] {
		cancel[w]()
		cancelled[w] = true
		settle()
		vAssert(done[w] && got[w] == nil && gerr[w] != nil, "a waiter that gives up returns with an error")
	}
	left := 0
	for i := 0; i < 3; i++ {
		if !cancelled[i] {
			left++
			vAssert(!done[i], "a waiter still inside its deadline keeps waiting when another one gives up")
		}
	}
	vAssert(len(s.directConnNotifs.m[vC12peer]) == left, "exactly the waiters that gave up are removed from the list")
	direct, err := s.addConn(&vC12tc{tpt: &vC12tpt{}, p: vC12peer}, network.DirInbound)
	vAssert(err == nil, "direct connection admitted")
	settle()
	for i := 0; i < 3; i++ {
		if !cancelled[i] {
			vCover("woken")
			vAssert(done[i] && gerr[i] == nil && got[i] == direct, "every remaining waiter is woken by the direct connection and gets it")
		}
	}
	vAssert(len(s.directConnNotifs.m[vC12peer]) == 0, "no registration is left behind")
	for i := 0; i < 3; i++ {
		cancel[i]()
	}
}
