//go:build verif

//verif:dir p2p/security/tls
//verif:subst p2p/security/tls encoding/asn1.Unmarshal verifAsn1Unmarshal
//verif:subst p2p/security/tls crypto/x509.MarshalPKIXPublicKey verifMarshalPKIX
//verif:subst p2p/security/tls crypto/x509.ParseCertificate verifParseCertificate
//verif:hook core/crypto UnmarshalPublicKey
//verif:hook core/peer IDFromPublicKey
//verif:replace (*crypto/x509.Certificate).Verify vC01certVerify
//verif:replace (*crypto/x509.CertPool).AddCert vC01addCert
//verif:obligation C01.d TLS PubKeyFromCertChain / the VerifyPeerCertificate closure of ConfigForPeer, for every chain length 0..2, extension absent / present (also behind an unknown extension), every outcome of certificate verification, extension decoding, key unmarshalling and signature verification, and for TWO consecutive sessions in one process (the second presenting another certificate that carries the first one's extension bytes): a key is returned / delivered only if the chain has exactly one certificate, it carries the libp2p extension, the certificate verifies, and the extension's signature over "libp2p-tls-handshake:" followed by THIS certificate's public key verified (true, nil) under the key the extension names - independently in every session; with an expected peer the key is delivered only if it hashes to that peer
//verif:bound two sessions per run; chain length 0..2; <= 2 extensions per certificate
//verif:stub asn1.Unmarshal / x509.MarshalPKIXPublicKey / x509.ParseCertificate substituted at their call sites; crypto.UnmarshalPublicKey and peer.IDFromPublicKey hooked; identity keys are stub objects whose Verify logs its arguments and answers per session; (*x509.Certificate).Verify is answered symbolically in the symbolic run while the native replay runs the real verification on a real self-signed certificate that the harness corrupts when the flag says "does not verify"
//verif:outside the TLS 1.3 handshake itself, ALPN / early muxer negotiation, certificate generation, x509 / ASN.1 encoding, key types
package libp2ptls

import (
	"crypto/x509"
	"crypto/x509/pkix"
	"encoding/asn1"
	"errors"

	ic "github.com/libp2p/go-libp2p/core/crypto"
	"github.com/libp2p/go-libp2p/core/peer"
)

type vC01key struct {
	ic.PubKey
	name     string
	answers  []bool
	fails    []bool
	calls    int
	lastData []byte
	lastSig  []byte
}

func (k *vC01key) Verify(data, sig []byte) (bool, error) {
	i := k.calls
	k.calls++
	k.lastData = append([]byte{}, data...)
	k.lastSig = append([]byte{}, sig...)
	if k.fails[i%len(k.fails)] {
		return false, errors.New("malformed signature")
	}
	return k.answers[i%len(k.answers)], nil
}

var vC01verifies = map[*x509.Certificate]bool{}

// symbolic-run model of (*x509.Certificate).Verify
func vC01certVerify(c *x509.Certificate, opts x509.VerifyOptions) ([][]*x509.Certificate, error) {
	if vC01verifies[c] {
		return nil, nil
	}
	return nil, errors.New("x509: certificate signed by unknown authority")
}

func vC01addCert(p *x509.CertPool, c *x509.Certificate) {}

var vC01realDER []byte

// a certificate with the wanted shape: natively a real self-signed certificate (corrupted if it must not verify)
func vC01cert(id int, withExt, extBehindUnknown, verifies bool) *x509.Certificate {
	var c *x509.Certificate
	ext := pkix.Extension{Id: extensionID, Value: []byte("signed-key-extension")}
	if vNative() {
		sk, _, _ := ic.GenerateEd25519Key(nil)
		tmpl, _ := certTemplate()
		tc, err := keyToCertificate(sk, tmpl)
		if err != nil {
			panic(err)
		}
		c, err = x509.ParseCertificate(tc.Certificate[0])
		if err != nil {
			panic(err)
		}
		var kept []pkix.Extension
		for _, e := range c.Extensions {
			if !extensionIDEqual(e.Id, extensionID) {
				kept = append(kept, e)
			}
		}
		c.Extensions = kept
		if !verifies {
			c.Signature[0] ^= 0xff
		}
	} else {
		c = &x509.Certificate{PublicKey: id}
	}
	c.Extensions = nil
	if extBehindUnknown {
		c.Extensions = append(c.Extensions, pkix.Extension{Id: asn1.ObjectIdentifier{1, 2, 3}, Value: []byte("unknown")})
	}
	if withExt {
		c.Extensions = append(c.Extensions, ext)
	}
	vC01verifies[c] = verifies
	return c
}

func VerifC01dTLSChain() {
	key := &vC01key{name: "victim", answers: vBoolSlice(2), fails: vBoolSlice(2)}
	asn1Fail := vBoolSlice(2)
	keyFail := vBoolSlice(2)
	session := 0
	savedA, savedM := verifAsn1Unmarshal, verifMarshalPKIX
	verifAsn1Unmarshal = func(b []byte, v interface{}) ([]byte, error) {
		if asn1Fail[session] || string(b) != "signed-key-extension" {
			return nil, errors.New("asn1: structure error")
		}
		sk := v.(*signedKey)
		sk.PubKey, sk.Signature = []byte("victim-key-bytes"), []byte("extension-signature")
		return nil, nil
	}
	certNo := map[*x509.Certificate]int{}
	verifMarshalPKIX = func(pub interface{}) ([]byte, error) {
		return []byte{'p', 'k', byte('0' + session)}, nil // every certificate has its own public key
	}
	ic.VerifHook_UnmarshalPublicKey = func(b []byte) (ic.PubKey, error) {
		if keyFail[session] || string(b) != "victim-key-bytes" {
			return nil, errors.New("bad key")
		}
		return key, nil
	}
	defer func() {
		verifAsn1Unmarshal, verifMarshalPKIX = savedA, savedM
		ic.VerifHook_UnmarshalPublicKey = nil
	}()
	_ = certNo
	for session = 0; session < 2; session++ {
		n := vCase(3)
		withExt, behind, verifies := vBool(), vBool(), vBool()
		var chain []*x509.Certificate
		for i := 0; i < n; i++ {
			chain = append(chain, vC01cert(10*session+i, withExt, behind, verifies))
		}
		calls := key.calls
		pk, err := PubKeyFromCertChain(chain)
		if err != nil {
			vCover("rejected")
			vAssert(pk == nil, "no key on error")
			continue
		}
		vCover("accepted")
		if session == 1 {
			vCover("second-session-accepted")
		}
		vAssert(n == 1, "exactly one certificate in the chain")
		vAssert(withExt, "the certificate carries the libp2p key extension")
		vAssert(verifies, "the certificate itself verifies")
		vAssert(!asn1Fail[session] && !keyFail[session], "the extension and the key it names decode")
		vAssert(key.calls == calls+1, "the extension's signature is verified in every session")
		if key.calls == calls+1 {
			vAssert(key.answers[calls%2] && !key.fails[calls%2], "accepted only if that verification answered (true, nil)")
			want := append([]byte(certificatePrefix), 'p', 'k', byte('0'+session))
			vAssert(string(key.lastData) == string(want), "the signature covers the handshake prefix and THIS certificate's public key")
			vAssert(string(key.lastSig) == "extension-signature", "the extension's signature is the one verified")
		}
		vAssert(pk == ic.PubKey(key), "the returned key is the one named by the extension")
	}
}

func VerifC01dTLSPeerCheck() {
	key := &vC01key{name: "victim", answers: []bool{true}, fails: []bool{false}}
	savedA, savedM, savedP := verifAsn1Unmarshal, verifMarshalPKIX, verifParseCertificate
	verifAsn1Unmarshal = func(b []byte, v interface{}) ([]byte, error) {
		sk := v.(*signedKey)
		sk.PubKey, sk.Signature = []byte("victim-key-bytes"), []byte("extension-signature")
		return nil, nil
	}
	verifMarshalPKIX = func(pub interface{}) ([]byte, error) { return []byte("pk"), nil }
	parseFail := vBool()
	cert := vC01cert(1, true, false, true)
	verifParseCertificate = func(der []byte) (*x509.Certificate, error) {
		if parseFail {
			return nil, errors.New("x509: malformed certificate")
		}
		return cert, nil
	}
	ic.VerifHook_UnmarshalPublicKey = func(b []byte) (ic.PubKey, error) { return key, nil }
	ids := []peer.ID{"expected-peer", "other-peer"}
	keyID := ids[vCase(2)]
	peer.VerifHook_IDFromPublicKey = func(k ic.PubKey) (peer.ID, error) { return keyID, nil }
	defer func() {
		verifAsn1Unmarshal, verifMarshalPKIX, verifParseCertificate = savedA, savedM, savedP
		ic.VerifHook_UnmarshalPublicKey, peer.VerifHook_IDFromPublicKey = nil, nil
	}()
	id := &Identity{}
	remote := peer.ID("")
	if vBool() {
		remote = "expected-peer"
	}
	conf, keyCh := id.ConfigForPeer(remote)
	err := conf.VerifyPeerCertificate([][]byte{{1}}, nil)
	var delivered ic.PubKey
	select {
	case delivered = <-keyCh:
	default:
	}
	if err == nil {
		vCover("handshake-continues")
		vAssert(!parseFail && delivered == ic.PubKey(key), "on success the verified key is delivered")
		vAssert(remote == "" || keyID == remote, "when the local side named the peer it expects, only a key hashing to that peer is accepted")
	} else {
		vCover("handshake-aborted")
		vAssert(delivered == nil, "no key is delivered when verification fails")
	}
}
