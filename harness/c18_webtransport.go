//go:build verif

//verif:dir p2p/transport/webtransport
//verif:hook p2p/transport/webtransport newCertConfig
//verif:hook p2p/transport/webtransport addrComponentForCert
//verif:subst p2p/transport/webtransport crypto/sha256.Sum256 verifSum256
//verif:subst p2p/transport/webtransport crypto/x509.ParseCertificate verifParseCertificate
//verif:subst p2p/transport/webtransport time.Now verifTimeNow
//verif:replace github.com/multiformats/go-multihash.Encode vC18mhEncode
//verif:shard VerifC18abCertManager 4
//verif:obligation C18.a certManager.init for every start instant (1970+1 month .. 2200) and every 16-bit key prefix (hence every bucket offset): the served certificate has been valid for at least the clock-skew allowance, stays valid for at least that long, and its validity is exactly 14 days; the bucket start is a deterministic function of (instant, offset)
//verif:obligation C18.b rollConfig driven by a punctual timer, 0..3 rollovers: at every instant of a certificate's serving interval [activation, End - skew] it has been valid >= skew and stays valid >= skew; the timer is armed for exactly End - skew; the advertised hashes always contain the previously served, the served and the next certificate (so an address learned in one period keeps verifying through the following one) and the address component lists exactly served + next; a restart at any instant of a serving interval recomputes the same certificate start
//verif:obligation C18.d the real background() rollover goroutine driven by benbjohnson's mock clock through 2 (thorough 3) rollovers from every start instant and key prefix: at an arbitrary instant up to an hour before End - skew the served certificate has not changed, at End - skew it is the next one, and at both instants the served certificate has been valid for the clock-skew allowance (the re-armed timer is neither early nor late)
//verif:obligation C18.c verifyRawCerts accepts a leaf only if its SHA-256 equals a SHA2-256 hash of the dialed address, it is not an RSA certificate, its lifetime is at most 14 days and it is currently valid - on every presentation: a second verification of the same certificate at an arbitrary later instant is decided by the clock of that moment
//verif:bound instants anywhere in [2.6e6 s, 7.2e9 s] at nanosecond resolution, all 65536 key prefixes, <= 3 rollovers, <= 2 certificate hashes in the dialed address
//verif:stub newCertConfig (HKDF/ECDSA/x509 generation) replaced by a stub that builds a real certConfig with the requested NotBefore/NotAfter and a fresh distinct hash; addrComponentForCert replaced by an injective stub; multihash.Encode modelled as 0x12 0x20 || digest (its real output); sha256.Sum256 / x509.ParseCertificate / time.Now substituted at their call sites by harness stubs; clock = harness stub; a late timer is an environment fault the statement does not cover (punctual timer)
//verif:outside that generateCert is deterministic in (key, start), actual hash values, the TLS / QUIC handshake, the dialer's early-data confirmation of the hashes
package libp2pwebtransport

import (
	"context"
	"crypto/tls"
	"crypto/x509"
	"errors"
	"time"

	"github.com/benbjohnson/clock"
	ic "github.com/libp2p/go-libp2p/core/crypto"
	ma "github.com/multiformats/go-multiaddr"
	"github.com/multiformats/go-multihash"
)

var vC18now time.Time

type vC18clock struct{ clock.Clock }

func (vC18clock) Now() time.Time { return vC18now }

type vC18pub struct {
	ic.PubKey
	raw []byte
}

func (p vC18pub) Raw() ([]byte, error) { return p.raw, nil }

type vC18key struct {
	ic.PrivKey
	pub vC18pub
}

func (k vC18key) GetPublic() ic.PubKey { return k.pub }

var vC18made int

func vC18newCertConfig(key ic.PrivKey, start, end time.Time) (*certConfig, error) {
	vC18made++
	c := &certConfig{tlsConf: &tls.Config{Certificates: []tls.Certificate{{Leaf: &x509.Certificate{NotBefore: start, NotAfter: end}}}}}
	c.sha256[0] = byte(vC18made)
	return c, nil
}

func vC18addrComponent(hash []byte) (*ma.Component, error) {
	if vNative() {
		return addrComponentForCert__verifOrig(hash) // the real encoder; the symbolic run uses distinct atoms
	}
	m := ma.StringCast([]string{"/certhash/uEiAA", "/certhash/uEiAB", "/certhash/uEiAC", "/certhash/uEiAD", "/certhash/uEiAE", "/certhash/uEiAF"}[int(hash[0])%6])
	return &m[0], nil
}

func vC18mhEncode(buf []byte, code uint64) ([]byte, error) {
	return append([]byte{0x12, 0x20}, buf...), nil
}

const vC18skew = int64(clockSkewAllowance)

func vC18hasHash(list [][]byte, c *certConfig) bool {
	for _, h := range list {
		if len(h) == 34 && h[0] == 0x12 && h[1] == 0x20 && h[2] == c.sha256[0] {
			return true
		}
	}
	return false
}

func VerifC18abCertManager() {
	rolls := vCase(4)
	VerifHook_newCertConfig = vC18newCertConfig
	VerifHook_addrComponentForCert = vC18addrComponent
	defer func() { VerifHook_newCertConfig, VerifHook_addrComponentForCert = nil, nil }()
	vC18made = 0
	key := vC18key{pub: vC18pub{raw: []byte{vUint8(), vUint8(), 0, 0}}}
	t0 := vRange64(2_600_000_000_000_000, 7_200_000_000_000_000_000)
	vC18now = time.Unix(0, t0)
	m := &certManager{clock: vC18clock{}}
	err := m.init(key)
	vAssert(err == nil, "init succeeds")
	activation := t0
	for k := 0; ; k++ {
		cur, next := m.currentConfig, m.nextConfig
		S, E := cur.Start().UnixNano(), cur.End().UnixNano()
		vAssert(E-S == int64(certValidity), "certificate validity is exactly 14 days")
		vAssert(S+vC18skew <= activation, "when a certificate starts being served it has been valid for the clock-skew allowance")
		vAssert(activation <= E-vC18skew, "a certificate starts being served before its retirement instant")
		// an arbitrary instant of the serving interval
		t := vRange64(0, 1<<62)
		vAssume(t >= activation && t <= E-vC18skew)
		vAssert(S+vC18skew <= t && t+vC18skew <= E, "at every instant of its serving interval the certificate has been and stays valid for the clock-skew allowance")
		vAssert(next.Start().UnixNano()+vC18skew <= E-vC18skew, "the next certificate is already valid (with allowance) when the served one is retired")
		vC18now = time.Unix(0, t) // read at an arbitrary instant of the serving interval, not only at its start
		hs := m.SerializedCertHashes()
		vAssert(vC18hasHash(hs, cur) && vC18hasHash(hs, next), "the advertised hashes contain the served and the next certificate")
		if m.lastConfig != nil {
			vAssert(vC18hasHash(hs, m.lastConfig), "throughout the serving interval the confirmed hashes still contain the previously served certificate (an address learned during the previous period names it first)")
			if t > m.lastConfig.End().UnixNano() {
				vCover("previous-certificate-expired")
			}
		}
		ac := m.AddrComponent()
		c0, _ := vC18addrComponent(cur.sha256[:])
		c1, _ := vC18addrComponent(next.sha256[:])
		vAssert(len(ac) == 2 && ac[0].Equal(c0) && ac[1].Equal(c1), "the address component lists exactly the served and the next certificate")
		// restart determinism: a fresh manager started at t (before the retirement instant) serves the same period
		if t < E-vC18skew {
			vC18now = time.Unix(0, t)
			m2 := &certManager{clock: vC18clock{}}
			vAssert(m2.init(key) == nil && m2.currentConfig.Start().Equal(cur.Start()), "a restart inside a serving interval recomputes the same certificate period")
		}
		if k == rolls {
			break
		}
		// punctual timer: the background loop arms it for End - skew
		vC18now = time.Unix(0, t)
		d := m.currentConfig.End().Add(-clockSkewAllowance).Sub(m.clock.Now())
		vAssert(t+int64(d) == E-vC18skew, "the rollover timer is armed for End - skew")
		activation = E - vC18skew
		vC18now = time.Unix(0, activation)
		prev := cur
		vAssert(m.rollConfig(key) == nil, "roll succeeds")
		vCover("rolled")
		vAssert(m.currentConfig == next && m.lastConfig == prev, "rollover promotes next to served and remembers the previous one")
	}
}

func VerifC18aBucket() {
	now := vRange64(0, 7_200_000_000_000_000_000)
	off := vRange64(0, int64(certValidity)-1)
	b := getCurrentBucketStartTime(time.Unix(0, now), time.Duration(off))
	bn := b.UnixNano()
	period := int64(validityMinusTwoSkew)
	nowMs, offMs := now/1_000_000, off/1_000_000
	if nowMs >= offMs {
		vCover("after-offset")
		vAssert(bn/1_000_000 <= nowMs && nowMs < bn/1_000_000+period/1_000_000, "the bucket contains the instant")
		vAssert((bn/1_000_000-offMs)%(period/1_000_000) == 0, "buckets are aligned to the offset")
	}
}

// ---- C18.c ----

func VerifC18cVerifyRawCerts() {
	digest := vUint8()
	hashedCert, parsedCert := -1, -2 // which certificate of the chain (by its first byte) was hashed / examined
	verifSum256 = func(b []byte) [32]byte {
		var h [32]byte
		h[0] = digest
		if len(b) > 0 {
			hashedCert = int(b[0])
		}
		return h
	}
	algs := []x509.SignatureAlgorithm{x509.ECDSAWithSHA256, x509.SHA256WithRSA, x509.PureEd25519, x509.SHA1WithRSA, x509.SHA512WithRSA, x509.MD5WithRSA}
	alg := algs[vCase(len(algs))]
	nb := vRange64(0, 1<<60)
	na := vRange64(0, 1<<61)
	parseFail := vBool()
	verifParseCertificate = func(der []byte) (*x509.Certificate, error) {
		if len(der) > 0 {
			parsedCert = int(der[0])
		}
		if parseFail {
			return nil, errors.New("bad cert")
		}
		return &x509.Certificate{SignatureAlgorithm: alg, NotBefore: time.Unix(0, nb), NotAfter: time.Unix(0, na)}, nil
	}
	now := vRange64(0, 1<<61)
	verifTimeNow = func() time.Time { return time.Unix(0, now) }
	defer func() {
		verifTimeNow = time.Now
	}()
	n := vCase(3)
	var hashes []multihash.DecodedMultihash
	match := false
	for i := 0; i < n; i++ {
		code := uint64(multihash.SHA2_256)
		if vBool() {
			code = multihash.SHA2_512
		}
		d := make([]byte, 32)
		d[0] = vUint8()
		hashes = append(hashes, multihash.DecodedMultihash{Code: code, Digest: d})
		match = vOr(match, vAnd(code == multihash.SHA2_256, d[0] == digest))
	}
	nRaw := vCase(3)
	raw := [][]byte{{9}, {1}}[:nRaw]
	err := verifyRawCerts(raw, hashes)
	if err == nil {
		vCover("accepted")
		vAssert(nRaw >= 1, "no certificate, no acceptance")
		vAssert(match, "accepted only if the leaf's SHA-256 is one of the SHA2-256 hashes of the dialed address")
		vAssert(!parseFail, "an unparsable certificate is not accepted")
		vAssert(hashedCert == parsedCert, "the certificate whose hash is pinned is the very certificate the validity rules are applied to (a chain of two cannot pass with one certificate pinned and the other one valid)")
		if nRaw == 2 {
			vCover("chain-of-two")
		}
		rsa := alg == x509.SHA256WithRSA || alg == x509.SHA1WithRSA || alg == x509.SHA512WithRSA || alg == x509.MD5WithRSA
		vAssert(!rsa, "RSA certificates are not accepted")
		vAssert(na-nb <= int64(14*24*time.Hour), "certificates valid for more than 14 days are not accepted")
		vAssert(nb <= now && now <= na, "only currently valid certificates are accepted")
		// the same pinned certificate again, later (a redial): the rules are evaluated every time
		later := vRange64(0, 1<<61)
		vAssume(later >= now)
		now = later
		if verifyRawCerts(raw, hashes) == nil {
			vCover("accepted-again")
			vAssert(nb <= later && later <= na, "a certificate accepted once is checked again when it is presented again: it must still be valid")
		}
	} else {
		vCover("rejected")
	}
}

// ---- C18.d: the real background rollover loop against a mock clock ----

func VerifC18dBackgroundLoop() {
	VerifHook_newCertConfig = vC18newCertConfig
	VerifHook_addrComponentForCert = vC18addrComponent
	defer func() { VerifHook_newCertConfig, VerifHook_addrComponentForCert = nil, nil }()
	vC18made = 0
	key := vC18key{pub: vC18pub{raw: []byte{vUint8(), vUint8(), 0, 0}}}
	t0 := vRange64(2_600_000_000_000_000, 7_200_000_000_000_000_000)
	mock := clock.NewMock()
	mock.Set(time.Unix(0, t0))
	m := &certManager{clock: mock}
	m.ctx, m.ctxCancel = context.WithCancel(context.Background())
	vAssert(m.init(key) == nil, "init succeeds")
	m.background(key)
	settle := func() {
		for i := 0; i < 12; i++ {
			vYield()
		}
	}
	settle()
	rolls := 2 + vTier()
	for k := 0; k < rolls; k++ {
		m.mx.RLock()
		cur, next := m.currentConfig, m.nextConfig
		m.mx.RUnlock()
		retire := cur.End().Add(-clockSkewAllowance)
		// an instant strictly before the retirement instant: the served certificate must not change yet
		early := time.Duration(vRange64(1, int64(time.Hour)))
		mock.Set(retire.Add(-early))
		settle()
		m.mx.RLock()
		vAssert(m.currentConfig == cur, "the served certificate is not replaced before End - skew (the next one would not yet have been valid for the clock-skew allowance)")
		vAssert(m.currentConfig.Start().UnixNano()+vC18skew <= mock.Now().UnixNano(), "the served certificate has been valid for at least the clock-skew allowance")
		m.mx.RUnlock()
		mock.Set(retire)
		settle()
		m.mx.RLock()
		vAssert(m.currentConfig == next, "at End - skew the loop switches to the next certificate")
		vAssert(m.currentConfig.Start().UnixNano()+vC18skew <= mock.Now().UnixNano() && mock.Now().UnixNano()+vC18skew <= m.currentConfig.End().UnixNano(), "the newly served certificate has been valid, and stays valid, for the clock-skew allowance")
		m.mx.RUnlock()
		vCover("rolled-by-the-loop")
	}
	m.ctxCancel()
	settle()
}
