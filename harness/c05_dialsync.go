//go:build verif

//verif:dir p2p/net/swarm
//verif:also C12
//verif:obligation C05.e dialSync: concurrent callers for one peer share one worker (spawned once); a caller whose context is cancelled returns promptly with its context's error while the request context handed to the worker for it - also when it asked for a direct connection, a simultaneous connect, or both, options that reach the worker exactly as given - stays alive, so the shared attempt is not cancelled for the others; the request channel is closed and the entry deleted exactly when the last caller has returned, never before; a later caller starts a fresh worker
//verif:bound 2 callers (then a third), cooperative schedule
//verif:stub the dial worker is a harness stub that records the requests it is handed
//verif:outside the worker's own behaviour (C05.f)
package swarm

import (
	"context"

	"github.com/libp2p/go-libp2p/core/network"
	"github.com/libp2p/go-libp2p/core/peer"
)

// ---- C05.e ----

func VerifC05eDialSync() {
	var reqs []dialRequest
	workers, closedSeen := 0, 0
	ds := newDialSync(func(p peer.ID, reqch <-chan dialRequest) {
		workers++
		for r := range reqch {
			reqs = append(reqs, r)
		}
		closedSeen++
	})
	kind := vCase(4) // the first caller: plain / demands a direct connection / hole-punch (simultaneous connect) / both
	forceDirect, simConnect := kind == 1 || kind == 3, kind == 2 || kind == 3
	ctxA, cancelA := context.WithCancel(context.Background())
	if forceDirect {
		ctxA = network.WithForceDirectDial(ctxA, "verif")
		vCover("force-direct-caller")
	}
	if simConnect {
		ctxA = network.WithSimultaneousConnect(ctxA, true, "verif")
		vCover("simultaneous-connect-caller")
	}
	var connA, connB *Conn
	var errA, errB error
	doneA, doneB := make(chan struct{}), make(chan struct{})
	go func() { connA, errA = ds.Dial(ctxA, "peerA"); close(doneA) }()
	wait := func(cond func() bool) {
		for i := 0; i < 300 && !cond(); i++ {
			vYield()
		}
	}
	wait(func() bool { return len(reqs) == 1 })
	go func() { connB, errB = ds.Dial(context.Background(), "peerA"); close(doneB) }()
	wait(func() bool { return len(reqs) == 2 })
	vAssert(workers == 1 && len(reqs) == 2, "concurrent callers share one worker")
	fd, _ := network.GetForceDirectDial(reqs[0].ctx)
	vAssert(fd == forceDirect, "the caller's demand for a direct connection reaches the worker (and only then)")
	sc, isClient, _ := network.GetSimultaneousConnect(reqs[0].ctx)
	vAssert(sc == simConnect && (!sc || isClient), "the caller's simultaneous-connect role reaches the worker (and only then)")
	fd2, _ := network.GetForceDirectDial(reqs[1].ctx)
	sc2, _, _ := network.GetSimultaneousConnect(reqs[1].ctx)
	vAssert(!fd2 && !sc2, "one caller's options do not leak into another caller's request")
	cancelA() // the first caller gives up
	<-doneA
	vAssert(connA == nil && errA == context.Canceled, "a cancelled caller is released promptly with its context's error")
	vAssert(reqs[0].ctx.Err() == nil && reqs[1].ctx.Err() == nil, "cancelling one caller does not cancel the shared attempt")
	vAssert(closedSeen == 0 && len(ds.dials) == 1, "the worker stays while another caller waits")
	good := &Conn{}
	reqs[1].resch <- dialResponse{conn: good}
	<-doneB
	vAssert(connB == good && errB == nil, "the other caller gets the connection")
	wait(func() bool { return closedSeen == 1 })
	vAssert(closedSeen == 1 && len(ds.dials) == 0, "when the last caller returns the request channel is closed and the entry removed")
	vAssert(reqs[1].ctx.Err() != nil, "the shared dial context is cancelled once nobody waits")
	// a later caller starts afresh
	done3 := make(chan struct{})
	ctx3, cancel3 := context.WithCancel(context.Background())
	go func() { ds.Dial(ctx3, "peerA"); close(done3) }()
	wait(func() bool { return len(reqs) == 3 })
	vAssert(workers == 2, "a later caller gets a fresh worker")
	cancel3()
	<-done3
	wait(func() bool { return closedSeen == 2 })
	vAssert(closedSeen == 2 && len(ds.dials) == 0, "no worker or entry remains once all callers have returned")
}
