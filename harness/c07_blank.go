//go:build verif

//verif:dir p2p/host/blank
//verif:obligation C07.e BlankHost.newStreamHandler with the real multistream muxer (handlers registered with SetStreamHandler and with SetStreamHandlerMatch): a handler runs iff the negotiation succeeded, it is the handler registered for (or matching) the requested protocol, and inside the handler - and afterwards - the stream reports exactly the protocol ID the dialer requested; a stream that reaches no handler is reset
//verif:bound handlers for /proto/a and a match-function handler for /proto/m/*; requests: /proto/a, unregistered /proto/c, /proto/m/1.3.0, immediate EOF
//verif:stub network.Stream / event emitter harness stubs; the stream serves concrete request bytes so the real go-multistream Negotiate code is executed
//verif:outside BlankHost.NewStream (dialer side), resource-manager refusal of SetProtocol (the blank host ignores its result)
package blankhost

import (
	"io"

	"github.com/libp2p/go-libp2p/core/network"
	"github.com/libp2p/go-libp2p/core/protocol"
	msmux "github.com/multiformats/go-multistream"
)

type vC07bStream struct {
	network.Stream
	in     []byte
	pos    int
	proto  protocol.ID
	resets int
}

func (s *vC07bStream) Read(b []byte) (int, error) {
	if s.pos >= len(s.in) {
		return 0, io.EOF
	}
	n := copy(b, s.in[s.pos:])
	s.pos += n
	return n, nil
}
func (s *vC07bStream) Write(b []byte) (int, error)     { return len(b), nil }
func (s *vC07bStream) Close() error                    { return nil }
func (s *vC07bStream) Reset() error                    { s.resets++; return nil }
func (s *vC07bStream) Protocol() protocol.ID           { return s.proto }
func (s *vC07bStream) SetProtocol(p protocol.ID) error { s.proto = p; return nil }

type vC07bEmitter struct{}

func (vC07bEmitter) Emit(interface{}) error { return nil }
func (vC07bEmitter) Close() error           { return nil }

func vC07bMsg(s string) []byte {
	b := []byte{byte(len(s) + 1)}
	b = append(b, s...)
	return append(b, '\n')
}

func vC07bMatch(p protocol.ID) bool { return len(p) > 9 && p[:9] == "/proto/m/" }

func VerifC07eBlankHost() {
	bh := &BlankHost{mux: msmux.NewMultistreamMuxer[protocol.ID]()}
	bh.emitters.evtLocalProtocolsUpdated = vC07bEmitter{}
	var ran []string
	var seen []protocol.ID
	bh.SetStreamHandler("/proto/a", func(s network.Stream) { ran = append(ran, "a"); seen = append(seen, s.Protocol()) })
	bh.SetStreamHandlerMatch("/proto/m/1.0.0", vC07bMatch, func(s network.Stream) { ran = append(ran, "m"); seen = append(seen, s.Protocol()) })
	protos := []protocol.ID{"/proto/a", "/proto/c", "/proto/m/1.3.0", ""}
	req := vCase(4)
	st := &vC07bStream{}
	if req < 3 {
		st.in = append(vC07bMsg("/multistream/1.0.0"), vC07bMsg(string(protos[req]))...)
	}
	vSetUnwind(400)
	bh.newStreamHandler(st)
	if len(ran) > 0 {
		vCover("handler-ran")
		want := "a"
		if req == 2 {
			want = "m"
			vCover("match-function-handler")
		}
		vAssert(len(ran) == 1 && (req == 0 || req == 2) && ran[0] == want, "exactly the handler registered for the requested protocol runs")
		vAssert(seen[0] == protos[req], "inside the handler the stream reports the protocol the dialer requested")
		vAssert(st.proto == protos[req], "the stream keeps reporting the requested protocol")
		vAssert(st.resets == 0, "a stream handed to a handler is not reset")
	} else {
		vCover("no-handler")
		vAssert(req == 1 || req == 3, "a request for a registered protocol reaches its handler")
		vAssert(st.resets >= 1, "a stream that reaches no handler is reset")
	}
}
