//go:build verif

//verif:dir p2p/security/noise
//verif:obligation C02.f the session's real decrypt in front of the real flynn/noise cipher state (ChaCha20-Poly1305 built by UnsafeNewCipherState): a frame body shorter than an authentication tag - every length 0..15, in particular the empty frame - is rejected with an error and yields no bytes, so a frame inserted on the wire without a tag can never read as a successful (empty) delivery; a session without cipher state refuses to decrypt
//verif:bound frame bodies of 0..15 symbolic bytes (the cipher rejects them on length, before any cryptographic work)
//verif:outside the AEAD itself for bodies of 16 bytes and more (idealised in C02.a), nonce handling inside flynn/noise
package noise

import (
	"github.com/flynn/noise"
)

func VerifC02fDecryptShortFrame() {
	var key [32]byte
	for i := range key {
		key[i] = byte(i)
	}
	s := &secureSession{dec: noise.UnsafeNewCipherState(cipherSuite, key, 0)}
	n := vCase(16)
	ct := vBytes(n)
	out, err := s.decrypt(nil, ct)
	if n == 0 {
		vCover("empty-frame")
	}
	vAssert(err != nil, "a frame body shorter than an authentication tag is rejected")
	vAssert(len(out) == 0, "and yields no bytes")
	_, err = (&secureSession{}).decrypt(nil, ct)
	vAssert(err != nil, "a session whose handshake has not produced keys refuses to decrypt")
}
