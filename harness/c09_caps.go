//go:build verif

//verif:dir p2p/host/peerstore/pstoreds
//verif:also C13 -
//verif:obligation C09.g the per-peer cap on unconnected addresses, both books side by side (cap 2, the real datastore-backed setAddrs against the real memory book through its public API): after 0..2 single adds at distinct instants (each either unconnected or held by a live connection) and one batch (through AddAddrs or SetAddrs) of 1..3 addresses (expiring after or before the earlier ones), both books hold the same number of addresses, never more than the cap, agree on which of the earlier addresses survive and on whether the LAST address of the batch was kept (facts that do not depend on how either book breaks ties between equal expiries)
//verif:bound one peer, cap 2, <= 2 earlier addresses, one batch of <= 3 addresses
//verif:stub flush hooked to "mark clean", harness cache and clock for the datastore book; the memory book runs unmodified behind its public API with the same clock
//verif:outside which of several equal-expiry addresses is evicted (the memory book iterates a Go map there: not deterministic), the global cap
package pstoreds

import (
	"time"

	"github.com/libp2p/go-libp2p/core/peer"
	pstore "github.com/libp2p/go-libp2p/core/peerstore"
	"github.com/libp2p/go-libp2p/p2p/host/peerstore/pstoremem"
	ma "github.com/multiformats/go-multiaddr"
)

type vC09gClock struct{}

func (vC09gClock) Now() time.Time { return vC09now }

func vC09gHas(as []ma.Multiaddr, a ma.Multiaddr) bool {
	for _, x := range as {
		if x.Equal(a) {
			return true
		}
	}
	return false
}

func VerifC09gCapBatch() {
	defer func() { VerifHook_addrsRecord_flush = nil }()
	dab, _ := vC09book(nil)
	dab.opts.MaxAddrsPerPeer = 2
	mab := pstoremem.NewAddrBook(pstoremem.WithClock(vC09gClock{}), pstoremem.WithMaxAddressesPerPeer(2))
	defer mab.Close()
	now := int64(1000)
	vC09now = time.Unix(now, 0)
	all := []ma.Multiaddr{ma.StringCast("/ip4/1.1.1.1/tcp/1"), ma.StringCast("/ip4/1.1.1.2/tcp/1"), ma.StringCast("/ip4/1.1.1.3/tcp/1"), ma.StringCast("/ip4/1.1.1.4/tcp/1"), ma.StringCast("/ip4/1.1.1.5/tcp/1")}
	vC09extra = all
	const p = peer.ID("peerA")
	earlier := vCase(3)
	for i := 0; i < earlier; i++ { // single adds, each at a later instant: distinct expiries
		now += 10
		vC09now = time.Unix(now, 0)
		ettl := time.Hour
		if vBool() { // held by a live connection: neither counted nor evictable
			ettl = pstore.ConnectedAddrTTL
			vCover("an-earlier-address-is-connected")
		}
		dab.AddAddrs(p, all[i:i+1], ettl)
		mab.AddAddrs(p, all[i:i+1], ettl)
	}
	now += 10
	vC09now = time.Unix(now, 0)
	n := 1 + vCase(3)
	batch := all[earlier : earlier+n]
	ttl := time.Hour
	if vCase(2) == 1 { // the batch expires before everything added earlier
		ttl = 10 * time.Minute
		vCover("batch-expires-first")
	}
	if vBool() {
		dab.AddAddrs(p, batch, ttl)
		mab.AddAddrs(p, batch, ttl)
	} else {
		dab.SetAddrs(p, batch, ttl)
		mab.SetAddrs(p, batch, ttl)
		vCover("batch-through-SetAddrs")
	}
	d, m := dab.Addrs(p), mab.Addrs(p)
	vAssert(len(d) == len(m), "both books keep the same number of addresses")
	last := batch[n-1]
	if earlier+n > 2 {
		vCover("cap-reached")
	}
	if n > 2 {
		vCover("batch-larger-than-the-cap")
	}
	vAssert(vC09gHas(d, last) == vC09gHas(m, last), "both books agree on whether the last address of a batch is kept")
	for i := 0; i < earlier; i++ { // their expiries differ from each other and from the batch's: no tie decides their fate
		vAssert(vC09gHas(d, all[i]) == vC09gHas(m, all[i]), "both books agree on which earlier address makes room for the batch")
	}
}
