//go:build verif

//verif:dir p2p/transport/webtransport
//verif:hook p2p/transport/webtransport verifyRawCerts
//verif:hook p2p/transport/quicreuse ConnManager.DialQUIC
//verif:obligation C18.e the dialer's TLS configuration (transport.dial), with and without /certhash components in the dialed address, with and without a caller-supplied tls.Config carrying its own VerifyPeerCertificate (accepting or rejecting): when the address carries certificate hashes the handshake accepts a certificate chain ONLY if the pinning check (verifyRawCerts against exactly those hashes) accepts it - no caller-supplied callback can turn a pinning failure into acceptance; without hashes ordinary certificate verification stays switched on
//verif:bound one dial; verdicts of the pinning check and of the caller's callback symbolic
//verif:stub verifyRawCerts hooked to a symbolic verdict (its own logic is C18.c); ConnManager.DialQUIC hooked to capture the TLS configuration and stop the dial
//verif:outside the QUIC / HTTP3 / WebTransport handshakes themselves, the Noise early-data confirmation of the hashes
package libp2pwebtransport

import (
	"context"
	"crypto/tls"
	"crypto/x509"
	"errors"

	"github.com/libp2p/go-libp2p/p2p/transport/quicreuse"
	ma "github.com/multiformats/go-multiaddr"
	"github.com/multiformats/go-multihash"
	"github.com/quic-go/quic-go"
)

func VerifC18eDialPinning() {
	var captured *tls.Config
	errStop := errors.New("stop here")
	quicreuse.VerifHook_ConnManager_DialQUIC = func(c *quicreuse.ConnManager, ctx context.Context, raddr ma.Multiaddr, tlsConf *tls.Config, allow func(conn *quic.Conn, delta uint64) bool) (*quic.Conn, error) {
		captured = tlsConf
		return nil, errStop
	}
	pinOK := vBool()
	var askedWith []multihash.DecodedMultihash
	VerifHook_verifyRawCerts = func(raw [][]byte, hashes []multihash.DecodedMultihash) error {
		askedWith = hashes
		if pinOK {
			return nil
		}
		return errors.New("cert hash not found")
	}
	defer func() { quicreuse.VerifHook_ConnManager_DialQUIC, VerifHook_verifyRawCerts = nil, nil }()
	t := &transport{connManager: &quicreuse.ConnManager{}}
	customOK := vBool()
	customCalls := 0
	if vBool() {
		vCover("caller-supplied-tls-config-with-its-own-verifier")
		t.tlsClientConf = &tls.Config{VerifyPeerCertificate: func([][]byte, [][]*x509.Certificate) error {
			customCalls++
			if customOK {
				return nil
			}
			return errors.New("caller's verifier refuses")
		}}
	}
	var hashes []multihash.DecodedMultihash
	if vBool() {
		hashes = []multihash.DecodedMultihash{{Code: multihash.SHA2_256, Length: 32, Digest: make([]byte, 32)}}
	}
	_, _, err := t.dial(context.Background(), nil, "https://example.com/.well-known/libp2p-webtransport?type=noise", "", hashes)
	vAssert(err == errStop && captured != nil, "the dial reaches the QUIC connection manager")
	if len(hashes) == 0 {
		vCover("no-certhash")
		vAssert(!captured.InsecureSkipVerify, "without certificate hashes ordinary certificate verification stays on")
		return
	}
	vCover("certhash")
	vAssert(captured.InsecureSkipVerify && captured.VerifyPeerCertificate != nil, "with certificate hashes the library verifies the certificate itself")
	verr := captured.VerifyPeerCertificate([][]byte{{1, 2, 3}}, nil)
	vAssert(len(askedWith) == 1, "the pinning check runs against exactly the hashes of the dialed address")
	vAssert(verr != nil || pinOK, "a certificate is accepted only if the pinning check accepts it, whatever a caller-supplied verifier says")
	vAssert(verr == nil || !pinOK || (customCalls > 0 && !customOK), "a pinned certificate is refused only by a caller-supplied verifier that ran and refused")
}
