//go:build verif

//verif:dir p2p/host/peerstore/pstoremem
//verif:also C08 VerifC09dMemRecords
//verif:replace github.com/libp2p/go-libp2p/core/peer.SplitAddr vC09splitAddr
//verif:hook core/record Envelope.Record
//verif:hook core/peer ID.MatchesPublicKey
//verif:shard VerifC09cMemHistory 14
//verif:shard VerifC09dMemRecords 12
//verif:obligation C09.a memory book representation invariant after every operation of every bounded history: an entry is in the expiry heap at heapIndex iff its TTL is below the connected TTL, connected entries have heapIndex -1, the heap is ordered by expiry and holds exactly the map's non-connected entries
//verif:obligation C09.c memory book vs the reference model of the statement on every history of 3 operations from {AddAddrs, SetAddrs, UpdateAddrs, ClearAddrs} x 2 addresses x TTL classes {Temp, RecentlyConnected, Connected, 0} with symbolic clock advances: Addrs(p) is exactly the set of addresses whose most recently assigned expiry lies in the future; after a long advance and gc the peer is listed iff it has a live address and nothing expired is stored
//verif:obligation C09.d signed peer records (memory book): a record sealed by a key that is not its peer's is refused and leaves no trace; a record is accepted iff its Seq is not lower than the stored one, evicts the previous record's addresses it no longer lists unless connected, is returned while the peer continuously has live addresses and never after all its addresses expired or were cleared
//verif:bound one peer, two addresses (atoms), whole-second instants, history length 3 (both tiers; 4 ran past an hour per shard) + final gc, per-peer and global caps disabled (cap eviction is a separate kernel)
//verif:stub multiaddrs are opaque atoms (peer.SplitAddr replaced by the identity for addresses without /p2p suffix; natively the real function runs); Envelope.Record / ID.MatchesPublicKey hooked (crypto and protobuf outside); clock = harness stub
//verif:outside /p2p-suffixed addresses, AddrStream, cap eviction, concurrent callers, close/reopen
package pstoremem

import (
	"time"

	"github.com/libp2p/go-libp2p/core/crypto"
	"github.com/libp2p/go-libp2p/core/peer"
	"github.com/libp2p/go-libp2p/core/peerstore"
	"github.com/libp2p/go-libp2p/core/record"
	ma "github.com/multiformats/go-multiaddr"
)

var vC09now time.Time

var vC09foreignSigner bool // the record being consumed was sealed by a key that is not its peer's

type vC09clock struct{}

func (vC09clock) Now() time.Time { return vC09now }

func vC09splitAddr(m ma.Multiaddr) (ma.Multiaddr, peer.ID) { return m, "" }

var vC09addrs = []ma.Multiaddr{ma.StringCast("/ip4/1.2.3.4/tcp/1"), ma.StringCast("/ip4/1.2.3.4/tcp/2")}

const vC09peer = peer.ID("peerA")

func vC09book() *memoryAddrBook {
	return &memoryAddrBook{addrs: newPeerAddrs(), signedPeerRecords: make(map[peer.ID]*peerRecordState),
		subManager: NewAddrSubManager(), clock: vC09clock{}, maxUnconnectedAddrs: 1 << 30, maxSignedPeerRecords: 1 << 30}
}

// representation invariant of peerAddrs
func vC09heapInv(pa *peerAddrs) bool {
	n := 0
	for p, m := range pa.Addrs {
		if len(m) == 0 {
			return false // empty per-peer maps are deleted
		}
		for k, e := range m {
			if e.Peer != p || string(e.Addr.Bytes()) != k {
				return false
			}
			if e.IsConnected() {
				if e.heapIndex != -1 {
					return false
				}
			} else {
				n++
				if e.heapIndex < 0 || e.heapIndex >= len(pa.expiringHeap) || pa.expiringHeap[e.heapIndex] != e {
					return false
				}
			}
		}
	}
	if n != len(pa.expiringHeap) {
		return false
	}
	ok := true
	for i := 1; i < len(pa.expiringHeap); i++ {
		ok = vAnd(ok, !pa.expiringHeap[i].Expiry.Before(pa.expiringHeap[(i-1)/2].Expiry))
	}
	return ok
}

// ---- reference model: the statement, for one peer and two addresses ----

type vC09ref struct {
	present [2]bool
	ttl     [2]time.Duration
	exp     [2]int64 // unix seconds
	// ghost: an operation acted while the real book still physically held an entry that is logically expired
	staleTouched bool
	rec          bool   // a signed record is stored
	recSeq       uint64 // its sequence number
	recAddrs     [2]bool
}

func (r *vC09ref) expire(now int64) {
	for i := range r.present {
		if r.present[i] && r.exp[i] <= now {
			r.present[i] = false
		}
	}
	if !r.present[0] && !r.present[1] {
		r.rec = false
	}
}

func (r *vC09ref) add(i int, ttl time.Duration, now int64) {
	if ttl <= 0 {
		return
	}
	e := vC09expiry(now, ttl)
	if !r.present[i] {
		r.present[i], r.ttl[i], r.exp[i] = true, ttl, e
		return
	}
	if ttl > r.ttl[i] {
		r.ttl[i] = ttl
	}
	if e > r.exp[i] {
		r.exp[i] = e
	}
}

func vC09expiry(now int64, ttl time.Duration) int64 {
	if ttl >= peerstore.ConnectedAddrTTL {
		return 1 << 62 // "never" within any bounded history
	}
	return now + int64(ttl/time.Second)
}

func (r *vC09ref) set(i int, ttl time.Duration, now int64) {
	if ttl <= 0 {
		r.present[i] = false
		return
	}
	r.present[i], r.ttl[i], r.exp[i] = true, ttl, vC09expiry(now, ttl)
}

func (r *vC09ref) update(old, nw time.Duration, now int64) {
	for i := range r.present {
		if r.present[i] && r.ttl[i] == old {
			if nw <= 0 {
				r.present[i] = false
			} else {
				r.ttl[i], r.exp[i] = nw, vC09expiry(now, nw)
			}
		}
	}
}

func (r *vC09ref) clear() {
	r.present = [2]bool{}
	r.rec = false
}

func (r *vC09ref) settle() {
	if !r.present[0] && !r.present[1] {
		r.rec = false
	}
}

var vC09ttls = []time.Duration{peerstore.TempAddrTTL, peerstore.RecentlyConnectedAddrTTL, peerstore.ConnectedAddrTTL, 0}

// does the real book physically hold an entry of the peer that the reference already considers gone?
func vC09stale(mab *memoryAddrBook, ref *vC09ref) bool {
	for i, a := range vC09addrs {
		if _, ok := mab.addrs.FindAddr(vC09peer, a); ok && !ref.present[i] {
			return true
		}
	}
	return false
}

func vC09compare(mab *memoryAddrBook, ref *vC09ref, where string) {
	got := mab.Addrs(vC09peer)
	var has [2]bool
	extra := false
	for _, g := range got {
		switch {
		case g.Equal(vC09addrs[0]) && !has[0]:
			has[0] = true
		case g.Equal(vC09addrs[1]) && !has[1]:
			has[1] = true
		default:
			extra = true
		}
	}
	vAssert(!extra && has == ref.present, where)
}

// op encoding: 0..5 Add(a, ttl>0)  6..13 Set(a, ttl)  14..25 Update(old, new)  26 Clear
const vC09nOps = 27

func vC09apply(mab *memoryAddrBook, ref *vC09ref, op int, now int64) {
	ref.expire(now)
	if vC09stale(mab, ref) {
		ref.staleTouched = true
	}
	switch {
	case op < 6:
		i, ttl := op%2, vC09ttls[op/2]
		mab.AddAddrs(vC09peer, []ma.Multiaddr{vC09addrs[i]}, ttl)
		ref.add(i, ttl, now)
	case op < 14:
		i, ttl := (op-6)%2, vC09ttls[(op-6)/2]
		mab.SetAddrs(vC09peer, []ma.Multiaddr{vC09addrs[i]}, ttl)
		ref.set(i, ttl, now)
	case op < 26:
		old, nw := vC09ttls[(op-14)%3], vC09ttls[(op-14)/3]
		mab.UpdateAddrs(vC09peer, old, nw)
		ref.update(old, nw, now)
	default:
		mab.ClearAddrs(vC09peer)
		ref.clear()
	}
	ref.settle()
}

func VerifC09cMemHistory() {
	first := vCase(vC09nOps)
	K := 3 // history 4 was tried for the thorough tier: single shards ran past an hour; both tiers use 3
	mab := vC09book()
	ref := &vC09ref{}
	now := int64(1000)
	for i := 0; i < K; i++ {
		now += int64(vRange(0, 2000))
		vC09now = time.Unix(now, 0)
		op := first
		if i > 0 {
			op = vCase(vC09nOps)
		}
		vC09apply(mab, ref, op, now)
		if ref.staleTouched {
			vCover("acted-on-expired-uncollected-entry")
		}
		vAssert(vC09heapInv(&mab.addrs), "heap-invariant")
		vC09compare(mab, ref, "Addrs == addresses whose latest expiry lies in the future")
	}
	// a long time later every finite lifetime is over; gc must leave no expired entry behind
	now += 48 * 3600
	vC09now = time.Unix(now, 0)
	mab.gc()
	ref.expire(now)
	vAssert(vC09heapInv(&mab.addrs), "heap-invariant-after-gc")
	vC09compare(mab, ref, "after gc: Addrs == live addresses")
	live := ref.present[0] || ref.present[1]
	if live {
		vCover("still-live")
	} else {
		vCover("all-gone")
	}
	vAssert((len(mab.PeersWithAddrs()) > 0) == live, "after gc: peer listed iff it has a live address")
	vAssert(len(mab.addrs.Addrs[vC09peer]) == vB2I(ref.present[0])+vB2I(ref.present[1]), "after gc: no expired entry stays in memory")
}

// ---- C09.d signed records ----

var vC09recs []*peer.PeerRecord
var vC09envs []*record.Envelope

func vC09installRecordHooks() {
	record.VerifHook_Envelope_Record = func(e *record.Envelope) (record.Record, error) {
		for i, x := range vC09envs {
			if x == e {
				return vC09recs[i], nil
			}
		}
		panic("unknown envelope")
	}
	peer.VerifHook_ID_MatchesPublicKey = func(id peer.ID, pk crypto.PubKey) bool { return !vC09foreignSigner }
}

func vC09removeRecordHooks() {
	record.VerifHook_Envelope_Record = nil
	peer.VerifHook_ID_MatchesPublicKey = nil
}

// ops: 0..7 Consume(record r: addrs mask 1..3 + 2 seq relations... see below) 8..10 Update(Temp/Recent/Connected -> 0 / Temp) 11 Clear 12.. Set(a, 0)
func VerifC09dMemRecords() {
	first := vCase(12)
	defer vC09removeRecordHooks()
	vC09installRecordHooks()
	vC09recs, vC09envs = nil, nil
	K := 3 // history 4 was tried for the thorough tier: single shards ran past an hour; both tiers use 3
	mab := vC09book()
	ref := &vC09ref{}
	now := int64(1000)
	for i := 0; i < K; i++ {
		now += int64(vRange(0, 2000))
		vC09now = time.Unix(now, 0)
		op := first
		if i > 0 {
			op = vCase(12)
		}
		ref.expire(now)
		if vC09stale(mab, ref) {
			ref.staleTouched = true
		}
		switch {
		case op < 6:
			mask := 1 + op%3 // which addresses the record lists
			seq := uint64(vRange(0, 3))
			ttl := vC09ttls[op/3] // Temp or RecentlyConnected
			if i == 0 && vBool() {
				ttl = 0 // a record consumed with a non-positive TTL brings no addresses: it must not linger and come back later
				vCover("record-consumed-with-a-non-positive-ttl")
			}
			rec := &peer.PeerRecord{PeerID: vC09peer, Seq: seq}
			for b := 0; b < 2; b++ {
				if mask&(1<<b) != 0 {
					rec.Addrs = append(rec.Addrs, vC09addrs[b])
				}
			}
			env := &record.Envelope{}
			vC09recs, vC09envs = append(vC09recs, rec), append(vC09envs, env)
			vC09foreignSigner = i == K-1 && vBool() // the last operation may offer a record sealed by another key
			ok, err := mab.ConsumePeerRecord(env, ttl)
			if vC09foreignSigner {
				vC09foreignSigner = false
				vCover("record-sealed-by-a-foreign-key")
				vAssert(!ok && err != nil, "a record whose peer ID is not the ID of the signing key is refused")
				ok = false // and must leave no trace: the reference does not move
				vC09recs, vC09envs = vC09recs[:len(vC09recs)-1], vC09envs[:len(vC09envs)-1]
			} else {
				want := !(ref.rec && ref.recSeq > seq)
				vAssert(err == nil && ok == want, "record accepted iff its seq is not lower than the stored one")
			}
			if ok {
				vCover("record-accepted")
				if ref.rec {
					for b := 0; b < 2; b++ {
						if ref.recAddrs[b] && mask&(1<<b) == 0 && ref.present[b] && ref.ttl[b] < peerstore.ConnectedAddrTTL {
							ref.present[b] = false // superseded address of the previous record
						}
					}
				}
				ref.rec, ref.recSeq = true, seq
				for b := 0; b < 2; b++ {
					ref.recAddrs[b] = mask&(1<<b) != 0
					if ref.recAddrs[b] && ttl > 0 {
						ref.add(b, ttl, now)
					}
				}
			}
		case op < 8:
			// an unsigned, connected address (a live connection)
			b := op - 6
			mab.SetAddrs(vC09peer, []ma.Multiaddr{vC09addrs[b]}, peerstore.ConnectedAddrTTL)
			ref.set(b, peerstore.ConnectedAddrTTL, now)
		case op < 10:
			old := vC09ttls[op-8]
			mab.UpdateAddrs(vC09peer, old, 0)
			ref.update(old, 0, now)
		case op == 10:
			mab.UpdateAddrs(vC09peer, peerstore.ConnectedAddrTTL, peerstore.TempAddrTTL)
			ref.update(peerstore.ConnectedAddrTTL, peerstore.TempAddrTTL, now)
		default:
			mab.ClearAddrs(vC09peer)
			ref.clear()
		}
		ref.settle()
		if ref.staleTouched {
			vCover("acted-on-expired-uncollected-entry")
		}
		vAssert(vC09heapInv(&mab.addrs), "heap-invariant")
		vC09compare(mab, ref, "Addrs == addresses whose latest expiry lies in the future")
		got := mab.GetPeerRecord(vC09peer)
		if ref.rec {
			vCover("record-retrievable")
			vAssert(got != nil && got == vC09envs[vC09latest(ref.recSeq)], "record retrievable while the peer continuously has live addresses")
		} else {
			vAssert(got == nil, "record never returned once all addresses expired or were cleared")
		}
	}
}

// the latest accepted envelope with that seq
func vC09latest(seq uint64) int {
	for i := len(vC09recs) - 1; i >= 0; i-- {
		if vC09recs[i].Seq == seq {
			return i
		}
	}
	return 0
}
