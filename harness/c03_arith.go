//go:build verif

//verif:dir p2p/host/resource-manager
//verif:obligation C03.a checkMemory / reserveMemory decide exactly "memory+rsvp <= floor(limit*(1+prio)/256)" in unbounded arithmetic for every int64 memory, rsvp, limit (priority split into concrete cases), never leave [0, limit], and refuse with the resource-limit sentinel; unlimited scopes (limit == MaxInt64) admit iff the sum is representable; addInt64WithOverflow / mulInt64WithOverflow agree with exact arithmetic
//verif:bound priority: 16 representative values in quick {0,1,2,3,63,64,100,127,128,129,191,192,200,253,254,255}, all 256 in thorough; memory, rsvp, limit: all int64 values with 0 <= memory <= limit
//verif:shard VerifC03aCheckMemory 8
//verif:shard VerifC03aOverflowHelpers 4
//verif:outside nothing arithmetic; concurrency of callers is not modelled
package rcmgr

import (
	"errors"
	"math"

	"github.com/libp2p/go-libp2p/core/network"
)

var vC03prios = []uint8{0, 1, 2, 3, 63, 64, 100, 127, 128, 129, 191, 192, 200, 253, 254, 255}

func vC03prio() uint8 {
	if vTier() > 0 {
		return uint8(vCase(256))
	}
	return vC03prios[vCase(len(vC03prios))]
}

// exact threshold floor(limit*(1+prio)/256) without overflow: a = 1+prio <= 256
func vC03threshold(limit int64, prio uint8) int64 {
	a := int64(prio) + 1
	return (limit/256)*a + ((limit%256)*a)/256
}

func VerifC03aCheckMemory() {
	prio := vC03prio()
	limit := vRange64(0, math.MaxInt64)
	mem := vRange64(0, math.MaxInt64)
	rsvp := vRange64(math.MinInt64, math.MaxInt64)
	vAssume(mem <= limit)
	rc := &resources{limit: &BaseLimit{Memory: limit}, memory: mem}
	err := rc.reserveMemory(rsvp, prio)
	if rsvp < 0 {
		vCover("negative")
		vAssert(err != nil && rc.memory == mem, "negative-refused")
		return
	}
	var refuse bool
	if limit == math.MaxInt64 {
		vCover("unlimited")
		refuse = rsvp > math.MaxInt64-mem // the sum is not representable
	} else {
		T := vC03threshold(limit, prio)
		refuse = rsvp > T-mem
	}
	if refuse {
		vCover("refuse")
	} else {
		vCover("admit")
	}
	vAssert((err != nil) == refuse, "threshold-exact")
	if err != nil {
		vAssert(errors.Is(err, network.ErrResourceLimitExceeded), "wraps-sentinel")
		vAssert(rc.memory == mem, "refusal-changes-nothing")
	} else {
		vAssert(rc.memory-mem == rsvp, "charged-exactly")
		vAssert(rc.memory >= 0 && rc.memory <= limit, "within-limit-and-nonnegative")
	}
}

func VerifC03aOverflowHelpers() {
	a, b := vInt64(), vInt64()
	c, ok := addInt64WithOverflow(a, b)
	// exact: representable iff no wrap happened
	fits := (b >= 0 && a <= math.MaxInt64-b) || (b < 0 && a >= math.MinInt64-b)
	if b != 0 { // for b == 0 the helper's answer is irrelevant to its callers only if a+0 == a: it must still say ok
		vAssert(ok == fits, "add-overflow-exact")
	} else {
		vAssert(c == a, "add-zero")
	}
	if ok {
		vAssert(c-b == a, "add-value")
	}
	// multiplication with a small concrete multiplier (the only way the code uses it: 1+prio)
	m := int64(vC03prio()) + 1
	x := vInt64()
	p, mok := mulInt64WithOverflow(m, x)
	lo, hi := int64(math.MinInt64)/m, int64(math.MaxInt64)/m
	mfits := x >= lo && x <= hi
	vAssert(mok == mfits, "mul-overflow-exact")
	if mok {
		vAssert(p/m == x && p%m == 0, "mul-value")
	}
}

func VerifC03aReleaseMemory() {
	limit := vRange64(0, math.MaxInt64)
	mem := vRange64(0, math.MaxInt64)
	rel := vRange64(0, math.MaxInt64)
	vAssume(mem <= limit)
	rc := &resources{limit: &BaseLimit{Memory: limit}, memory: mem}
	rc.releaseMemory(rel)
	vAssert(rc.memory >= 0 && rc.memory <= limit, "release-keeps-bounds")
	if rel <= mem {
		vAssert(rc.memory == mem-rel, "release-exact")
	}
}

// counts: addStreams/addConns keep every component and the totals within the limits
func VerifC03bCounts() {
	l := &BaseLimit{Streams: vRange(0, 1<<40), StreamsInbound: vRange(0, 1<<40), StreamsOutbound: vRange(0, 1<<40),
		Conns: vRange(0, 1<<40), ConnsInbound: vRange(0, 1<<40), ConnsOutbound: vRange(0, 1<<40), FD: vRange(0, 1<<40)}
	rc := &resources{limit: l, nconnsIn: vRange(0, 1<<40), nconnsOut: vRange(0, 1<<40), nstreamsIn: vRange(0, 1<<40), nstreamsOut: vRange(0, 1<<40), nfd: vRange(0, 1<<40)}
	within := func() bool {
		ok := vAnd(rc.nstreamsIn <= l.StreamsInbound, rc.nstreamsOut <= l.StreamsOutbound)
		ok = vAnd(ok, rc.nstreamsIn+rc.nstreamsOut <= l.Streams)
		ok = vAnd(ok, vAnd(rc.nconnsIn <= l.ConnsInbound, rc.nconnsOut <= l.ConnsOutbound))
		ok = vAnd(ok, vAnd(rc.nconnsIn+rc.nconnsOut <= l.Conns, rc.nfd <= l.FD))
		return ok
	}
	vAssume(within())
	pre := *rc
	in, out, fd := vRange(0, 2), vRange(0, 2), vRange(0, 1)
	var err error
	streams := vBool()
	if streams {
		err = rc.addStreams(in, out)
	} else {
		err = rc.addConns(in, out, fd)
	}
	if err != nil {
		vCover("refused")
		vAssert(*rc == pre, "refusal-changes-nothing")
		vAssert(errors.Is(err, network.ErrResourceLimitExceeded), "wraps-sentinel")
	} else {
		vCover("admitted")
		vAssert(within(), "within-limits-after")
		if streams {
			vAssert(rc.nstreamsIn == pre.nstreamsIn+in && rc.nstreamsOut == pre.nstreamsOut+out && rc.nconnsIn == pre.nconnsIn && rc.nfd == pre.nfd, "streams-exact")
		} else {
			vAssert(rc.nconnsIn == pre.nconnsIn+in && rc.nconnsOut == pre.nconnsOut+out && rc.nfd == pre.nfd+fd && rc.nstreamsIn == pre.nstreamsIn, "conns-exact")
		}
	}
}
