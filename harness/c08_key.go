//go:build verif

//verif:dir core/crypto
//verif:also C01
//verif:subst core/crypto google.golang.org/protobuf/proto.Marshal verifProtoMarshal
//verif:subst core/crypto crypto/x509.MarshalPKIXPublicKey verifMarshalPKIX
//verif:obligation C08.d the serialized form of a public key - and hence the peer ID derived from it - is a function of the key alone: MarshalPublicKey of an RSA key that was received off the wire (PublicKeyFromProto, whatever bytes the sender wrapped it in: 0..6 arbitrary extra bytes that a protobuf decoder keeps as unknown fields) equals MarshalPublicKey of the same key created locally, and marshalling twice gives the same bytes
//verif:bound one RSA key, <= 6 symbolic extra bytes in the received message
//verif:stub proto.Marshal substituted by an injective model of (type, data, unknown fields); x509.MarshalPKIXPublicKey by a fixed encoding of the (fixed) key; the RSA unmarshaller by one returning that key
//verif:outside the DER / protobuf encoders themselves, other key types (they keep no received bytes), signature schemes
package crypto

import (
	pb "github.com/libp2p/go-libp2p/core/crypto/pb"
	"google.golang.org/protobuf/proto"
)

var vC08dUnknown = map[*pb.PublicKey][]byte{}

func vC08dProtoMarshal(m proto.Message) ([]byte, error) {
	pk := m.(*pb.PublicKey)
	out := []byte{byte(pk.GetType()), byte(len(pk.Data))}
	out = append(out, pk.Data...)
	return append(out, vC08dUnknown[pk]...), nil // a protobuf encoder re-emits the unknown fields it was given
}

func VerifC08dMarshalIsFunctionOfKey() {
	savedM, savedX := verifProtoMarshal, verifMarshalPKIX
	savedU := PubKeyUnmarshallers[pb.KeyType_RSA]
	defer func() {
		verifProtoMarshal, verifMarshalPKIX = savedM, savedX
		PubKeyUnmarshallers[pb.KeyType_RSA] = savedU
	}()
	verifProtoMarshal = vC08dProtoMarshal
	verifMarshalPKIX = func(pub any) ([]byte, error) { return []byte("pkix-encoding-of-the-key"), nil }
	PubKeyUnmarshallers[pb.KeyType_RSA] = func(data []byte) (PubKey, error) { return &RsaPublicKey{}, nil }
	local := &RsaPublicKey{}
	want, err := MarshalPublicKey(local)
	vAssert(err == nil, "a local key marshals")
	// the same key as a remote sent it: canonical data, plus bytes the decoder keeps as unknown fields
	wire := &pb.PublicKey{Type: pb.KeyType_RSA.Enum(), Data: []byte("pkix-encoding-of-the-key")}
	n := vCase(7)
	extra := vBytes(6)[:n]
	vC08dUnknown[wire] = extra
	received, err := PublicKeyFromProto(wire)
	vAssert(err == nil && received.Equals(local), "the received key equals the local one")
	got, err := MarshalPublicKey(received)
	vAssert(err == nil, "a received key marshals")
	vAssert(string(got) == string(want), "the serialized form (and so the peer ID) of a key does not depend on the bytes it was received in")
	again, _ := MarshalPublicKey(received)
	vAssert(string(again) == string(got), "marshalling is deterministic")
	if n > 0 {
		vCover("received-with-extra-bytes")
	}
}
