//go:build verif

//verif:dir p2p/protocol/autonatv2
//verif:shard VerifC16eMsgReader 13
//verif:obligation C16.e msgReader.ReadMsg (the unbuffered reader that counts dial data) over a stream that delivers an arbitrary 12-byte content in arbitrary chunk sizes and ends (EOF, alone or together with the last bytes) at an arbitrary point: a message is returned without error only if every one of its announced bytes was actually received from the stream - bytes consumed = length prefix + announced length - and its content is exactly those bytes, so dial data is never credited for bytes the client did not send
//verif:bound stream content <= 12 symbolic bytes, buffer of 8 bytes, chunk sizes 1..3 per read (3 symbolic sizes, then repeating), EOF position 0..12
//verif:stub the stream is a harness reader; real go-varint ReadUvarint
//verif:outside messages longer than the 8-byte buffer of this harness (the loop is the same for every buffer size), read errors other than EOF
package autonatv2

import "io"

type vC16chunkReader struct {
	data        []byte
	pos, avail  int
	chunks      []int
	reads       int
	eofWithData bool
}

func (r *vC16chunkReader) Read(p []byte) (int, error) {
	if r.pos >= r.avail || len(p) == 0 {
		if len(p) == 0 && r.pos < r.avail {
			return 0, nil
		}
		return 0, io.EOF
	}
	n := r.chunks[r.reads%len(r.chunks)]
	r.reads++
	if n > len(p) {
		n = len(p)
	}
	if n > r.avail-r.pos {
		n = r.avail - r.pos
	}
	copy(p[:n], r.data[r.pos:r.pos+n])
	r.pos += n
	if r.eofWithData && r.pos == r.avail {
		return n, io.EOF
	}
	return n, nil
}

func VerifC16eMsgReader() {
	data := vBytes(12)
	r := &vC16chunkReader{data: data, avail: vCase(13), chunks: []int{1 + vCase(3), 1 + vCase(3), 1 + vCase(3)}, eofWithData: vBool()}
	mr := &msgReader{R: r, Buf: make([]byte, 8)}
	msg, err := mr.ReadMsg()
	if err != nil {
		vCover("rejected")
		vAssert(msg == nil, "no message on error")
		return
	}
	vCover("message")
	// single-byte length prefix (buffer of 8 bytes): the announced length is data[0]
	sz := int(data[0])
	vAssert(len(msg) == sz, "the message has the announced length")
	vAssert(r.pos == 1+sz, "every announced byte was received from the stream")
	vAssert(r.pos <= r.avail, "no byte is credited that the stream did not deliver")
	for i := 0; i < len(msg) && i < 8; i++ {
		vAssert(msg[i] == data[1+i], "the message is the received bytes")
	}
	if sz > 0 && r.avail == 1+sz {
		vCover("message-ends-at-eof")
	}
}
