//go:build verif

//verif:dir p2p/net/swarm
//verif:hook p2p/net/swarm Swarm.TransportForDialing
//verif:hook p2p/net/swarm blackHoleDetector.RecordResult
//verif:hook p2p/net/swarm dialSync.Dial
//verif:hook p2p/net/swarm Conn.Close
//verif:obligation C01.e a dial for peer P never hands back a connection authenticated as anyone else: Swarm.dialAddr returns the transport's connection only if its remote peer is P and otherwise closes it and fails; Swarm.dialPeer re-checks the connection obtained through the dial synchroniser the same way
//verif:bound one dial per run; the transport / synchroniser answer with a connection to the expected or to another peer, or with an error
//verif:stub transport, connection, dial synchroniser and black-hole detector are stubs / hooks
//verif:outside what the security transports themselves authenticate (C01.a/c), existing-connection reuse (C12.a)
package swarm

import (
	"context"
	"errors"

	ic "github.com/libp2p/go-libp2p/core/crypto"
	"github.com/libp2p/go-libp2p/core/network"
	"github.com/libp2p/go-libp2p/core/peer"
	"github.com/libp2p/go-libp2p/core/transport"
	ma "github.com/multiformats/go-multiaddr"
)

type vC01tc struct {
	transport.CapableConn
	p      peer.ID
	closes int
}

func (c *vC01tc) RemotePeer() peer.ID            { return c.p }
func (c *vC01tc) RemoteMultiaddr() ma.Multiaddr  { return nil }
func (c *vC01tc) RemotePublicKey() ic.PubKey     { return nil }
func (c *vC01tc) Close() error                   { c.closes++; return nil }
func (c *vC01tc) IsClosed() bool                 { return c.closes > 0 }
func (c *vC01tc) Transport() transport.Transport { return nil }
func (c *vC01tc) Stat() network.ConnStats        { return network.ConnStats{} }

type vC01tpt struct {
	transport.Transport
	conn *vC01tc
	fail bool
}

func (t *vC01tpt) Dial(ctx context.Context, a ma.Multiaddr, p peer.ID) (transport.CapableConn, error) {
	if t.fail {
		return nil, errors.New("dial failed")
	}
	return t.conn, nil
}

var vC01ids = []peer.ID{"expected-peer", "other-peer"}

func VerifC01eDialAddr() {
	tc := &vC01tc{p: vC01ids[vCase(2)]}
	tpt := &vC01tpt{conn: tc, fail: vBool()}
	VerifHook_Swarm_TransportForDialing = func(s *Swarm, a ma.Multiaddr) transport.Transport { return tpt }
	VerifHook_blackHoleDetector_RecordResult = func(d *blackHoleDetector, a ma.Multiaddr, ok bool) {}
	defer func() { VerifHook_Swarm_TransportForDialing, VerifHook_blackHoleDetector_RecordResult = nil, nil }()
	s := &Swarm{local: "self"}
	c, err := s.dialAddr(context.Background(), "expected-peer", ma.StringCast("/ip4/1.2.3.4/tcp/1"), nil)
	if err == nil {
		vCover("connection-returned")
		vAssert(c != nil && c.RemotePeer() == "expected-peer" && tc.closes == 0, "a dial for P only returns a connection authenticated as P")
	} else {
		vCover("dial-failed")
		vAssert(c == nil, "no connection on error")
		if !tpt.fail {
			vAssert(tc.p != "expected-peer" && tc.closes == 1, "a connection authenticated as someone else is closed, not returned")
		}
	}
}

func VerifC01eDialPeer() {
	tc := &vC01tc{p: vC01ids[vCase(2)]}
	fail := vBool()
	s := &Swarm{local: "self", ctx: context.Background()}
	s.conns.m = map[peer.ID][]*Conn{}
	conn := &Conn{conn: tc, swarm: s}
	conn.streams.m = map[*Stream]struct{}{}
	VerifHook_dialSync_Dial = func(ds *dialSync, ctx context.Context, p peer.ID) (*Conn, error) {
		if fail {
			return nil, errors.New("all dials failed")
		}
		return conn, nil
	}
	closed := 0
	VerifHook_Conn_Close = func(c *Conn) error { closed++; return nil }
	defer func() { VerifHook_dialSync_Dial, VerifHook_Conn_Close = nil, nil }()
	c, err := s.dialPeer(context.Background(), "expected-peer")
	if err == nil {
		vCover("connection-returned")
		vAssert(c == conn && tc.p == "expected-peer", "DialPeer(P) only returns a connection authenticated as P")
	} else {
		vAssert(c == nil, "no connection on error")
		if !fail {
			vCover("wrong-peer")
			vAssert(tc.p != "expected-peer" && closed >= 1, "a connection authenticated as someone else is closed, not returned")
		}
	}
}
