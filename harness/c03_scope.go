//go:build verif

//verif:dir p2p/host/resource-manager
//verif:also C07 -
//verif:also C11 VerifC03eSpansAnyOrder
//verif:obligation C03.c reservations over the linearised parent set are all-or-nothing: ReserveMemory / AddStream / AddConn on a scope with 1..3 edges (thorough: ..4) or on a span under a DAG scope either charge the scope and every constraining scope by exactly the amount, or change nothing and return an error wrapping ErrResourceLimitExceeded / ErrResourceScopeClosed; releases decrease every scope by exactly the amount; ReserveForChild's three-stage internal undo restores every component
//verif:obligation C03.e Done releases exactly the scope's usage to every parent once, is idempotent, and operations after Done change nothing; nested spans released in any order leave every scope at its previous value
//verif:bound edges 1..3 (thorough 1..4), span depth 1..2, all usages/limits symbolic (counts < 2^40, memory any int64 <= limit), any priority (checkMemory by contract)
//verif:assume parents (edges) of a live DAG scope are not done (the rcmgr never closes an upstream scope before its children)
//verif:hook p2p/host/resource-manager resources.checkMemory
//verif:stub resources.checkMemory is replaced (in the symbolic run and in the native replay) by its contract, which C03.a decides on the real arithmetic: rsvp < 0 => error; otherwise it either refuses with ErrMemoryLimitExceeded wrapping the sentinel, or admits and then memory+rsvp <= limit holds without overflow
package rcmgr

import (
	"errors"
	"math"

	"github.com/libp2p/go-libp2p/core/network"
)

const vC03B = 1 << 40

// contract of checkMemory (decided against the real code by VerifC03aCheckMemory)
func vC03stubCheckMemory(rc *resources, rsvp int64, prio uint8) error {
	if rsvp < 0 {
		return errors.New("can't reserve negative memory")
	}
	if vBool() {
		vAssume(rsvp <= rc.limit.GetMemoryLimit()-rc.memory)
		return nil
	}
	return &ErrMemoryLimitExceeded{current: rc.memory, attempted: rsvp, limit: rc.limit.GetMemoryLimit(), priority: prio, err: network.ErrResourceLimitExceeded}
}

func vC03useContract() { VerifHook_resources_checkMemory = vC03stubCheckMemory }
func vC03realMemory()  { VerifHook_resources_checkMemory = nil }

func vC03limit() *BaseLimit {
	return &BaseLimit{Memory: vRange64(0, math.MaxInt64), Streams: vRange(0, vC03B), StreamsInbound: vRange(0, vC03B), StreamsOutbound: vRange(0, vC03B),
		Conns: vRange(0, vC03B), ConnsInbound: vRange(0, vC03B), ConnsOutbound: vRange(0, vC03B), FD: vRange(0, vC03B)}
}

// a scope in an arbitrary state within its limits
func vC03scope(name string, edges []*resourceScope) *resourceScope {
	l := vC03limit()
	s := &resourceScope{name: name, edges: edges}
	s.rc.limit = l
	s.rc.memory = vRange64(0, math.MaxInt64)
	s.rc.nstreamsIn, s.rc.nstreamsOut = vRange(0, vC03B), vRange(0, vC03B)
	s.rc.nconnsIn, s.rc.nconnsOut, s.rc.nfd = vRange(0, vC03B), vRange(0, vC03B), vRange(0, vC03B)
	ok := vAnd(s.rc.memory <= l.Memory, vAnd(s.rc.nstreamsIn <= l.StreamsInbound, s.rc.nstreamsOut <= l.StreamsOutbound))
	ok = vAnd(ok, vAnd(s.rc.nstreamsIn+s.rc.nstreamsOut <= l.Streams, vAnd(s.rc.nconnsIn <= l.ConnsInbound, s.rc.nconnsOut <= l.ConnsOutbound)))
	ok = vAnd(ok, vAnd(s.rc.nconnsIn+s.rc.nconnsOut <= l.Conns, s.rc.nfd <= l.FD))
	vAssume(ok)
	for _, e := range edges {
		e.refCnt++
	}
	return s
}

func vC03within(s *resourceScope) bool {
	l := s.rc.limit.(*BaseLimit)
	ok := vAnd(vAnd(s.rc.memory >= 0, s.rc.memory <= l.Memory), vAnd(s.rc.nstreamsIn <= l.StreamsInbound, s.rc.nstreamsOut <= l.StreamsOutbound))
	ok = vAnd(ok, vAnd(s.rc.nstreamsIn+s.rc.nstreamsOut <= l.Streams, vAnd(s.rc.nconnsIn <= l.ConnsInbound, s.rc.nconnsOut <= l.ConnsOutbound)))
	ok = vAnd(ok, vAnd(s.rc.nconnsIn+s.rc.nconnsOut <= l.Conns, s.rc.nfd <= l.FD))
	ok = vAnd(ok, vAnd(vAnd(s.rc.nstreamsIn >= 0, s.rc.nstreamsOut >= 0), vAnd(vAnd(s.rc.nconnsIn >= 0, s.rc.nconnsOut >= 0), s.rc.nfd >= 0)))
	return ok
}

// the shapes the resource manager builds: a leaf with e parents, all distinct
func vC03dag() (leaf *resourceScope, all []*resourceScope) {
	maxE := 3 + vTier()
	e := 1 + vCase(maxE)
	var edges []*resourceScope
	for i := 0; i < e; i++ {
		edges = append(edges, vC03scope("edge", nil))
	}
	leaf = vC03scope("leaf", edges)
	leaf.done = vBool()
	return leaf, append([]*resourceScope{leaf}, edges...)
}

func vC03snap(all []*resourceScope) []resources {
	var r []resources
	for _, s := range all {
		r = append(r, s.rc)
	}
	return r
}

func vC03delta(all []*resourceScope, pre []resources, d network.ScopeStat) bool {
	ok := true
	for i, s := range all {
		ok = vAnd(ok, vAnd(s.rc.memory-pre[i].memory == d.Memory, vAnd(s.rc.nstreamsIn-pre[i].nstreamsIn == d.NumStreamsInbound, s.rc.nstreamsOut-pre[i].nstreamsOut == d.NumStreamsOutbound)))
		ok = vAnd(ok, vAnd(s.rc.nconnsIn-pre[i].nconnsIn == d.NumConnsInbound, vAnd(s.rc.nconnsOut-pre[i].nconnsOut == d.NumConnsOutbound, s.rc.nfd-pre[i].nfd == d.NumFD)))
	}
	return ok
}

var vC03prios3 = []uint8{0, 127, 255}

func vC03errKind(err error) bool {
	return errors.Is(err, network.ErrResourceLimitExceeded) || errors.Is(err, network.ErrResourceScopeClosed)
}

func vC03checkReservation(all []*resourceScope, pre []resources, closed bool, err error, d network.ScopeStat) {
	if err == nil {
		vCover("admitted")
		vAssert(!closed, "closed-scope-admits-nothing")
		vAssert(vC03delta(all, pre, d), "charged-exactly-once-in-every-constraining-scope")
		ok := true
		for _, s := range all {
			ok = vAnd(ok, vC03within(s))
		}
		vAssert(ok, "every-scope-within-its-limits")
	} else {
		vCover("refused")
		vAssert(vC03delta(all, pre, network.ScopeStat{}), "refusal-changes-nothing")
		vAssert(vC03errKind(err), "refusal-wraps-limit-or-closed-sentinel")
	}
}

func VerifC03cReserveMemory() {
	vC03useContract()
	defer vC03realMemory()
	prio := vUint8()
	leaf, all := vC03dag()
	pre := vC03snap(all)
	size := vRange(0, 1<<62)
	closed := leaf.done
	err := leaf.ReserveMemory(size, prio)
	vC03checkReservation(all, pre, closed, err, network.ScopeStat{Memory: int64(size)})
}

func VerifC03cAddStreamConn() {
	vC03useContract()
	defer vC03realMemory()
	leaf, all := vC03dag()
	pre := vC03snap(all)
	closed := leaf.done
	dir := network.DirInbound
	if vBool() {
		dir = network.DirOutbound
	}
	var d network.ScopeStat
	var err error
	if vBool() {
		err = leaf.AddStream(dir)
		if dir == network.DirInbound {
			d.NumStreamsInbound = 1
		} else {
			d.NumStreamsOutbound = 1
		}
	} else {
		usefd := vBool()
		err = leaf.AddConn(dir, usefd)
		if dir == network.DirInbound {
			d.NumConnsInbound = 1
		} else {
			d.NumConnsOutbound = 1
		}
		if usefd {
			d.NumFD = 1
		}
	}
	vC03checkReservation(all, pre, closed, err, d)
}

// releases of what is held decrease every scope by exactly that amount
func VerifC03cRelease() {
	vC03useContract()
	defer vC03realMemory()
	leaf, all := vC03dag()
	vAssume(!leaf.done)
	st := network.ScopeStat{Memory: vRange64(0, math.MaxInt64), NumStreamsInbound: vRange(0, 1), NumStreamsOutbound: vRange(0, 1),
		NumConnsInbound: vRange(0, 1), NumConnsOutbound: vRange(0, 1), NumFD: vRange(0, 1)}
	// "release <= held" in the leaf and (sum of holders) in every parent
	ok := true
	for _, s := range all {
		ok = vAnd(ok, vAnd(s.rc.memory >= st.Memory, vAnd(s.rc.nstreamsIn >= st.NumStreamsInbound, s.rc.nstreamsOut >= st.NumStreamsOutbound)))
		ok = vAnd(ok, vAnd(s.rc.nconnsIn >= st.NumConnsInbound, vAnd(s.rc.nconnsOut >= st.NumConnsOutbound, s.rc.nfd >= st.NumFD)))
	}
	vAssume(ok)
	pre := vC03snap(all)
	switch vCase(4) {
	case 0:
		vAssume(st.Memory <= 1<<62)
		leaf.ReleaseMemory(int(st.Memory))
		st = network.ScopeStat{Memory: st.Memory}
	case 1:
		leaf.RemoveStream(network.DirInbound)
		vAssume(pre[0].nstreamsIn >= 1)
		for _, p := range pre {
			vAssume(p.nstreamsIn >= 1)
		}
		st = network.ScopeStat{NumStreamsInbound: 1}
	case 2:
		usefd := vBool()
		for _, p := range pre {
			vAssume(p.nconnsOut >= 1 && p.nfd >= 1)
		}
		leaf.RemoveConn(network.DirOutbound, usefd)
		st = network.ScopeStat{NumConnsOutbound: 1, NumFD: vB2I(usefd)}
	case 3:
		leaf.ReleaseResources(st)
	}
	neg := network.ScopeStat{Memory: -st.Memory, NumStreamsInbound: -st.NumStreamsInbound, NumStreamsOutbound: -st.NumStreamsOutbound,
		NumConnsInbound: -st.NumConnsInbound, NumConnsOutbound: -st.NumConnsOutbound, NumFD: -st.NumFD}
	vAssert(vC03delta(all, pre, neg), "released-exactly-once-in-every-scope")
}

// ReserveForChild: the three-stage reservation (memory, streams, conns) used by re-parenting
func VerifC03cReserveForChild() {
	vC03useContract()
	defer vC03realMemory()
	s := vC03scope("parent", nil)
	s.done = vBool()
	closed := s.done
	pre := s.rc
	st := network.ScopeStat{Memory: vRange64(0, math.MaxInt64), NumStreamsInbound: vRange(0, 2), NumStreamsOutbound: vRange(0, 2),
		NumConnsInbound: vRange(0, 1), NumConnsOutbound: vRange(0, 1), NumFD: vRange(0, 1)}
	err := s.ReserveForChild(st)
	all := []*resourceScope{s}
	vC03checkReservation(all, []resources{pre}, closed, err, st)
	if err == nil {
		s.ReleaseForChild(st)
		vAssert(s.rc == pre, "release-for-child-is-the-inverse")
	}
}

// spans: owner chain span -> (span ->) DAG scope with 2 edges
func vC03spanChain() (span *resourceScope, chain []*resourceScope, all []*resourceScope) {
	e1, e2 := vC03scope("e1", nil), vC03scope("e2", nil)
	root := vC03scope("root", []*resourceScope{e1, e2})
	root.done = vBool()
	all = []*resourceScope{root, e1, e2}
	owner := root
	depth := 1 + vCase(2)
	for i := 0; i < depth; i++ {
		sp := &resourceScope{owner: owner, name: "span"}
		sp.rc.limit = owner.rc.limit
		sp.rc.memory = vRange64(0, math.MaxInt64)
		sp.done = vBool()
		owner.refCnt++
		chain = append(chain, sp)
		owner = sp
	}
	span = owner
	// usage of a span is part of its owner's usage
	for i := len(chain) - 1; i >= 0; i-- {
		o := chain[i].owner
		vAssume(chain[i].rc.memory <= o.rc.memory)
	}
	vAssume(vAnd(root.rc.memory <= e1.rc.memory, root.rc.memory <= e2.rc.memory))
	all = append(append([]*resourceScope{}, chain...), all...)
	return
}

func VerifC03cSpanReserveMemory() {
	vC03useContract()
	defer vC03realMemory()
	prio := vUint8()
	span, chain, all := vC03spanChain()
	pre := vC03snap(all)
	size := vRange(0, 1<<62)
	anyClosed := all[len(chain)].done
	for _, c := range chain {
		anyClosed = vOr(anyClosed, c.done)
	}
	err := span.ReserveMemory(size, prio)
	if err == nil {
		vCover("admitted")
		vAssert(!anyClosed, "closed-owner-admits-nothing")
		vAssert(vC03delta(all, pre, network.ScopeStat{Memory: int64(size)}), "span-charge-reaches-owner-chain-and-its-parents")
	} else {
		vCover("refused")
		vAssert(vC03delta(all, pre, network.ScopeStat{}), "refusal-changes-nothing")
		vAssert(vC03errKind(err), "refusal-wraps-limit-or-closed-sentinel")
	}
}

// C03.e Done
func VerifC03eDone() {
	vC03useContract()
	defer vC03realMemory()
	leaf, all := vC03dag()
	vAssume(!leaf.done)
	// what the leaf holds is part of every parent's usage
	ok := true
	for _, s := range all[1:] {
		ok = vAnd(ok, vAnd(s.rc.memory >= leaf.rc.memory, vAnd(s.rc.nstreamsIn >= leaf.rc.nstreamsIn, s.rc.nstreamsOut >= leaf.rc.nstreamsOut)))
		ok = vAnd(ok, vAnd(s.rc.nconnsIn >= leaf.rc.nconnsIn, vAnd(s.rc.nconnsOut >= leaf.rc.nconnsOut, s.rc.nfd >= leaf.rc.nfd)))
	}
	vAssume(ok)
	pre := vC03snap(all)
	held := leaf.rc.stat()
	refs := make([]int, len(all))
	for i, s := range all {
		refs[i] = s.refCnt
	}
	leaf.Done()
	neg := network.ScopeStat{Memory: -held.Memory, NumStreamsInbound: -held.NumStreamsInbound, NumStreamsOutbound: -held.NumStreamsOutbound,
		NumConnsInbound: -held.NumConnsInbound, NumConnsOutbound: -held.NumConnsOutbound, NumFD: -held.NumFD}
	vAssert(vC03delta(all[1:], pre[1:], neg), "done-releases-exactly-the-held-usage-in-every-parent")
	vAssert(leaf.rc.stat() == network.ScopeStat{} && leaf.done, "done-scope-reads-zero")
	for i, s := range all[1:] {
		vAssert(s.refCnt == refs[i+1]-1, "done-drops-one-reference-per-parent")
	}
	// second Done and every later operation change nothing
	post := vC03snap(all)
	leaf.Done()
	vAssert(vC03delta(all, post, network.ScopeStat{}), "second-done-changes-nothing")
	for i, s := range all[1:] {
		vAssert(s.refCnt == refs[i+1]-1, "second-done-keeps-references")
	}
	e1 := leaf.ReserveMemory(vRange(0, 1<<62), 255)
	e2 := leaf.AddStream(network.DirInbound)
	e3 := leaf.AddConn(network.DirOutbound, true)
	leaf.ReleaseMemory(vRange(0, 1<<62))
	leaf.RemoveStream(network.DirInbound)
	leaf.RemoveConn(network.DirOutbound, true)
	leaf.ReleaseResources(held)
	_, e4 := leaf.BeginSpan()
	vAssert(e1 != nil && e2 != nil && e3 != nil && e4 != nil, "operations-after-done-are-refused")
	vAssert(errors.Is(e1, network.ErrResourceScopeClosed), "closed-sentinel")
	vAssert(vC03delta(all, post, network.ScopeStat{}), "operations-after-done-change-nothing")
}

// nested spans, released in any order, leave every scope at its previous value
func VerifC03eSpansAnyOrder() {
	vC03useContract()
	defer vC03realMemory()
	e1 := vC03scope("e1", nil)
	root := vC03scope("root", []*resourceScope{e1})
	vAssume(root.rc.memory <= e1.rc.memory)
	all := []*resourceScope{root, e1}
	pre := vC03snap(all)
	ref0 := root.refCnt
	s1i, err := root.BeginSpan()
	vAssume(err == nil)
	s1 := s1i.(*resourceScope)
	s2i, err := s1.BeginSpan()
	vAssume(err == nil)
	s2 := s2i.(*resourceScope)
	a, b := vRange(0, 1<<61), vRange(0, 1<<61)
	r1 := s1.ReserveMemory(a, 255)
	r2 := s2.ReserveMemory(b, 255)
	if r1 == nil && r2 == nil {
		vCover("both-admitted")
		vAssert(vC03delta(all, pre, network.ScopeStat{Memory: int64(a) + int64(b)}), "nested-span-charges-accumulate")
		vAssert(s1.rc.memory == int64(a)+int64(b) && s2.rc.memory == int64(b), "span-usage")
	}
	switch vCase(3) {
	case 0:
		s2.Done()
		s1.Done()
	case 1:
		s1.Done()
		vAssert(vC03delta(all, pre, network.ScopeStat{}), "outer-done-releases-inner-usage-too")
		s2.Done() // after its owner: must not release twice
	case 2:
		s2.Done()
		s2.Done()
		s1.Done()
	}
	vAssert(vC03delta(all, pre, network.ScopeStat{}), "all-spans-done-restores-every-scope")
	vAssert(root.refCnt == ref0, "span-references-balanced")
}
