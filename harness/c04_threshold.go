//go:build verif

//verif:dir p2p/net/upgrader
//verif:obligation C04.j the accept loop's back-pressure gate (threshold: Acquire never blocks, Wait parks while count >= cutoff), for every cutoff 1..2 and every overshoot 0..2 above it: a parked Wait returns as soon as the count has dropped below the cutoff - also when the count had run past the cutoff before (handshakes finishing while nobody accepts) - and not earlier; so the accept loop is never left parked for ever holding a raw connection and its scope, and the listener can always be closed
//verif:bound cutoff 1..2, count up to cutoff+2, one waiter, releases one at a time with the waiter given time to run in between
//verif:outside several concurrent waiters (the listener has one accept loop)
package upgrader

func VerifC04jThreshold() {
	cutoff := 1 + vCase(2)
	n := cutoff + vCase(3) // how far the count has run: at the cutoff, or 1..2 past it
	t := newThreshold(cutoff)
	for i := 0; i < n; i++ {
		t.Acquire()
	}
	woke := false
	go func() {
		t.Wait()
		woke = true
	}()
	settle := func() {
		for i := 0; i < 6; i++ {
			vYield()
		}
	}
	settle()
	vAssert(!woke, "Wait parks while the count is at or above the cutoff")
	for left := n - 1; left >= 0; left-- {
		t.Release()
		settle()
		if left >= cutoff {
			vAssert(!woke, "Wait does not return while the count is still at or above the cutoff")
		} else {
			vAssert(woke, "Wait returns once the count has dropped below the cutoff, also after the count had run past it")
		}
	}
	if n > cutoff {
		vCover("count-had-run-past-the-cutoff")
	}
}
