//go:build verif

//verif:dir p2p/host/eventbus
//verif:obligation C06.f the event bus the swarm publishes connectedness events on: an emitter that stays open keeps its event type alive whatever subscribers come and go - for every history of 3 (thorough 4) operations from {subscribe, close the oldest subscription, emit}, every subscriber that is attached when an event is emitted receives it exactly once, in order, also a subscriber that attached after the number of subscribers had dropped to zero; nothing is delivered to a closed subscription
//verif:bound one event type, one long-lived emitter, <= 3 subscriptions with buffers large enough never to block, history 3 (4) + a late subscriber + final emit
//verif:outside wildcard subscribers, stateful emitters, slow consumers (blocking sends), metrics
package eventbus

type vC06fEvt struct{ N int }

func VerifC06fBusKeepsLiveEmitters() {
	b := NewBus()
	em, err := b.Emitter(new(vC06fEvt))
	vAssert(err == nil, "an emitter is created")
	type subT struct {
		s interface {
			Out() <-chan interface{}
			Close() error
		}
		want   []int
		closed bool
	}
	var subs []*subT
	next := 1
	emit := func() {
		vAssert(em.Emit(vC06fEvt{N: next}) == nil, "emit succeeds")
		for _, s := range subs {
			if !s.closed {
				s.want = append(s.want, next)
			}
		}
		next++
	}
	K := 3 + vTier()
	for i := 0; i < K; i++ {
		switch vCase(3) {
		case 0:
			s, err := b.Subscribe(new(vC06fEvt), BufSize(8))
			vAssert(err == nil, "subscribe succeeds")
			subs = append(subs, &subT{s: s})
		case 1:
			for _, s := range subs {
				if !s.closed {
					s.closed = true
					vAssert(s.s.Close() == nil, "close succeeds")
					vCover("subscription-closed")
					break
				}
			}
		default:
			emit()
		}
	}
	// a late subscriber, then one more event
	late, err := b.Subscribe(new(vC06fEvt), BufSize(8))
	vAssert(err == nil, "a later subscription succeeds")
	subs = append(subs, &subT{s: late})
	emit()
	for _, s := range subs {
		if s.closed {
			continue
		}
		for _, w := range s.want {
			select {
			case e := <-s.s.Out():
				vAssert(e.(vC06fEvt).N == w, "every attached subscriber receives every event exactly once, in order")
			default:
				vAssert(false, "an event published while the emitter is open reaches every attached subscriber (also one that attached after all others had left)")
			}
		}
		select {
		case <-s.s.Out():
			vAssert(false, "nothing is delivered twice")
		default:
		}
	}
}
