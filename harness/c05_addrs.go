//go:build verif

//verif:dir p2p/net/swarm
//verif:hook p2p/net/swarm Swarm.filterKnownUndialables
//verif:hook p2p/net/swarm Swarm.TransportForDialing
//verif:obligation C05.g the candidate list a dial works from (real addrsForDial, resolveAddrs, chainResolvers, stripP2PComponent and ma.Unique over really parsed multiaddrs): for a peer known by any subset of {a bare transport address, the same address with a /p2p suffix, a /dnsaddr whose record names that address with or without the suffix, another address}, every candidate is a bare address (no /p2p suffix), no address appears twice - so the worker cannot hand one address to a transport twice - and no known or resolved address is lost
//verif:bound 4 known addresses (each present or not), one /dnsaddr resolution step
//verif:stub DNS resolver stub; filterKnownUndialables hooked to the identity, TransportForDialing to a plain transport; peerstore stub
//verif:outside DNS itself, transport-specific resolvers, the undialable / black-hole / gater filters (C10.c, C20.c)
package swarm

import (
	"context"
	"time"

	"github.com/libp2p/go-libp2p/core/peer"
	"github.com/libp2p/go-libp2p/core/peerstore"
	"github.com/libp2p/go-libp2p/core/transport"
	ma "github.com/multiformats/go-multiaddr"
)

type vC05gPs struct {
	peerstore.Peerstore
	known []ma.Multiaddr
}

func (p *vC05gPs) Addrs(peer.ID) []ma.Multiaddr                          { return p.known }
func (p *vC05gPs) AddAddrs(_ peer.ID, a []ma.Multiaddr, _ time.Duration) {}

type vC05gResolver struct{ answer []ma.Multiaddr }

func (r *vC05gResolver) ResolveDNSAddr(ctx context.Context, expected peer.ID, a ma.Multiaddr, recursion, limit int) ([]ma.Multiaddr, error) {
	return r.answer, nil
}
func (r *vC05gResolver) ResolveDNSComponent(ctx context.Context, a ma.Multiaddr, limit int) ([]ma.Multiaddr, error) {
	return []ma.Multiaddr{a}, nil
}

type vC05gTpt struct{ transport.Transport }

func (vC05gTpt) Proxy() bool { return false }

func vC05gParse(s string) ma.Multiaddr {
	m, err := ma.NewMultiaddr(s)
	if err != nil {
		panic(err)
	}
	return m
}

func VerifC05gCandidateAddrs() {
	const id = "QmYyQSo1c1Ym7orWxLYvCrM2EmxFTANf8wXmmE7DWjhx5N"
	pid, err := peer.Decode(id)
	vAssume(err == nil)
	bare := vC05gParse("/ip4/1.2.3.4/tcp/1234")
	suffixed := vC05gParse("/ip4/1.2.3.4/tcp/1234/p2p/" + id)
	other := vC05gParse("/ip4/5.6.7.8/udp/4001/quic-v1")
	dnsaddr := vC05gParse("/dnsaddr/example.com")
	ps := &vC05gPs{}
	have := vBoolSlice(4)
	for i, a := range []ma.Multiaddr{bare, suffixed, other, dnsaddr} {
		if have[i] {
			ps.known = append(ps.known, a)
		}
	}
	res := &vC05gResolver{}
	switch vCase(3) { // what the /dnsaddr record says
	case 0:
		res.answer = []ma.Multiaddr{suffixed}
	case 1:
		res.answer = []ma.Multiaddr{bare}
	case 2:
		res.answer = []ma.Multiaddr{suffixed, other}
	}
	VerifHook_Swarm_filterKnownUndialables = func(s *Swarm, p peer.ID, addrs []ma.Multiaddr) ([]ma.Multiaddr, []TransportError) {
		return addrs, nil
	}
	VerifHook_Swarm_TransportForDialing = func(s *Swarm, a ma.Multiaddr) transport.Transport { return vC05gTpt{} }
	defer func() { VerifHook_Swarm_filterKnownUndialables, VerifHook_Swarm_TransportForDialing = nil, nil }()
	s := &Swarm{local: "self", peers: ps, multiaddrResolver: res}
	good, _, err := s.addrsForDial(context.Background(), pid)
	if len(ps.known) == 0 {
		vAssert(err != nil, "no addresses, no candidates")
		return
	}
	vAssert(err == nil, "a peer with addresses has candidates")
	for i := range good {
		id, _ := peer.IDFromP2PAddr(good[i])
		vAssert(id == "", "every candidate is a bare transport address")
		for j := i + 1; j < len(good); j++ {
			vAssert(!good[i].Equal(good[j]), "no address appears twice among the candidates")
		}
	}
	has := func(a ma.Multiaddr) bool {
		for _, g := range good {
			if g.Equal(a) {
				return true
			}
		}
		return false
	}
	if have[0] || have[1] || have[3] {
		vAssert(has(bare), "the peer's transport address is a candidate however it was learned")
	}
	if have[2] {
		vAssert(has(other), "no known address is lost")
	}
	if have[3] && (have[0] || have[1]) {
		vCover("same-address-known-and-resolved")
	}
}
