//go:build verif

//verif:dir p2p/net/swarm
//verif:hook p2p/net/swarm Swarm.TransportForDialing
//verif:hook p2p/net/swarm blackHoleDetector.RecordResult
//verif:obligation C20.d wiring of the detector into Swarm.dialAddr: every dial that reaches a transport reports exactly one result for exactly the dialed address, and the result is "success" iff the transport returned a connection - also when the dial's context was cancelled while the transport was dialing (a success while blocked must always be able to clear the state); a dial that never reaches a transport (dial to self, context already done, no transport) reports nothing
//verif:shard VerifC20eWindowHistory 8
//verif:obligation C20.e the success counter through its public API on every history of 9 (thorough 10) dial results from the constructor (N = 3, MinSuccesses 1..2), against the statement: probing until a full window exists, then blocked iff the last N results since the last recovery hold fewer than the required successes, a single success while blocked clears everything - in particular across recoveries, where state left over from before the reset must not matter
//verif:bound one dial per run; transport outcome, mid-dial cancellation and the authenticated peer symbolic
//verif:stub transport / connection stubs; blackHoleDetector.RecordResult hooked to a recorder (the detector itself is C20.a-c)
//verif:outside which dials the dial worker issues (C05.f), metrics
package swarm

import (
	"context"
	"errors"

	"github.com/libp2p/go-libp2p/core/network"
	"github.com/libp2p/go-libp2p/core/peer"
	"github.com/libp2p/go-libp2p/core/transport"
	ma "github.com/multiformats/go-multiaddr"
)

type vC20tc struct {
	transport.CapableConn
	p      peer.ID
	closes int
}

func (c *vC20tc) RemotePeer() peer.ID           { return c.p }
func (c *vC20tc) RemoteMultiaddr() ma.Multiaddr { return nil }
func (c *vC20tc) Close() error                  { c.closes++; return nil }
func (c *vC20tc) Stat() network.ConnStats       { return network.ConnStats{} }

type vC20tpt struct {
	transport.Transport
	conn      *vC20tc
	fail      bool
	cancelMid context.CancelFunc
	dials     int
}

func (t *vC20tpt) Dial(ctx context.Context, a ma.Multiaddr, p peer.ID) (transport.CapableConn, error) {
	t.dials++
	if t.cancelMid != nil {
		t.cancelMid() // e.g. a parallel dial won, or the caller gave up, while this dial was completing
	}
	if t.fail {
		return nil, errors.New("dial failed")
	}
	return t.conn, nil
}

func VerifC20dDialAddrWiring() {
	ids := []peer.ID{"expected-peer", "other-peer"}
	tc := &vC20tc{p: ids[vCase(2)]}
	tpt := &vC20tpt{conn: tc, fail: vBool()}
	noTransport := vBool()
	VerifHook_Swarm_TransportForDialing = func(s *Swarm, a ma.Multiaddr) transport.Transport {
		if noTransport {
			return nil
		}
		return tpt
	}
	type rec struct {
		a  ma.Multiaddr
		ok bool
	}
	var recs []rec
	VerifHook_blackHoleDetector_RecordResult = func(d *blackHoleDetector, a ma.Multiaddr, ok bool) { recs = append(recs, rec{a, ok}) }
	defer func() { VerifHook_Swarm_TransportForDialing, VerifHook_blackHoleDetector_RecordResult = nil, nil }()
	s := &Swarm{local: "self"}
	ctx, cancelCause := context.WithCancelCause(context.Background())
	var why error // a plain cancellation, or the one the dial worker issues when another dial to the peer has won
	if vBool() {
		why = errConcurrentDialSuccessful
		vCover("cancelled-because-another-dial-won")
	}
	cancel := func() { cancelCause(why) }
	defer cancel()
	switch vCase(3) {
	case 1:
		cancel() // already done before the dial starts
	case 2:
		tpt.cancelMid = cancel
		vCover("cancelled-while-dialing")
	}
	target := peer.ID("expected-peer")
	if vBool() {
		target = "self"
	}
	addr := ma.StringCast("/ip4/8.8.8.8/udp/1/quic-v1")
	s.dialAddr(ctx, target, addr, nil)
	if tpt.dials == 0 {
		vCover("transport-not-reached")
		vAssert(len(recs) == 0, "a dial that never reaches a transport reports no result")
		return
	}
	vCover("transport-reached")
	vAssert(tpt.dials == 1 && len(recs) == 1, "a dial reports exactly one result")
	vAssert(recs[0].a.Equal(addr), "the result is reported for the dialed address")
	vAssert(recs[0].ok == !tpt.fail, "the reported result is success iff the transport returned a connection")
}

// ---- C20.e: the window through the public API, across recoveries ----

func VerifC20eWindowHistory() {
	first := vCase(8) // split: the first three results
	const N = 3
	min := 1 + vCase(2)
	b := &BlackHoleSuccessCounter{N: N, MinSuccesses: min, Name: "verif"}
	K := 9 + vTier()
	var window []bool // reference: the results since the last recovery, at most the last N
	state := blackHoleStateProbing
	for i := 0; i < K; i++ {
		var ok bool
		if i < 3 {
			ok = first&(1<<i) != 0
		} else {
			ok = vBool()
		}
		b.RecordResult(ok)
		if state == blackHoleStateBlocked && ok {
			window = nil // a single success while blocked clears the state
			vCover("recovered")
		} else {
			window = append(window, ok)
			if len(window) > N {
				window = window[1:]
			}
		}
		succ := 0
		for _, r := range window {
			if r {
				succ++
			}
		}
		switch {
		case len(window) < N:
			state = blackHoleStateProbing
		case succ >= min:
			state = blackHoleStateAllowed
		default:
			state = blackHoleStateBlocked
		}
		vAssert(b.State() == state, "after every result the state is: probing until a full window exists, then blocked iff the last N results (since the last recovery) hold fewer than the required successes")
		if state == blackHoleStateBlocked {
			vCover("blocked")
		}
	}
}
