//go:build verif

//verif:dir p2p/net/swarm
//verif:shard VerifC05iRankerPermutation 8
//verif:obligation C05.i the default dial ranker (DefaultDialRanker / getAddrDelay with its happy-eyeballs reordering), for every subset of 11 real addresses (public IPv6 and IPv4 x TCP, QUIC, WebTransport; several of a kind so that the reordering moves addresses past each other; a private address; a relay address; a DNS address): the ranking is a permutation of the addresses given - every address exactly once, nothing added - so the worker attempts every candidate and none twice; delays are never negative and relay addresses never come before a public direct one
//verif:bound subsets of 11 fixed real multiaddrs (2^11 inputs; at most 8 public ones, the size the sort summary handles), input order as listed
//verif:outside the concrete delay values (a policy, not part of the statement)
package swarm

import (
	ma "github.com/multiformats/go-multiaddr"
)

var vC05iAddrs = vC05iParse([]string{
	"/ip6/2001:db8::1/tcp/1",
	"/ip6/2001:db8::2/tcp/1",
	"/ip4/1.2.3.4/tcp/1",
	"/ip4/1.2.3.5/tcp/1",
	"/ip6/2001:db8::1/udp/1/quic-v1",
	"/ip6/2001:db8::2/udp/1/quic-v1",
	"/ip4/1.2.3.4/udp/1/quic-v1",
	"/ip4/1.2.3.4/udp/1/quic-v1/webtransport",
	"/ip4/192.168.1.5/tcp/1",
	"/ip4/5.6.7.8/tcp/1/p2p/QmYyQSo1c1Ym7orWxLYvCrM2EmxFTANf8wXmmE7DWjhx5N/p2p-circuit",
	"/dns4/example.com/tcp/1",
})

func vC05iParse(ss []string) []ma.Multiaddr {
	var out []ma.Multiaddr
	for _, s := range ss {
		a, err := ma.NewMultiaddr(s)
		if err != nil {
			panic(err)
		}
		out = append(out, a)
	}
	return out
}

func VerifC05iRankerPermutation() {
	// the two IPv6 TCP addresses ahead of the IPv4 ones are what the reordering has to move past
	first := vCase(8) // the first three picks in one draw: what the parallel shards split on
	rest := vBoolSlice(len(vC05iAddrs) - 3)
	var in []ma.Multiaddr
	for i, a := range vC05iAddrs {
		if (i < 3 && first&(1<<i) != 0) || (i >= 3 && rest[i-3]) {
			in = append(in, a)
		}
	}
	given := append([]ma.Multiaddr{}, in...)
	res := DefaultDialRanker(in)
	vAssert(len(res) == len(given), "the ranking has exactly as many entries as addresses were given")
	for _, g := range given {
		n := 0
		for _, r := range res {
			if r.Addr.Equal(g) {
				n++
			}
		}
		vAssert(n == 1, "every address given is ranked exactly once (none dropped, none twice)")
	}
	sawRelay := false
	for _, r := range res {
		vAssert(r.Delay >= 0, "no negative delay")
		if isRelayAddr(r.Addr) {
			sawRelay = true
		} else if sawRelay && !startsWithDNSComponent(r.Addr) {
			vAssert(false, "a relay address is never ranked before a direct IP address")
		}
	}
	if len(given) >= 5 {
		vCover("five-or-more-addresses")
	}
}
