//go:build verif

//verif:dir p2p/host/peerstore/pstoreds
//verif:also C08 VerifC09eDsRecords
//verif:hook core/record Envelope.Record
//verif:hook core/record Envelope.Marshal
//verif:hook core/record ConsumeEnvelope
//verif:hook core/peer ID.MatchesPublicKey
//verif:shard VerifC09eDsRecords 12
//verif:obligation C09.e (and C08: a peer record is consumed by a peerstore only if its peer ID is the ID of the signing key - a record sealed by a foreign key is refused and leaves no trace in addresses or stored record) signed peer records in the datastore-backed book, against the same reference model as the memory book (C09.d), on every history of 2 (thorough 3) operations from {ConsumePeerRecord(record over 2 addresses, seq 0..3, Temp / RecentlyConnected TTL), SetAddrs(connected), UpdateAddrs(class -> 0), UpdateAddrs(Connected -> Temp), ClearAddrs} with symbolic clock advances: a record is accepted iff its sequence number is not lower than the stored one, evicts the addresses of the previous record it no longer lists unless a live connection holds them, Addrs equals the reference after every step, and GetPeerRecord returns the latest accepted envelope exactly while the peer continuously has a live address - never after all its addresses expired or were cleared
//verif:bound one peer, 2 addresses, history 2 (3), whole-second instants
//verif:stub Envelope.Record / Envelope.Marshal / record.ConsumeEnvelope / ID.MatchesPublicKey hooked (an envelope marshals to an opaque name that unmarshals to the same envelope: crypto and protobuf outside); flush hooked to "mark clean"; cache is a harness map; multiaddrs are atoms
//verif:outside the serialized record surviving a real close / reopen, ARC eviction, signature validation (C08)
package pstoreds

import (
	"errors"
	"fmt"
	"time"

	"github.com/libp2p/go-libp2p/core/crypto"
	"github.com/libp2p/go-libp2p/core/peer"
	pstore "github.com/libp2p/go-libp2p/core/peerstore"
	"github.com/libp2p/go-libp2p/core/record"
	ma "github.com/multiformats/go-multiaddr"
)

type vC09eRef struct {
	present  [2]bool
	ttl      [2]time.Duration
	exp      [2]int64
	rec      bool
	recSeq   uint64
	recAddrs [2]bool
}

func vC09eExpiry(now int64, ttl time.Duration) int64 {
	if ttl >= pstore.ConnectedAddrTTL {
		return 1 << 62
	}
	return now + int64(ttl/time.Second)
}

func (r *vC09eRef) settle() {
	if !r.present[0] && !r.present[1] {
		r.rec = false
	}
}
func (r *vC09eRef) expire(now int64) {
	for i := range r.present {
		if r.present[i] && r.exp[i] <= now {
			r.present[i] = false
		}
	}
	r.settle()
}
func (r *vC09eRef) add(i int, ttl time.Duration, now int64) {
	e := vC09eExpiry(now, ttl)
	if !r.present[i] {
		r.present[i], r.ttl[i], r.exp[i] = true, ttl, e
		return
	}
	if ttl > r.ttl[i] {
		r.ttl[i] = ttl
	}
	if e > r.exp[i] {
		r.exp[i] = e
	}
}

var vC09eRecs []*peer.PeerRecord
var vC09eEnvs []*record.Envelope

func VerifC09eDsRecords() {
	first := vCase(12)
	record.VerifHook_Envelope_Record = func(e *record.Envelope) (record.Record, error) {
		for i, x := range vC09eEnvs {
			if x == e {
				return vC09eRecs[i], nil
			}
		}
		return nil, errors.New("unknown envelope")
	}
	record.VerifHook_Envelope_Marshal = func(e *record.Envelope) ([]byte, error) {
		for i, x := range vC09eEnvs {
			if x == e {
				return []byte(fmt.Sprint("envelope-", i)), nil
			}
		}
		return nil, errors.New("unknown envelope")
	}
	record.VerifHook_ConsumeEnvelope = func(data []byte, domain string) (*record.Envelope, record.Record, error) {
		for i := range vC09eEnvs {
			if string(data) == fmt.Sprint("envelope-", i) && domain == peer.PeerRecordEnvelopeDomain {
				return vC09eEnvs[i], vC09eRecs[i], nil
			}
		}
		return nil, nil, errors.New("bad envelope")
	}
	peer.VerifHook_ID_MatchesPublicKey = func(id peer.ID, pk crypto.PubKey) bool { return !vC09foreignSigner }
	defer func() {
		record.VerifHook_Envelope_Record, record.VerifHook_Envelope_Marshal, record.VerifHook_ConsumeEnvelope = nil, nil, nil
		peer.VerifHook_ID_MatchesPublicKey = nil
		VerifHook_addrsRecord_flush = nil
	}()
	vC09eRecs, vC09eEnvs = nil, nil
	K := 2 + vTier()
	ab, _ := vC09book(nil)
	ref := &vC09eRef{}
	now := int64(1000)
	for i := 0; i < K; i++ {
		now += int64(vRange(0, 2000))
		vC09now = time.Unix(now, 0)
		op := first
		if i > 0 {
			op = vCase(12)
		}
		ref.expire(now)
		switch {
		case op < 6:
			mask := 1 + op%3
			seq := uint64(vRange(0, 3))
			ttl := vC09ttls[op/3] // Temp or RecentlyConnected
			if i == 0 && vBool() {
				ttl = 0 // a record consumed with a non-positive TTL brings no addresses: it must not linger and come back later
				vCover("record-consumed-with-a-non-positive-ttl")
			}
			rec := &peer.PeerRecord{PeerID: vC09peer, Seq: seq}
			for b := 0; b < 2; b++ {
				if mask&(1<<b) != 0 {
					rec.Addrs = append(rec.Addrs, vC09addrs[b])
				}
			}
			env := &record.Envelope{}
			vC09eRecs, vC09eEnvs = append(vC09eRecs, rec), append(vC09eEnvs, env)
			vC09foreignSigner = i == K-1 && vBool() // the last operation may offer a record sealed by another key
			ok, err := ab.ConsumePeerRecord(env, ttl)
			if vC09foreignSigner {
				vC09foreignSigner = false
				vCover("record-sealed-by-a-foreign-key")
				vAssert(!ok && err != nil, "a record whose peer ID is not the ID of the signing key is refused")
				ok = false // and must leave no trace: the reference does not move
				vC09eRecs, vC09eEnvs = vC09eRecs[:len(vC09eRecs)-1], vC09eEnvs[:len(vC09eEnvs)-1]
			} else {
				want := !(ref.rec && ref.recSeq > seq)
				vAssert(err == nil && ok == want, "record accepted iff its seq is not lower than the stored one")
			}
			if ok {
				vCover("record-accepted")
				if ref.rec {
					for b := 0; b < 2; b++ {
						if ref.recAddrs[b] && mask&(1<<b) == 0 && ref.present[b] && ref.ttl[b] < pstore.ConnectedAddrTTL {
							ref.present[b] = false
							vCover("superseded-address-evicted")
						}
					}
				}
				ref.rec, ref.recSeq = true, seq
				for b := 0; b < 2; b++ {
					ref.recAddrs[b] = mask&(1<<b) != 0
					if ref.recAddrs[b] && ttl > 0 {
						ref.add(b, ttl, now)
					}
				}
			}
		case op < 8:
			b := op - 6
			ab.SetAddrs(vC09peer, []ma.Multiaddr{vC09addrs[b]}, pstore.ConnectedAddrTTL)
			ref.present[b], ref.ttl[b], ref.exp[b] = true, pstore.ConnectedAddrTTL, vC09eExpiry(now, pstore.ConnectedAddrTTL)
		case op < 10:
			old := vC09ttls[op-8]
			ab.UpdateAddrs(vC09peer, old, 0)
			for b := range ref.present {
				if ref.present[b] && ref.ttl[b] == old {
					ref.present[b] = false
				}
			}
		case op == 10:
			ab.UpdateAddrs(vC09peer, pstore.ConnectedAddrTTL, pstore.TempAddrTTL)
			for b := range ref.present {
				if ref.present[b] && ref.ttl[b] == pstore.ConnectedAddrTTL {
					ref.ttl[b], ref.exp[b] = pstore.TempAddrTTL, vC09eExpiry(now, pstore.TempAddrTTL)
				}
			}
		default:
			ab.ClearAddrs(vC09peer)
			ref.present = [2]bool{}
		}
		ref.settle()
		got := ab.Addrs(vC09peer)
		var has [2]bool
		extra := false
		for _, g := range got {
			switch {
			case g.Equal(vC09addrs[0]) && !has[0]:
				has[0] = true
			case g.Equal(vC09addrs[1]) && !has[1]:
				has[1] = true
			default:
				extra = true
			}
		}
		vAssert(!extra && has == ref.present, "Addrs == addresses whose latest expiry lies in the future")
		env := ab.GetPeerRecord(vC09peer)
		if ref.rec {
			vCover("record-retrievable")
			latest := 0
			for j := len(vC09eRecs) - 1; j >= 0; j-- {
				if vC09eRecs[j].Seq == ref.recSeq {
					latest = j
					break
				}
			}
			vAssert(env != nil && env == vC09eEnvs[latest], "record retrievable while the peer continuously has live addresses")
		} else {
			vAssert(env == nil, "record never returned once all addresses expired or were cleared")
		}
	}
}
