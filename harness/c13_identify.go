//go:build verif

//verif:dir p2p/protocol/identify
//verif:also C08 VerifC13bConsumeMessage
//verif:hook core/peer IDFromPublicKey
//verif:hook core/record Envelope.Record
//verif:hook core/record UnmarshalEnvelope
//verif:hook core/record Envelope.validate
//verif:hook core/peer PeerRecord.UnmarshalRecord
//verif:hook core/crypto UnmarshalPublicKey
//verif:hook p2p/protocol/identify filterAddrs
//verif:replace github.com/multiformats/go-multiaddr.NewMultiaddrBytes vC13addrFromBytes
//verif:obligation C13.a consumeSignedPeerRecord uses a signed record's addresses only if the envelope's key hashes to the connection's authenticated peer AND the record names that peer; consumeReceivedPubKey stores a key only under the connection's remote peer and only if it hashes to that peer's ID
//verif:obligation C13.b consumeMessage: every peerstore write (protocols, addresses, TTL updates, metadata, key) is keyed by the connection's authenticated remote peer, whatever the message contains; at most 1024 protocols and 500 addresses are retained, whether the addresses come from the listen-address field or from a signed record; addresses get the connected TTL iff a connection to the peer exists at that moment, decided while holding the address lock (so a concurrent last disconnect cannot slip in between), otherwise the finite recently-connected TTL; an invalid or foreign signed record is not used and not published
//verif:obligation C13.c netNotifiee.Disconnected: when the last connection closes, under the address lock, connected addresses are downgraded (Connected -> Temp, at most 20 addresses incl. the closed connection's own re-added as RecentlyConnected, Temp dropped); while another connection exists nothing is downgraded
//verif:bound messages with 0 / 1024 / 1026 protocols and 0 / 500 / 502 listen addresses, signed record present or not with every validation outcome; 0 / 20 / 25 stored addresses at disconnect
//verif:stub host / peerstore / network / connection / emitter stubs logging every write; record.UnmarshalEnvelope, Envelope.validate, Envelope.Record, PeerRecord.UnmarshalRecord (so the real ConsumeEnvelope / ConsumeTypedEnvelope bodies run, whichever identify uses), crypto.UnmarshalPublicKey, peer.IDFromPublicKey hooked with symbolic outcomes (idealised crypto); filterAddrs hooked to the identity (address-class filtering outside); multiaddrs are atoms in the symbolic run
//verif:assume the connection has a non-empty authenticated remote peer ID
//verif:outside message chunking, identify-vs-disconnect races beyond the lock check, IdentifyWait release, address class filtering
package identify

import (
	"errors"
	"fmt"
	"time"

	"github.com/libp2p/go-libp2p/core/crypto"
	"github.com/libp2p/go-libp2p/core/host"
	"github.com/libp2p/go-libp2p/core/network"
	"github.com/libp2p/go-libp2p/core/peer"
	"github.com/libp2p/go-libp2p/core/peerstore"
	"github.com/libp2p/go-libp2p/core/protocol"
	"github.com/libp2p/go-libp2p/core/record"
	"github.com/libp2p/go-libp2p/p2p/protocol/identify/pb"
	ma "github.com/multiformats/go-multiaddr"
)

const vC13remote = peer.ID("remote-peer")
const vC13other = peer.ID("other-peer")

func vC13addr(i int) ma.Multiaddr {
	if vNative() {
		return ma.StringCast(fmt.Sprintf("/ip4/10.0.%d.%d/tcp/1", i/256, i%256))
	}
	return ma.StringCast(fmt.Sprintf("/atom/%d", i))
}

func vC13addrFromBytes(b []byte) (ma.Multiaddr, error) {
	if len(b) == 0 {
		return nil, errors.New("empty multiaddr")
	}
	return ma.StringCast(string(b[1:])), nil // atoms carry their text after a marker byte
}

type vC13key struct {
	crypto.PubKey
	id peer.ID
}

func (k *vC13key) Equals(o crypto.Key) bool { return o == crypto.Key(k) }

type vC13ps struct {
	peerstore.Peerstore
	foreign    int // writes keyed by someone else than the remote peer
	protocols  int
	addAddrs   []int
	addTTLs    []time.Duration
	firstAdded ma.Multiaddr
	updates    []string
	keys       []crypto.PubKey
	stored     []ma.Multiaddr
	curKey     crypto.PubKey
}

func (ps *vC13ps) chk(p peer.ID) {
	if p != vC13remote {
		ps.foreign++
	}
}
func (ps *vC13ps) GetProtocols(p peer.ID) ([]protocol.ID, error) { return nil, nil }
func (ps *vC13ps) SetProtocols(p peer.ID, ids ...protocol.ID) error {
	ps.chk(p)
	ps.protocols = len(ids)
	return nil
}
func (ps *vC13ps) UpdateAddrs(p peer.ID, o, n time.Duration) {
	ps.chk(p)
	ps.updates = append(ps.updates, fmt.Sprint(int64(o), ">", int64(n)))
}
func (ps *vC13ps) AddAddrs(p peer.ID, a []ma.Multiaddr, ttl time.Duration) {
	ps.chk(p)
	ps.addAddrs = append(ps.addAddrs, len(a))
	ps.addTTLs = append(ps.addTTLs, ttl)
	if len(a) > 0 {
		ps.firstAdded = a[0]
	}
}
func (ps *vC13ps) Addrs(p peer.ID) []ma.Multiaddr       { ps.chk(p); return ps.stored }
func (ps *vC13ps) Put(p peer.ID, k string, v any) error { ps.chk(p); return nil }
func (ps *vC13ps) PubKey(p peer.ID) crypto.PubKey       { ps.chk(p); return ps.curKey }
func (ps *vC13ps) AddPubKey(p peer.ID, k crypto.PubKey) error {
	ps.chk(p)
	ps.keys = append(ps.keys, k)
	return nil
}

type vC13net struct {
	network.Network
	ids         *idService
	state       network.Connectedness
	askedLocked []bool
}

func (n *vC13net) Connectedness(p peer.ID) network.Connectedness {
	// was the address lock held when the decision was taken?
	if n.ids.addrMu.TryLock() {
		n.ids.addrMu.Unlock()
		n.askedLocked = append(n.askedLocked, false)
	} else {
		n.askedLocked = append(n.askedLocked, true)
	}
	return n.state
}

type vC13host struct {
	host.Host
	ps *vC13ps
	nw *vC13net
}

func (h *vC13host) Peerstore() peerstore.Peerstore { return h.ps }
func (h *vC13host) Network() network.Network       { return h.nw }

type vC13conn struct {
	network.Conn
	addr ma.Multiaddr
}

func (c *vC13conn) RemotePeer() peer.ID           { return vC13remote }
func (c *vC13conn) LocalPeer() peer.ID            { return "self" }
func (c *vC13conn) RemoteMultiaddr() ma.Multiaddr { return c.addr }

type vC13emitter struct{ events []interface{} }

func (e *vC13emitter) Emit(ev interface{}) error { e.events = append(e.events, ev); return nil }
func (e *vC13emitter) Close() error              { return nil }

func vC13service() (*idService, *vC13ps, *vC13net, *vC13emitter) {
	ps := &vC13ps{}
	nw := &vC13net{}
	ids := &idService{Host: &vC13host{ps: ps, nw: nw}}
	nw.ids = ids
	em := &vC13emitter{}
	ids.emitters.evtPeerProtocolsUpdated, ids.emitters.evtPeerIdentificationCompleted, ids.emitters.evtPeerIdentificationFailed = em, em, em
	return ids, ps, nw, em
}

func vC13hooks(keyID, recID peer.ID, recMode int) {
	peer.VerifHook_IDFromPublicKey = func(k crypto.PubKey) (peer.ID, error) {
		if vk, ok := k.(*vC13key); ok {
			return vk.id, nil
		}
		return "", errors.New("bad key")
	}
	record.VerifHook_Envelope_Record = func(e *record.Envelope) (record.Record, error) {
		switch recMode {
		case 1:
			return nil, errors.New("bad payload")
		}
		rec := &peer.PeerRecord{PeerID: recID}
		for i := 0; i < vC13recAddrs; i++ {
			rec.Addrs = append(rec.Addrs, vC13addr(900+i))
		}
		return rec, nil
	}
	VerifHook_filterAddrs = func(a []ma.Multiaddr, r ma.Multiaddr) []ma.Multiaddr { return a }
}

var vC13recAddrs = 2 // addresses carried by the signed record

func vC13unhook() {
	vC13recAddrs = 2
	peer.VerifHook_IDFromPublicKey, record.VerifHook_Envelope_Record = nil, nil
	record.VerifHook_UnmarshalEnvelope, record.VerifHook_Envelope_validate, peer.VerifHook_PeerRecord_UnmarshalRecord = nil, nil, nil
	crypto.VerifHook_UnmarshalPublicKey, VerifHook_filterAddrs = nil, nil
}

var vC13ids = []peer.ID{vC13remote, vC13other}

func VerifC13aSignedRecord() {
	defer vC13unhook()
	keyID, recID := vC13ids[vCase(2)], vC13ids[vCase(2)]
	recMode := vCase(2)
	vC13hooks(keyID, recID, recMode)
	ids, _, _, _ := vC13service()
	env := &record.Envelope{PublicKey: &vC13key{id: keyID}}
	if vBool() {
		env.PublicKey = nil
	}
	addrs, err := ids.consumeSignedPeerRecord(vC13remote, env)
	if err == nil {
		vCover("record-used")
		vAssert(env.PublicKey != nil && keyID == vC13remote, "a signed record is used only if it was signed by the authenticated peer")
		vAssert(recID == vC13remote, "a signed record is used only if it names the authenticated peer")
		vAssert(recMode == 0 && len(addrs) == 2, "its addresses are returned")
	} else {
		vCover("record-rejected")
		vAssert(addrs == nil, "a rejected record yields no addresses")
	}
}

func VerifC13aPubKey() {
	defer vC13unhook()
	vC13hooks("", "", 0)
	ids, ps, _, _ := vC13service()
	newKey := &vC13key{id: vC13ids[vCase(2)]}
	unmarshalFail := vBool()
	crypto.VerifHook_UnmarshalPublicKey = func(b []byte) (crypto.PubKey, error) {
		if unmarshalFail {
			return nil, errors.New("bad key")
		}
		return newKey, nil
	}
	switch vCase(3) {
	case 1:
		ps.curKey = newKey
	case 2:
		ps.curKey = &vC13key{id: vC13remote}
	}
	kb := []byte("key-bytes")
	if vBool() {
		kb = nil
	}
	ids.consumeReceivedPubKey(&vC13conn{}, kb)
	vAssert(ps.foreign == 0, "nothing is written under another peer")
	if len(ps.keys) > 0 {
		vCover("key-stored")
		vAssert(len(ps.keys) == 1 && ps.keys[0] == crypto.PubKey(newKey) && newKey.id == vC13remote && kb != nil && !unmarshalFail,
			"a public key is stored only if it hashes to the authenticated peer's ID")
	}
}

var vC13sizes = []int{0, 1, 2}

func VerifC13bConsumeMessage() {
	defer vC13unhook()
	keyID, recID := vC13ids[vCase(2)], vC13ids[vCase(2)]
	vC13hooks(keyID, recID, 0)
	ids, ps, nw, em := vC13service()
	nw.state = []network.Connectedness{network.NotConnected, network.Connected, network.Limited}[vCase(3)]
	np := []int{0, maxPeerProtocols, maxPeerProtocols + 2}[vCase(3)]
	na := []int{0, connectedPeerMaxAddrs, connectedPeerMaxAddrs + 2}[vCase(3)]
	mes := &pb.Identify{}
	for i := 0; i < np; i++ {
		mes.Protocols = append(mes.Protocols, "/p/"+fmt.Sprint(i))
	}
	for i := 0; i < na; i++ {
		a := vC13addr(i)
		if vNative() {
			mes.ListenAddrs = append(mes.ListenAddrs, a.Bytes())
		} else {
			mes.ListenAddrs = append(mes.ListenAddrs, a.Bytes())
		}
	}
	signed := vCase(3) // 0 none, 1 validates, 2 fails validation
	if signed == 1 && vBool() {
		vC13recAddrs = connectedPeerMaxAddrs + 2 // a signed record listing more addresses than may be kept
		vCover("oversized-signed-record")
	}
	if signed > 0 {
		mes.SignedPeerRecord = []byte("envelope")
	}
	record.VerifHook_UnmarshalEnvelope = func(data []byte) (*record.Envelope, error) {
		return &record.Envelope{PublicKey: &vC13key{id: keyID}}, nil // a well-formed envelope naming some key
	}
	record.VerifHook_Envelope_validate = func(e *record.Envelope, domain string) error {
		if signed == 2 || domain != peer.PeerRecordEnvelopeDomain {
			return errors.New("invalid signature")
		}
		return nil
	}
	peer.VerifHook_PeerRecord_UnmarshalRecord = func(r *peer.PeerRecord, b []byte) error {
		r.PeerID = recID
		r.Addrs = nil
		for i := 0; i < vC13recAddrs; i++ {
			r.Addrs = append(r.Addrs, vC13addr(900+i))
		}
		return nil
	}
	mes.PublicKey = []byte("key-bytes")
	crypto.VerifHook_UnmarshalPublicKey = func(b []byte) (crypto.PubKey, error) { return &vC13key{id: keyID}, nil }
	isPush := vBool()
	vSetUnwind(2000)
	ids.consumeMessage(mes, &vC13conn{addr: vC13addr(999)}, isPush)
	vAssert(ps.foreign == 0, "everything an identify message carries is recorded only under the connection's authenticated peer")
	vAssert(ps.protocols <= maxPeerProtocols && (np <= maxPeerProtocols) == (ps.protocols == np), "at most 1024 protocols are retained")
	vAssert(len(ps.addAddrs) == 1 && ps.addAddrs[0] <= connectedPeerMaxAddrs, "at most 500 addresses are retained")
	connected := nw.state == network.Connected || nw.state == network.Limited
	want := peerstore.RecentlyConnectedAddrTTL
	if connected {
		want = peerstore.ConnectedAddrTTL
	}
	vAssert(ps.addTTLs[0] == want, "addresses get the connected lifetime only while a connection to the peer exists")
	vAssert(len(nw.askedLocked) == 1 && nw.askedLocked[0], "the lifetime is decided while holding the address lock")
	recordOK := signed == 1 && keyID == vC13remote && recID == vC13remote
	if signed == 1 && !recordOK {
		vCover("foreign-signed-record")
		vAssert(ps.addAddrs[0] == 0, "the addresses of a signed record of another peer are not used")
	}
	if recordOK {
		vCover("signed-record-used")
		vAssert(ps.addAddrs[0] == min(vC13recAddrs, connectedPeerMaxAddrs), "a valid signed record's addresses replace the unsigned ones, capped like them")
	}
	if signed != 1 {
		vAssert(ps.addAddrs[0] == na || (na > connectedPeerMaxAddrs && ps.addAddrs[0] == connectedPeerMaxAddrs), "without a signed record the listen addresses are used")
	}
	for _, k := range ps.keys {
		vAssert(k.(*vC13key).id == vC13remote, "a public key is stored only if it hashes to the authenticated peer's ID")
	}
	last := em.events[len(em.events)-1].(interface{}) // identification completed
	_ = last
}

func VerifC13cDisconnected() {
	defer vC13unhook()
	ids, ps, nw, _ := vC13service()
	ids.conns = map[network.Conn]entry{}
	nw.state = []network.Connectedness{network.NotConnected, network.Connected, network.Limited}[vCase(3)]
	n := []int{0, recentlyConnectedPeerMaxAddrs, recentlyConnectedPeerMaxAddrs + 5}[vCase(3)]
	for i := 0; i < n; i++ {
		ps.stored = append(ps.stored, vC13addr(i))
	}
	own := n - 1 // the closed connection's own address is stored last
	if own < 0 {
		own = 0
	}
	c := &vC13conn{addr: vC13addr(own)}
	(*netNotifiee)(ids).Disconnected(nil, c)
	vAssert(ps.foreign == 0, "only the disconnected peer's entries are touched")
	vAssert(len(nw.askedLocked) == 1 && nw.askedLocked[0], "connectedness is checked while holding the address lock")
	if nw.state != network.NotConnected {
		vCover("still-connected")
		vAssert(len(ps.updates) == 0 && len(ps.addAddrs) == 0, "while another connection exists nothing is downgraded")
		return
	}
	vCover("last-disconnect")
	vAssert(len(ps.updates) == 2 && len(ps.addAddrs) == 1, "downgrade sequence")
	vAssert(ps.updates[0] == fmt.Sprint(int64(peerstore.ConnectedAddrTTL), ">", int64(peerstore.TempAddrTTL)), "connected addresses fall back to a temporary lifetime first")
	vAssert(ps.updates[1] == fmt.Sprint(int64(peerstore.TempAddrTTL), ">", int64(0)), "what was not re-added is dropped")
	vAssert(ps.addTTLs[0] == peerstore.RecentlyConnectedAddrTTL, "kept addresses get the finite recently-connected lifetime")
	vAssert(ps.addAddrs[0] <= recentlyConnectedPeerMaxAddrs, "at most 20 addresses are kept after the last disconnect")
	if n > recentlyConnectedPeerMaxAddrs {
		vAssert(ps.firstAdded.Equal(c.addr), "the closed connection's own address is among those kept")
	}
}
