//go:build verif

//verif:dir p2p/security/noise
//verif:hook p2p/security/noise secureSession.sendHandshakeMessage
//verif:hook p2p/security/noise secureSession.readHandshakeMessage
//verif:hook p2p/security/noise secureSession.handleRemoteHandshakePayload
//verif:hook p2p/security/noise secureSession.generateHandshakePayload
//verif:replace github.com/flynn/noise.NewHandshakeState vC01bNewHS
//verif:replace (github.com/flynn/noise.dh25519).GenerateKeypair vC01bKeypair
//verif:obligation C01.b the Noise XX message sequence driven by newSecureSession / runHandshake for both roles, with and without early-data handlers and a fault at every step (send, read, payload generation, remote payload rejected, early data rejected): the handshake completes only after the remote's payload - the plaintext of exactly the message the pattern designates (message 2 for the initiator, 3 for the responder) - was accepted by handleRemoteHandshakePayload and, if a handler is installed, its early data accepted; the initiator sends its own identity payload only after that; every step runs at most once and in pattern order, the first failure aborts everything after it, is returned, and the raw connection is closed; a deadline on the context is applied to the connection and cleared afterwards
//verif:bound one handshake per run, one fault position
//verif:stub the four per-message helpers are hooked (their content is C01.a / flynn/noise); flynn's NewHandshakeState and key generation are replaced in the symbolic run (curve arithmetic, SHA-256 assembly), natively the real ones run; raw connection and early-data handlers are harness stubs
//verif:outside what the Noise messages contain and how flynn/noise processes them (DH, AEAD, prologue binding), cancellation racing with a blocked read
package noise

import (
	"context"
	"errors"
	"io"
	"net"
	"time"

	"github.com/flynn/noise"
	"github.com/libp2p/go-libp2p/core/peer"
	"github.com/libp2p/go-libp2p/p2p/security/noise/pb"
)

func vC01bNewHS(c noise.Config) (*noise.HandshakeState, error) { return new(noise.HandshakeState), nil }

func vC01bKeypair(r io.Reader) (noise.DHKey, error) {
	return noise.DHKey{Private: make([]byte, 32), Public: make([]byte, 32)}, nil
}

type vC01bConn struct {
	net.Conn
	closes    int
	deadlines []bool // true: a deadline was set, false: cleared
}

func (c *vC01bConn) Close() error { c.closes++; return nil }
func (c *vC01bConn) SetDeadline(t time.Time) error {
	c.deadlines = append(c.deadlines, !t.IsZero())
	return nil
}
func (c *vC01bConn) Read(b []byte) (int, error)  { return 0, io.EOF }
func (c *vC01bConn) Write(b []byte) (int, error) { return len(b), nil }

type vC01bEDH struct {
	log  *[]string
	fail bool
}

func (h *vC01bEDH) Send(ctx context.Context, c net.Conn, p peer.ID) *pb.NoiseExtensions {
	*h.log = append(*h.log, "early-data-send")
	return &pb.NoiseExtensions{}
}
func (h *vC01bEDH) Received(ctx context.Context, c net.Conn, e *pb.NoiseExtensions) error {
	*h.log = append(*h.log, "early-data-received")
	if h.fail {
		return errors.New("early data rejected")
	}
	return nil
}

func VerifC01bRunHandshake() {
	initiator := vBool()
	withEDH := vBool()
	var log []string
	failAt := vCase(9) // index of the step that fails (8 = none)
	step := 0
	fails := func() bool {
		f := step == failAt
		step++
		return f
	}
	reads := 0
	VerifHook_secureSession_sendHandshakeMessage = func(s *secureSession, hs *noise.HandshakeState, payload []byte, hbuf []byte) error {
		if len(payload) == 0 {
			log = append(log, "send:empty")
		} else {
			log = append(log, "send:"+string(payload))
		}
		if fails() {
			return errors.New("write failed")
		}
		return nil
	}
	VerifHook_secureSession_readHandshakeMessage = func(s *secureSession, hs *noise.HandshakeState) ([]byte, error) {
		reads++
		log = append(log, "read")
		if fails() {
			return nil, errors.New("read failed / message did not authenticate")
		}
		return []byte{'m', byte('0' + reads)}, nil
	}
	VerifHook_secureSession_handleRemoteHandshakePayload = func(s *secureSession, payload []byte, remoteStatic []byte) (*pb.NoiseExtensions, error) {
		log = append(log, "remote-payload:"+string(payload))
		if fails() {
			return nil, errors.New("remote payload rejected")
		}
		return &pb.NoiseExtensions{}, nil
	}
	VerifHook_secureSession_generateHandshakePayload = func(s *secureSession, kp noise.DHKey, ext *pb.NoiseExtensions) ([]byte, error) {
		log = append(log, "generate-payload")
		if fails() {
			return nil, errors.New("signing failed")
		}
		return []byte("our-identity-payload"), nil
	}
	defer func() {
		VerifHook_secureSession_sendHandshakeMessage, VerifHook_secureSession_readHandshakeMessage = nil, nil
		VerifHook_secureSession_handleRemoteHandshakePayload, VerifHook_secureSession_generateHandshakePayload = nil, nil
	}()
	conn := &vC01bConn{}
	var edh EarlyDataHandler
	edhFail := false
	if withEDH {
		h := &vC01bEDH{log: &log}
		edh = h
		edhFail = vBool()
		h.fail = edhFail
	}
	ctx := context.Background()
	withDeadline := vBool()
	if withDeadline {
		var cancel context.CancelFunc
		ctx, cancel = context.WithTimeout(ctx, time.Hour)
		defer cancel()
	}
	tpt := &Transport{localID: "self"}
	s, err := newSecureSession(tpt, ctx, conn, "", nil, edh, edh, initiator, false)
	// the pattern, per role
	var want []string
	if initiator {
		want = []string{"send:empty", "read", "remote-payload:m1"}
		if withEDH {
			want = append(want, "early-data-received", "early-data-send")
		}
		want = append(want, "generate-payload", "send:our-identity-payload")
	} else {
		want = []string{"read"}
		if withEDH {
			want = append(want, "early-data-send")
		}
		want = append(want, "generate-payload", "send:our-identity-payload", "read", "remote-payload:m2")
		if withEDH {
			want = append(want, "early-data-received")
		}
	}
	prefix := len(log) <= len(want)
	for i := range log {
		if i < len(want) && log[i] != want[i] {
			prefix = false
		}
	}
	vAssert(prefix, "the handshake steps run in the order of the XX pattern for the role, each at most once")
	vAssert((err == nil) == (failAt >= 5 && !edhFail), "the handshake completes iff no step failed")
	if err == nil {
		vCover("completed")
		vAssert(s != nil && len(log) == len(want), "a handshake completes only after every step of the pattern, the acceptance of the remote's payload included")
		vAssert(conn.closes == 0, "a completed handshake leaves the connection open")
	} else {
		vCover("aborted")
		vAssert(conn.closes == 1, "a failed handshake closes the raw connection")
		sentIdentity := false
		accepted := false
		for i, e := range log {
			if e == "send:our-identity-payload" {
				sentIdentity = true
			}
			if len(e) > 15 && e[:15] == "remote-payload:" && !(failAt < 8 && i == len(log)-1 && stepIsHandle(log, i, failAt)) {
				accepted = true
			}
		}
		if initiator && sentIdentity {
			vAssert(accepted, "the initiator reveals its identity payload only after it accepted the responder's")
		}
	}
	if withDeadline {
		vAssert(len(conn.deadlines) == 2, "the context's deadline is applied to the raw connection and cleared afterwards")
		vAssert(len(conn.deadlines) < 2 || (conn.deadlines[0] && !conn.deadlines[1]), "first set, then cleared")
	} else {
		vAssert(len(conn.deadlines) == 0, "no deadline without one on the context")
	}
}

// was the remote-payload step at log index i the one that failed?
func stepIsHandle(log []string, i, failAt int) bool {
	// steps are numbered in hook-call order; early-data callbacks are not steps
	n := 0
	for j := 0; j <= i; j++ {
		if log[j] == "early-data-send" || log[j] == "early-data-received" {
			continue
		}
		if j == i {
			return n == failAt
		}
		n++
	}
	return false
}
