//go:build verif

//verif:dir core/record
//verif:hook core/record UnmarshalEnvelope
//verif:hook core/record unmarshalRecordPayload
//verif:shard VerifC08aMakeUnsigned 4
//verif:obligation C08.a makeUnsigned is injective: for every domain (0..200 bytes), payload type (0..300 bytes) and payload (0..300 bytes, thorough: also 16300..16500 across the 2->3 byte varint edge) a reference parser (uvarint length, slice) recovers exactly the three fields at symbolic witness indices and consumes the whole buffer - so triples whose concatenations coincide cannot collide, and no field byte is left unsigned
//verif:obligation C08.b Envelope.validate / ConsumeEnvelope / ConsumeTypedEnvelope: a record is returned only if Verify was called on makeUnsigned(domain asked for, the envelope's payload type, the envelope's payload) with the envelope's signature under the envelope's key and answered (true, nil); Seal signs exactly that buffer
//verif:bound field lengths as stated (all byte contents symbolic, functional arrays); one envelope per run
//verif:stub UnmarshalEnvelope / unmarshalRecordPayload (reflection-driven protobuf) replaced through hooks; keys are stub objects whose Verify / Sign log their arguments and answer symbolically; go-buffer-pool Put havocs the buffer
//verif:outside sign/verify correctness per key type, key (un)marshalling, base58 / CID text forms, wire mutation of marshalled envelopes
package record

import (
	"bytes"
	"encoding/binary"
	"errors"

	"github.com/libp2p/go-libp2p/core/crypto"
)

func VerifC08aMakeUnsigned() {
	band := vCase(4)
	nd, nt := vRange(0, 200), vRange(0, 300)
	np := vRange(0, 300)
	if band == 3 && vTier() > 0 {
		np = vRange(16300, 16500)
	} else if band >= 2 {
		vAssume(np >= 100)
	}
	if band%2 == 1 {
		vAssume(nd >= 100)
	}
	domain := vString(nd)
	ptype, payload := vBytes(nt), vBytes(np)
	buf, err := makeUnsigned(domain, ptype, payload)
	vAssert(err == nil, "no error")
	// reference parser
	pos := 0
	j := vRange(0, 16500) // witness index
	lens := []int{nd, nt, np}
	for i := 0; i < 3; i++ {
		l, k := binary.Uvarint(buf[pos:])
		vAssert(k > 0 && int(l) == lens[i], "every field is prefixed with its exact length")
		if lens[i] >= 128 {
			vCover("two-byte-length")
		}
		pos += k
		vAssert(pos+lens[i] <= len(buf), "the buffer holds the whole field (nothing is truncated)")
		if j < lens[i] {
			switch i {
			case 0:
				vAssert(buf[pos+j] == domain[j], "domain bytes are signed at their position")
			case 1:
				vAssert(buf[pos+j] == ptype[j], "payload-type bytes are signed at their position")
			case 2:
				vAssert(buf[pos+j] == payload[j], "payload bytes are signed at their position")
			}
		}
		pos += lens[i]
	}
	vAssert(pos == len(buf), "the reference parser consumes the whole buffer")
}

type vC08key struct {
	crypto.PubKey
	answer   bool
	fail     bool
	calls    int
	lastData []byte
	lastSig  []byte
}

func (k *vC08key) Verify(data, sig []byte) (bool, error) {
	k.calls++
	k.lastData = append([]byte{}, data...)
	k.lastSig = append([]byte{}, sig...)
	if k.fail {
		return false, errors.New("malformed signature")
	}
	return k.answer, nil
}

type vC08priv struct {
	crypto.PrivKey
	pub    *vC08key
	signed []byte
}

func (p *vC08priv) GetPublic() crypto.PubKey { return p.pub }
func (p *vC08priv) Sign(b []byte) ([]byte, error) {
	p.signed = append([]byte{}, b...)
	return []byte("signature"), nil
}

type vC08rec struct {
	domain  string
	payload []byte
	failUn  bool
}

func (r *vC08rec) Domain() string                 { return r.domain }
func (r *vC08rec) Codec() []byte                  { return []byte{3, 1} }
func (r *vC08rec) MarshalRecord() ([]byte, error) { return r.payload, nil }
func (r *vC08rec) UnmarshalRecord(b []byte) error {
	if r.failUn {
		return errors.New("bad payload")
	}
	return nil
}

func VerifC08bConsume() {
	key := &vC08key{answer: vBool(), fail: vBool()}
	env := &Envelope{PublicKey: key, PayloadType: []byte{3, 1}, RawPayload: []byte("payload-bytes"), signature: []byte("signature")}
	unmarshalFail := vBool()
	VerifHook_UnmarshalEnvelope = func(data []byte) (*Envelope, error) {
		if unmarshalFail {
			return nil, errors.New("bad envelope")
		}
		return env, nil
	}
	rec := &vC08rec{domain: "asked-domain", failUn: vBool()}
	VerifHook_unmarshalRecordPayload = func(t []byte, p []byte) (Record, error) {
		if rec.failUn {
			return nil, errors.New("bad payload")
		}
		return rec, nil
	}
	defer func() { VerifHook_UnmarshalEnvelope, VerifHook_unmarshalRecordPayload = nil, nil }()
	want, _ := makeUnsigned("asked-domain", env.PayloadType, env.RawPayload)
	want = append([]byte{}, want...)
	var got Record
	var err error
	typed := vBool()
	if typed {
		var e *Envelope
		e, err = ConsumeTypedEnvelope([]byte("wire"), rec)
		if err == nil {
			got, _ = e.Record()
		}
	} else {
		_, got, err = ConsumeEnvelope([]byte("wire"), "asked-domain")
	}
	if err == nil {
		vCover("accepted")
		vAssert(got != nil, "a record is returned")
		vAssert(!unmarshalFail && !rec.failUn, "accepted only if envelope and payload unmarshal")
		vAssert(key.calls == 1 && key.answer && !key.fail, "accepted only if the signature verified under the envelope's key")
		vAssert(bytes.Equal(key.lastData, want), "the verified bytes are makeUnsigned(domain asked for, payload type, payload)")
		vAssert(bytes.Equal(key.lastSig, env.signature), "the verified signature is the envelope's")
	} else {
		vCover("rejected")
		vAssert(got == nil, "no record on a failed validation")
	}
}

func VerifC08bSeal() {
	priv := &vC08priv{pub: &vC08key{}}
	rec := &vC08rec{domain: "asked-domain", payload: []byte("payload-bytes")}
	e, err := Seal(rec, priv)
	vAssert(err == nil && e != nil, "sealed")
	want, _ := makeUnsigned("asked-domain", rec.Codec(), rec.payload)
	vAssert(bytes.Equal(priv.signed, want), "Seal signs makeUnsigned(domain, codec, payload)")
	vAssert(bytes.Equal(e.signature, []byte("signature")) && e.PublicKey == crypto.PubKey(priv.pub), "the envelope carries the signature and the signer's key")
}
