//go:build verif

//verif:dir p2p/net/pnet
//verif:subst p2p/net/pnet github.com/davidlazar/go-crypto/salsa20.New verifSalsaNew
//verif:subst p2p/net/pnet crypto/rand.Read verifRandRead
//verif:obligation C02.d' the nonce exchange of pskConn: on the write side, for a first Write whose nonce write or cipher-text write fails (or neither) followed by a retry, what the underlying connection accepted always starts with the complete 24-byte nonce the write cipher is keyed with, followed only by cipher text produced by that cipher in order - a failed nonce write leaves no cipher installed, so the retry sends a nonce again; on the read side the first 24 bytes received key the read cipher and are never delivered as data
//verif:bound one failed call and one retry, payloads of 2 bytes
//verif:stub salsa20.New substituted by a stub cipher that remembers its nonce; crypto/rand.Read by a recorder; net.Conn stub that fails the k-th write
//verif:outside XSalsa20 itself, short (partial) writes of the underlying connection
package pnet

import (
	"crypto/cipher"
	"errors"
	"io"
	"net"
)

type vC02nCipher struct {
	nonce []byte
	pos   int
}

func (s *vC02nCipher) XORKeyStream(dst, src []byte) {
	for i := range src {
		dst[i] = src[i] + 1 + byte((s.pos+i)%2)
	}
	s.pos += len(src)
}

type vC02nConn struct {
	net.Conn
	failAt   int // 1-based index of the Write call that fails (0: none)
	writes   int
	accepted []byte
	in       []byte
	rpos     int
}

func (c *vC02nConn) Write(b []byte) (int, error) {
	c.writes++
	if c.writes == c.failAt {
		return 0, errors.New("write failed")
	}
	c.accepted = append(c.accepted, b...)
	return len(b), nil
}
func (c *vC02nConn) Read(b []byte) (int, error) {
	if c.rpos >= len(c.in) {
		return 0, io.EOF
	}
	n := copy(b, c.in[c.rpos:])
	c.rpos += n
	return n, nil
}

func VerifC02dPskNonceWrite() {
	savedS, savedR := verifSalsaNew, verifRandRead
	defer func() { verifSalsaNew, verifRandRead = savedS, savedR }()
	var ciphers []*vC02nCipher
	verifSalsaNew = func(key *[32]byte, nonce []byte) cipher.Stream {
		c := &vC02nCipher{nonce: append([]byte{}, nonce...)}
		ciphers = append(ciphers, c)
		return c
	}
	draws := 0
	verifRandRead = func(b []byte) (int, error) {
		draws++
		for i := range b {
			b[i] = byte(16*draws + i) // every draw is a different nonce
		}
		return len(b), nil
	}
	conn := &vC02nConn{failAt: vCase(3)}
	c := &pskConn{Conn: conn, psk: &[32]byte{}}
	msg := []byte{vUint8(), vUint8()}
	n, err := c.Write(msg)
	if err != nil {
		vCover("first-write-failed")
		vAssert(n == 0, "a failed write reports no bytes")
		if conn.failAt == 1 {
			vCover("nonce-write-failed")
			vAssert(c.writeS20 == nil, "a failed nonce write leaves no write cipher installed, so the nonce is sent again")
		}
		n, err = c.Write(msg) // the caller retries
	}
	vAssert(err == nil && n == 2, "the (re)try succeeds")
	vAssert(c.writeS20 != nil, "a cipher is installed")
	cur := c.writeS20.(*vC02nCipher)
	vAssert(len(conn.accepted) >= 24, "the connection received a nonce")
	for i := 0; i < 24 && i < len(conn.accepted); i++ {
		vAssert(conn.accepted[i] == cur.nonce[i], "what the remote reads first is the nonce the write cipher is keyed with")
	}
	// everything after the nonce is cipher text of that cipher, in stream order
	rest := conn.accepted[24:]
	vAssert(len(rest) == cur.pos || (conn.failAt == 2 && len(rest)+2 == cur.pos), "the cipher text on the wire is what the cipher produced (a failed cipher-text write consumed key stream that never reached the wire)")
	if conn.failAt != 2 {
		for i := range rest {
			vAssert(rest[i] == msg[i%2]+1+byte(i%2), "every byte after the nonce is the message enciphered at its stream position")
		}
	}
}

func VerifC02dPskNonceRead() {
	savedS := verifSalsaNew
	defer func() { verifSalsaNew = savedS }()
	var keyed []byte
	verifSalsaNew = func(key *[32]byte, nonce []byte) cipher.Stream {
		keyed = append([]byte{}, nonce...)
		return &vC02nCipher{}
	}
	wire := make([]byte, 26)
	for i := range wire {
		wire[i] = vUint8()
	}
	conn := &vC02nConn{in: wire}
	c := &pskConn{Conn: conn, psk: &[32]byte{}}
	out := make([]byte, 4)
	n, err := c.Read(out)
	vAssert(err == nil && n == 2, "the data after the nonce is delivered")
	vAssert(len(keyed) == 24, "the read cipher is keyed with a 24-byte nonce")
	for i := 0; i < 24 && i < len(keyed); i++ {
		vAssert(keyed[i] == wire[i], "the first 24 bytes received are the nonce")
	}
	for i := 0; i < n; i++ {
		vAssert(out[i] == wire[24+i]+1+byte(i%2), "the nonce is never delivered as data: data starts at byte 24, deciphered from stream position 0")
	}
}
