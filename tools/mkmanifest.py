#!/usr/bin/env python3
# Regenerates /verif/MANIFEST.json from tools/claims.json (per-property claim texts) and the harness files present.
import json, glob, os
V='/verif'
claims=json.load(open(f'{V}/tools/claims.json'))
ids=[json.loads(l)['id'] for l in open(f'{V}/properties.jsonl')]
checks=[]; na=[]
for i in ids:
    c=claims.get(i,{})
    has=glob.glob(f'{V}/harness/{i.lower()}_*.go')
    if has and c.get('claim'):
        checks.append({
          "property_id":i,
          "quick_cmd":f"./bin/vcheck run {i} --tier quick",
          "thorough_cmd":f"./bin/vcheck run {i} --tier thorough",
          "evidence_file":f"/verif/evidence/{i}.json",
          "replay_cmd_template":"./bin/vcheck replay {path}",
          "engine":"gosym",
          "level_claimed":{"category":"model_checking","text":c['claim'],"design_ref":c.get('ref','DESIGN.md §4 '+i)},
          "level_note":c.get('note',''),
          "technique":c.get('technique',"bounded symbolic execution of the real Go functions (go/ssa -> SMT-LIB2, z3/cvc5), counterexamples replayed natively")})
    else:
        na.append({"property_id":i,"reason":c.get('na','check not built yet (work in progress)')})
m={"version":1,
 "setup_cmd":"cd /verif/engine && GOFLAGS=-mod=mod GOPROXY=off go build -o /verif/bin/vcheck ./cmd/vcheck",
 "hooks":{"guard":"verif","enable":"nothing is committed into /repo: harness files (//go:build verif), the prelude and generated hook rewrites of individual functions are injected at check time through go/packages Overlay and `go test -tags verif -overlay`","baseline_off_cmd":"for m in $(cat /w/out/gomods.txt); do MF=$(cd /repo/$m && . /w/out/goenv.sh && gomodflag); (cd /repo/$m && go test $MF -json -vet=off -count=1 -timeout 25m ./...); done","source_commits":[],"add_only":True},
 "engines":[{"name":"gosym","path":"/verif/engine","serves_properties":[c['property_id'] for c in checks],"kind_free_text":"symbolic executor for Go written for this task: loads /repo's current source with go/packages+go/ssa, executes harness entry points path by path with symbolic scalars (SMT Int with explicit wrap-around, functional byte arrays), discharges every assertion with z3 -in / cvc5 --incremental, replays solver models natively via go test -overlay"}],
 "checks":checks,
 "notes":"See DESIGN.md. Exit codes of vcheck: 0 held within the stated bounds, 1 violation confirmed by native replay, 2 harness no longer builds against the tree, 3 inconclusive (solver unknown, unwinding bound hit, unsupported construct, engine/native mismatch). known_findings.json lists recorded genuine defects.",
 "not_applicable":na}
json.dump(m,open(f'{V}/MANIFEST.json','w'),indent=1)
print(len(checks),'checks,',len(na),'not applicable')
