#!/bin/bash
# Runs every registered check of one tier against /repo and prints one RESULT line per property.
tier=${1:-quick}
cd /verif
for p in $(python3 -c "import json;print(' '.join(c['property_id'] for c in json.load(open('MANIFEST.json'))['checks']))"); do
  timeout 7200 ./bin/vcheck run $p --tier $tier > out/run_all_$p.$tier.log 2>&1
  echo "exit=$? $(grep '^RESULT' out/run_all_$p.$tier.log | tail -1)"
done
