#!/usr/bin/env python3
"""Prints the DESIGN.md §8 table (seeded change -> detecting harnesses) for one round from seeded/*/meta.json and
seeded/results.json.  usage: seedtable.py <round>"""
import json, os, sys, glob
rnd = int(sys.argv[1])
res = json.load(open('/verif/seeded/results.json'))
rows = []
for d in sorted(glob.glob('/verif/seeded/C*-*')):
    name = os.path.basename(d)
    m = json.load(open(d + '/meta.json'))
    if m.get('round', 1) != rnd:
        continue
    r = res.get(name, {})
    t = m.get('title', '').replace('|', '/').strip()
    if len(t) > 150:
        t = t[:150] + '...'
    if r.get('status') == 'DETECTED':
        hs = []
        for x in r.get('reported_by', []):
            h = x.split(':')[0]
            if h not in hs:
                hs.append(h)
        by = ', '.join('`%s`' % h for h in hs)
    else:
        by = '**out of reach** (see below)' if r else 'not run'
    rows.append('| %s %s | %s |' % (name, t, by))
print('| seeded change | detected by |\n|---|---|')
print('\n'.join(rows))
