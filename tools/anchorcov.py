#!/usr/bin/env python3
"""For every property: how many functions of the files its anchors name were executed by the last run of its check
(evidence/<id>.json, functions_encoded).  usage: anchorcov.py [Cxx ...]  (ids: also list the functions not executed)"""
import json,re,subprocess,os,sys
props={json.loads(l)['id']:json.loads(l) for l in open('/verif/properties.jsonl')}
fre=re.compile(r'^func\s+(\([^)]*\)\s*)?([A-Za-z0-9_]+)',re.M)
for pid,p in props.items():
    ev='/verif/evidence/%s.json'%pid
    if not os.path.exists(ev): continue
    enc=json.load(open(ev))['coverage']['functions_encoded']
    encnames=set()
    for k in enc:
        # (*pkg.T).M or pkg.F ; strip closures
        k=k.split('$')[0]
        m=re.match(r'\(\*?([^)]*)\)\.(\w+)',k)
        if m:
            pk,t=m.group(1).rsplit('.',1); encnames.add((pk.replace('github.com/libp2p/go-libp2p/',''),t+'.'+m.group(2)))
        else:
            pk,f=k.rsplit('.',1); encnames.add((pk.replace('github.com/libp2p/go-libp2p/',''),f))
    miss=[]
    tot=0
    for f in p['anchors']['files']:
        path='/repo/'+f
        if not os.path.isfile(path): continue
        src=open(path).read()
        pk=os.path.dirname(f)
        for m in re.finditer(r'^func\s+(?:\(\s*\w*\s*\*?([A-Za-z0-9_]+)(?:\[[^\]]*\])?\s*\)\s*)?([A-Za-z0-9_]+)',src,re.M):
            recv,name=m.group(1),m.group(2)
            full=(recv+'.'+name) if recv else name
            tot+=1
            if (pk,full) not in encnames:
                miss.append(os.path.basename(f)+':'+full)
    print(pid,'anchored funcs',tot,'not encoded',len(miss))
    if len(sys.argv)>1 and pid in sys.argv[1:]:
        print('   ',' '.join(miss))
