#!/usr/bin/env python3
"""Applies every seeded change under /verif/seeded to /repo (git apply), runs the property's quick check,
undoes the change (git checkout -- .) and records what the check reported. Never leaves /repo modified."""
import json, glob, os, subprocess, sys, re, time
V='/verif'
only=sys.argv[1:] 
res={}
def sh(cmd, **kw): return subprocess.run(cmd, shell=True, capture_output=True, text=True, **kw)
assert sh('git -C /repo status --porcelain --untracked-files=no').stdout.strip()=='' , 'repo not clean'
for d in sorted(glob.glob(f'{V}/seeded/*/')):
    name=os.path.basename(d.rstrip('/'))
    if only and not any(name.startswith(o) for o in only): continue
    meta=json.load(open(d+'meta.json'))
    prop=meta['property']
    a=sh(f'git -C /repo apply {d}patch.diff')
    if a.returncode!=0:
        res[name]={'applied':False,'error':a.stderr[-300:]}
        sh('git -C /repo checkout -- .'); continue
    t0=time.time()
    try:
        r=sh(f'cd {V} && timeout 1500 ./bin/vcheck run {prop} --tier quick')
        out=r.stdout
        viol=[l for l in out.splitlines() if l.startswith('VIOLATION')]
        who=sorted(set(re.findall(r'violation: (\S+) (?:assert|panic|deadlock) "([^"]*)"', out)))
        res[name]={'applied':True,'exit':r.returncode,'violation_lines':len(viol),'reported_by':[f'{h}: {i}' for h,i in who][:6],
                   'status':{0:'MISSED',1:'DETECTED',2:'HARNESS-ERROR',3:'INCONCLUSIVE'}.get(r.returncode,str(r.returncode)),'wall_s':round(time.time()-t0,1)}
    finally:
        sh('git -C /repo checkout -- .')
    print(name,res[name].get('status'),res[name].get('reported_by'),flush=True)
assert sh('git -C /repo status --porcelain --untracked-files=no').stdout.strip()=='' , 'repo not clean after run'
p=f'{V}/seeded/results.json'
old=json.load(open(p)) if os.path.exists(p) else {}
old.update(res)
json.dump(old,open(p,'w'),indent=1,sort_keys=True)
