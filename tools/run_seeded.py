#!/usr/bin/env python3
"""Runs the quick check of each seeded change's property against a tree carrying that change and records
what the check reported in /verif/seeded/results.json.

Default mode: every seed gets its own scratch worktree of /repo under /tmp (removed afterwards) and the same
vcheck binary is pointed at it with VERIF_REPO, so /repo and /verif/evidence are never touched and several
seeds run in parallel.  --in-repo applies the patch to /repo itself (git apply / git checkout -- .), one
seed at a time, exactly as the registered commands would see it.

usage: run_seeded.py [--in-repo] [--jobs N] [--dir <seed root>] [name-prefix ...]
"""
import json, glob, os, subprocess, sys, re, time
from concurrent.futures import ThreadPoolExecutor
V = '/verif'
args = sys.argv[1:]
in_repo = '--in-repo' in args
jobs = 3
if '--jobs' in args:
    jobs = int(args[args.index('--jobs') + 1]); del args[args.index('--jobs'):args.index('--jobs') + 2]
seed_root = f'{V}/seeded'
if '--dir' in args:  # candidates not yet kept under /verif/seeded
    seed_root = args[args.index('--dir') + 1]; del args[args.index('--dir'):args.index('--dir') + 2]
only = [a for a in args if not a.startswith('--')]

def sh(cmd, **kw): return subprocess.run(cmd, shell=True, capture_output=True, text=True, **kw)

def classify(r):
    out = r.stdout
    viol = [l for l in out.splitlines() if l.startswith('VIOLATION')]
    who = sorted(set(re.findall(r'violation: (\S+) (?:assert|panic|deadlock) "([^"]*)"', out)))
    return {'applied': True, 'exit': r.returncode, 'violation_lines': len(viol),
            'reported_by': [f'{h}: {i}' for h, i in who][:6],
            'status': {0: 'MISSED', 1: 'DETECTED', 2: 'HARNESS-ERROR', 3: 'INCONCLUSIVE'}.get(r.returncode, str(r.returncode))}

def one(d):
    name = os.path.basename(d.rstrip('/'))
    prop = json.load(open(d + 'meta.json'))['property']
    t0 = time.time()
    if in_repo:
        a = sh(f'git -C /repo apply {d}patch.diff')
        try:
            if a.returncode != 0:
                return name, {'applied': False, 'error': a.stderr[-300:]}
            res = classify(sh(f'cd {V} && timeout 2400 ./bin/vcheck run {prop} --tier quick'))
        finally:
            sh('git -C /repo checkout -- .')
    else:
        wt = f'/tmp/vseed_{name}'
        sh(f'git -C /repo worktree remove --force {wt}; rm -rf {wt}')
        a = sh(f'git -C /repo worktree add -q --detach {wt} HEAD && git -C {wt} apply {d}patch.diff')
        try:
            if a.returncode != 0:
                return name, {'applied': False, 'error': a.stderr[-300:]}
            res = classify(sh(f'cd {V} && VERIF_REPO={wt} timeout 2400 ./bin/vcheck run {prop} --tier quick --workers {max(4, 14 // jobs)}'))
        finally:
            sh(f'git -C /repo worktree remove --force {wt}; rm -rf {wt} {V}/out/_dev/vseed_{name}')
    res['wall_s'] = round(time.time() - t0, 1)
    print(name, res.get('status'), res.get('reported_by'), flush=True)
    return name, res

dirs = [d for d in sorted(glob.glob(f'{seed_root}/*/')) if os.path.exists(d + 'meta.json')
        and (not only or any(os.path.basename(d.rstrip('/')).startswith(o) for o in only))]
if in_repo:
    assert sh('git -C /repo status --porcelain --untracked-files=no').stdout.strip() == '', 'repo not clean'
    results = [one(d) for d in dirs]
    assert sh('git -C /repo status --porcelain --untracked-files=no').stdout.strip() == '', 'repo not clean after run'
else:
    with ThreadPoolExecutor(jobs) as ex:
        results = list(ex.map(one, dirs))
    sh('git -C /repo worktree prune')
p = f'{seed_root}/results.json'
old = json.load(open(p)) if os.path.exists(p) else {}
old.update(dict(results))
json.dump(old, open(p, 'w'), indent=1, sort_keys=True)
