package drv

import (
	"bytes"
	"encoding/json"
	"fmt"
	"go/ast"
	"go/format"
	"go/parser"
	"go/printer"
	"go/token"
	"golang.org/x/tools/go/ast/astutil"
	"os"
	"os/exec"
	"path/filepath"
	"strings"
)

// HookSpec asks for a function of the code under test to be made replaceable:
// the original body is kept under <name>__verifOrig and the function forwards to the package-level
// variable VerifHook_<Recv>_<Name> when that is non-nil. The rewrite is generated from the current
// source on every run and exists only in the overlay.
type HookSpec struct {
	Pkg  string // import path
	Recv string // receiver type name without * ("" for plain functions)
	Name string
}

// SubstSpec replaces every use of a qualified identifier (e.g. time.Now) inside one package by a
// package-level variable initialised to it, so that harnesses can install a stub clock.
type SubstSpec struct {
	Pkg  string
	From string // "time.Now"
	To   string // "verifTimeNow"
}

type pkgFiles struct {
	Dir     string
	GoFiles []string
	Name    string
}

var listCache = map[string]*pkgFiles{}

func goEnv() []string {
	env := os.Environ()
	out := env[:0:0]
	for _, kv := range env {
		if strings.HasPrefix(kv, "GOFLAGS=") || strings.HasPrefix(kv, "GOPROXY=") || strings.HasPrefix(kv, "GOSUMDB=") || strings.HasPrefix(kv, "GOTOOLCHAIN=") {
			continue
		}
		out = append(out, kv)
	}
	return append(out, "GOFLAGS=-mod=mod", "GOPROXY=off")
}

func listPkg(repo, pkg string) (*pkgFiles, error) {
	if p, ok := listCache[pkg]; ok {
		return p, nil
	}
	cmd := exec.Command("go", "list", "-tags=verif", "-json=Dir,GoFiles,Name", pkg)
	cmd.Dir = repo
	cmd.Env = goEnv()
	out, err := cmd.Output()
	if err != nil {
		return nil, fmt.Errorf("go list %s: %v", pkg, err)
	}
	var p pkgFiles
	if err := json.Unmarshal(out, &p); err != nil {
		return nil, err
	}
	listCache[pkg] = &p
	return &p, nil
}

func exprString(fset *token.FileSet, e ast.Expr) string {
	var b bytes.Buffer
	printer.Fprint(&b, fset, e)
	return b.String()
}

func recvTypeName(fd *ast.FuncDecl) (name string, generic bool) {
	if fd.Recv == nil || len(fd.Recv.List) == 0 {
		return "", false
	}
	t := fd.Recv.List[0].Type
	if s, ok := t.(*ast.StarExpr); ok {
		t = s.X
	}
	switch x := t.(type) {
	case *ast.Ident:
		return x.Name, false
	case *ast.IndexExpr:
		if id, ok := x.X.(*ast.Ident); ok {
			return id.Name, true
		}
	case *ast.IndexListExpr:
		if id, ok := x.X.(*ast.Ident); ok {
			return id.Name, true
		}
	}
	return "", false
}

// BuildHookOverlay returns path -> new content for every file that needs rewriting.
func BuildHookOverlay(repo string, hooks []HookSpec, substs []SubstSpec) (map[string][]byte, error) {
	type fileEdit struct {
		fset  *token.FileSet
		file  *ast.File
		path  string
		add   []string
		dirty bool            // call sites rewritten (the file must be emitted even if nothing is appended)
		needs map[string]bool // import names used by appended declarations
	}
	edits := map[string]*fileEdit{}
	getFile := func(path string) (*fileEdit, error) {
		if fe, ok := edits[path]; ok {
			return fe, nil
		}
		fset := token.NewFileSet()
		f, err := parser.ParseFile(fset, path, nil, parser.ParseComments)
		if err != nil {
			return nil, err
		}
		fe := &fileEdit{fset: fset, file: f, path: path}
		edits[path] = fe
		return fe, nil
	}
	for _, h := range hooks {
		p, err := listPkg(repo, h.Pkg)
		if err != nil {
			return nil, err
		}
		found := false
		for _, gf := range p.GoFiles {
			if strings.HasPrefix(gf, "zz_verif") {
				continue
			}
			path := filepath.Join(p.Dir, gf)
			src, err := os.ReadFile(path)
			if err != nil {
				return nil, err
			}
			if !bytes.Contains(src, []byte(h.Name)) {
				continue
			}
			fe, err := getFile(path)
			if err != nil {
				return nil, err
			}
			for _, d := range fe.file.Decls {
				fd, ok := d.(*ast.FuncDecl)
				if !ok || fd.Name.Name != h.Name || fd.Body == nil {
					continue
				}
				rn, generic := recvTypeName(fd)
				if rn != h.Recv {
					continue
				}
				if generic || fd.Type.TypeParams != nil {
					return nil, fmt.Errorf("hook %s.%s: generic functions are not supported", h.Recv, h.Name)
				}
				found = true
				fe.add = append(fe.add, hookText(fe.fset, fd, h))
				fd.Name.Name = h.Name + "__verifOrig"
			}
		}
		if !found {
			return nil, fmt.Errorf("hook target not found: %s %s.%s", h.Pkg, h.Recv, h.Name)
		}
	}
	for _, s := range substs {
		p, err := listPkg(repo, s.Pkg)
		if err != nil {
			return nil, err
		}
		// From is "<import path>.<Name>" (or "<pkg base>.<Name>"); To prefixed with "!" = the harness declares the variable itself
		li := strings.LastIndex(s.From, ".")
		parts := []string{s.From[:li], s.From[li+1:]}
		noDecl := strings.HasPrefix(s.To, "!")
		s.To = strings.TrimPrefix(s.To, "!")
		declared := false
		for _, gf := range p.GoFiles {
			if strings.HasPrefix(gf, "zz_verif") {
				continue
			}
			path := filepath.Join(p.Dir, gf)
			src, err := os.ReadFile(path)
			if err != nil {
				return nil, err
			}
			if !bytes.Contains(src, []byte("."+parts[1])) {
				continue
			}
			fe, err := getFile(path)
			if err != nil {
				return nil, err
			}
			// the local name under which the package is imported in this file
			local := ""
			exact := false // an import whose whole path is the wanted one wins over one that merely ends in it ("net" vs ".../go-multiaddr/net")
			for _, im := range fe.file.Imports {
				if strings.Trim(im.Path.Value, "\"") == parts[0] {
					exact = true
				}
			}
			for _, im := range fe.file.Imports {
				ip := strings.Trim(im.Path.Value, "\"")
				base := ip[strings.LastIndex(ip, "/")+1:]
				if (!exact && base == parts[0]) || ip == parts[0] {
					local = base
					if im.Name != nil {
						local = im.Name.Name
					}
				}
			}
			if local == "" {
				continue
			}
			n := 0
			ast.Inspect(fe.file, func(nd ast.Node) bool {
				ce, ok := nd.(*ast.CallExpr)
				if !ok {
					return true
				}
				se, ok := ce.Fun.(*ast.SelectorExpr)
				if !ok {
					return true
				}
				id, ok := se.X.(*ast.Ident)
				if ok && id.Name == local && se.Sel.Name == parts[1] && id.Obj == nil {
					ce.Fun = &ast.Ident{Name: s.To, NamePos: se.Pos()}
					n++
				}
				return true
			})
			if n > 0 {
				fe.dirty = true
			}
			declHere := n > 0 && !declared && !noDecl
			if n > 0 && !declHere && !fe.needs[local] {
				// if every use of the import in this file was rewritten, drop the import
				for _, im := range fe.file.Imports {
					ip := strings.Trim(im.Path.Value, "\"")
					base := ip[strings.LastIndex(ip, "/")+1:]
					if (base == parts[0] || ip == parts[0]) && !astutil.UsesImport(fe.file, ip) {
						if im.Name != nil {
							astutil.DeleteNamedImport(fe.fset, fe.file, im.Name.Name, ip)
						} else {
							astutil.DeleteImport(fe.fset, fe.file, ip)
						}
						break
					}
				}
			}
			if n > 0 && !declared {
				if !noDecl {
					fe.add = append(fe.add, fmt.Sprintf("var %s = %s.%s\n", s.To, local, parts[1]))
					if fe.needs == nil {
						fe.needs = map[string]bool{}
					}
					fe.needs[local] = true
				} else {
					fe.add = append(fe.add, "// "+s.To+" is declared by the harness\n")
				}
				declared = true
			}
		}
		if !declared {
			return nil, fmt.Errorf("subst target not found: %s %s", s.Pkg, s.From)
		}
	}
	out := map[string][]byte{}
	for path, fe := range edits {
		if len(fe.add) == 0 && !fe.dirty {
			continue
		}
		var b bytes.Buffer
		if err := format.Node(&b, fe.fset, fe.file); err != nil {
			return nil, err
		}
		b.WriteString("\n// ---- verification hooks (generated, overlay only) ----\n")
		for _, a := range fe.add {
			b.WriteString(a)
			b.WriteString("\n")
		}
		out[path] = b.Bytes()
	}
	return out, nil
}

func hookVarName(h HookSpec) string {
	if h.Recv == "" {
		return "VerifHook_" + h.Name
	}
	return "VerifHook_" + h.Recv + "_" + h.Name
}

func hookText(fset *token.FileSet, fd *ast.FuncDecl, h HookSpec) string {
	var params, args, sigTypes []string
	recvDecl, recvName := "", ""
	if fd.Recv != nil {
		r := fd.Recv.List[0]
		recvName = "vrecv"
		if len(r.Names) > 0 && r.Names[0].Name != "_" {
			recvName = r.Names[0].Name
		}
		rt := exprString(fset, r.Type)
		recvDecl = fmt.Sprintf("(%s %s) ", recvName, rt)
		sigTypes = append(sigTypes, rt)
		args = append(args, recvName)
	}
	i := 0
	var callArgs []string
	if fd.Type.Params != nil {
		for _, f := range fd.Type.Params.List {
			ts := exprString(fset, f.Type)
			variadic := false
			if _, ok := f.Type.(*ast.Ellipsis); ok {
				variadic = true
			}
			names := f.Names
			if len(names) == 0 {
				names = []*ast.Ident{{Name: "_"}}
			}
			for _, n := range names {
				nm := n.Name
				if nm == "_" || nm == "" {
					nm = fmt.Sprintf("vp%d", i)
				}
				i++
				params = append(params, nm+" "+ts)
				sigTypes = append(sigTypes, ts)
				if variadic {
					callArgs = append(callArgs, nm+"...")
				} else {
					callArgs = append(callArgs, nm)
				}
			}
		}
	}
	results := ""
	hasRes := false
	if fd.Type.Results != nil && len(fd.Type.Results.List) > 0 {
		hasRes = true
		var rs []string
		for _, f := range fd.Type.Results.List {
			ts := exprString(fset, f.Type)
			k := len(f.Names)
			if k == 0 {
				k = 1
			}
			for j := 0; j < k; j++ {
				rs = append(rs, ts)
			}
		}
		results = " (" + strings.Join(rs, ", ") + ")"
	}
	v := hookVarName(h)
	ret := ""
	if hasRes {
		ret = "return "
	}
	orig := h.Name + "__verifOrig"
	if recvName != "" {
		orig = recvName + "." + orig
	}
	var b strings.Builder
	fmt.Fprintf(&b, "var %s func(%s)%s\n\n", v, strings.Join(sigTypes, ", "), results)
	fmt.Fprintf(&b, "func %s%s(%s)%s {\n", recvDecl, h.Name, strings.Join(params, ", "), results)
	fmt.Fprintf(&b, "\tif %s != nil {\n\t\t%s%s(%s)\n", v, ret, v, strings.Join(append(args, callArgs...), ", "))
	if !hasRes {
		b.WriteString("\t\treturn\n")
	}
	b.WriteString("\t}\n")
	fmt.Fprintf(&b, "\t%s%s(%s)\n}\n", ret, orig, strings.Join(callArgs, ", "))
	return b.String()
}
