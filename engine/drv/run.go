package drv

import (
	"bufio"
	"encoding/json"
	"fmt"
	"os"
	"os/exec"
	"path/filepath"
	"runtime/debug"
	"sort"
	"strconv"
	"strings"
	"sync"
	"time"

	"golang.org/x/tools/go/packages"
	"golang.org/x/tools/go/ssa"
	"golang.org/x/tools/go/ssa/ssautil"

	"gosym/sx"
)

const (
	VerifDir = "/verif"
	ModPath  = "github.com/libp2p/go-libp2p"
)

// RepoDir is the tree the encoding is generated from. Registered commands always use /repo;
// VERIF_REPO lets a developer point the same machinery at a scratch worktree (seeded changes).
var RepoDir = func() string {
	if d := os.Getenv("VERIF_REPO"); d != "" {
		return d
	}
	return "/repo"
}()

// harnessDir is /verif/harness; a development run against a scratch tree (VERIF_REPO) may also name a
// scratch harness directory with VERIF_HARNESS.
func harnessDir() string {
	if d := os.Getenv("VERIF_HARNESS"); d != "" && os.Getenv("VERIF_REPO") != "" {
		return d
	}
	return filepath.Join(VerifDir, "harness")
}

// HarnessFile is one overlay source with its directives.
type HarnessFile struct {
	Path    string
	Dir     string // repo-relative package directory
	Hooks   []HookSpec
	Substs  []SubstSpec
	Replace map[string]string
	Also    map[string][]string // property -> checks of this file that also decide it (empty: all)
	Shards  map[string]int
	Assume  []string
	Outside []string
	Stubs   []string
	Bounds  []string
	Oblig   []string
	Quick   time.Duration
	Thor    time.Duration
	Src     []byte
}

func parseHarness(path string) (*HarnessFile, error) {
	src, err := os.ReadFile(path)
	if err != nil {
		return nil, err
	}
	h := &HarnessFile{Path: path, Src: src, Quick: 900 * time.Second, Thor: 3 * time.Hour, Replace: map[string]string{}, Shards: map[string]int{}}
	sc := bufio.NewScanner(strings.NewReader(string(src)))
	sc.Buffer(make([]byte, 1<<20), 1<<20)
	for sc.Scan() {
		l := strings.TrimSpace(sc.Text())
		if strings.HasPrefix(l, "package ") {
			break
		}
		if !strings.HasPrefix(l, "//verif:") {
			continue
		}
		l = strings.TrimPrefix(l, "//verif:")
		kw, rest, _ := strings.Cut(l, " ")
		rest = strings.TrimSpace(rest)
		switch kw {
		case "dir":
			h.Dir = rest
		case "hook":
			f := strings.Fields(rest)
			if len(f) != 2 {
				return nil, fmt.Errorf("%s: bad hook directive %q", path, l)
			}
			hs := HookSpec{Pkg: f[0]}
			if !strings.Contains(hs.Pkg, ".") { // repo-relative
				hs.Pkg = ModPath + "/" + hs.Pkg
			}
			if i := strings.Index(f[1], "."); i >= 0 {
				hs.Recv, hs.Name = f[1][:i], f[1][i+1:]
			} else {
				hs.Name = f[1]
			}
			h.Hooks = append(h.Hooks, hs)
		case "subst":
			f := strings.Fields(rest)
			if len(f) != 3 {
				return nil, fmt.Errorf("%s: bad subst directive %q", path, l)
			}
			p := f[0]
			if !strings.Contains(p, ".") {
				p = ModPath + "/" + p
			}
			h.Substs = append(h.Substs, SubstSpec{Pkg: p, From: f[1], To: f[2]})
		case "replace":
			f := strings.Fields(rest)
			if len(f) != 2 {
				return nil, fmt.Errorf("%s: bad replace directive %q", path, l)
			}
			h.Replace[f[0]] = f[1]
		case "also":
			f := strings.Fields(rest)
			if len(f) >= 1 {
				if h.Also == nil {
					h.Also = map[string][]string{}
				}
				h.Also[strings.ToUpper(f[0])] = append(h.Also[strings.ToUpper(f[0])], f[1:]...)
			}
		case "shard":
			f := strings.Fields(rest)
			if len(f) != 2 {
				return nil, fmt.Errorf("%s: bad shard directive %q", path, l)
			}
			n, _ := strconv.Atoi(f[1])
			h.Shards[f[0]] = n
		case "assume":
			h.Assume = append(h.Assume, rest)
		case "outside":
			h.Outside = append(h.Outside, rest)
		case "stub":
			h.Stubs = append(h.Stubs, rest)
		case "bound":
			h.Bounds = append(h.Bounds, rest)
		case "obligation":
			h.Oblig = append(h.Oblig, rest)
		case "deadline":
			for _, kv := range strings.Fields(rest) {
				k, v, _ := strings.Cut(kv, "=")
				n, _ := strconv.Atoi(v)
				if k == "quick" {
					h.Quick = time.Duration(n) * time.Second
				} else if k == "thorough" {
					h.Thor = time.Duration(n) * time.Second
				}
			}
		}
	}
	if h.Dir == "" {
		return nil, fmt.Errorf("%s: missing //verif:dir", path)
	}
	return h, nil
}

// group = all harness files of one property that target the same package directory
type group struct {
	prop    string
	dir     string
	pkgName string
	files   []*HarnessFile
	overlay map[string][]byte
	funcs   []string // harness entry points found
	prog    *ssa.Program
	pkg     *ssa.Package
	loadS   float64
}

type JobResult struct {
	Shard    string
	Harness  string
	Dir      string
	Eng      *sx.Engine
	Sol      *sx.Solver
	Wall     float64
	Crash    string
	Deadline bool
}

type Options struct {
	Property string
	Tier     string
	Seed     int64
	Only     string // harness function filter (substring)
	Workers  int
	Trace    bool
	SMTLog   string
	NoNative bool
	Keep     bool
}

func tierN(t string) int {
	if t == "thorough" {
		return 1
	}
	return 0
}

func prelude(pkgName string) []byte {
	src, err := os.ReadFile(filepath.Join(harnessDir(), "rt.go.tmpl"))
	if err != nil {
		panic(err)
	}
	return []byte(strings.Replace(string(src), "package PKGNAME", "package "+pkgName, 1))
}

func harnessFiles(prop string) ([]string, error) {
	pat := filepath.Join(harnessDir(), strings.ToLower(prop)+"_*.go")
	m, err := filepath.Glob(pat)
	if err != nil {
		return nil, err
	}
	// a harness file of another property may declare "//verif:also <prop>": its checks decide part of this
	// property too (e.g. the dial worker loop serves both C05 and C12)
	all, _ := filepath.Glob(filepath.Join(harnessDir(), "c*_*.go"))
	for _, f := range all {
		b, rerr := os.ReadFile(f)
		if rerr != nil {
			continue
		}
		for _, line := range strings.Split(string(b), "\n") {
			if !strings.HasPrefix(line, "//") {
				if strings.HasPrefix(line, "package ") {
					break
				}
				continue
			}
			// "//verif:also <Cxx> [Func ...]": one property per line, optionally only the named checks
			if fs := strings.Fields(line); len(fs) >= 2 && fs[0] == "//verif:also" {
				if strings.EqualFold(fs[1], prop) && !slicesContains(m, f) {
					m = append(m, f)
				}
			}
		}
	}
	sort.Strings(m)
	return m, nil
}

func slicesContains(xs []string, x string) bool {
	for _, y := range xs {
		if y == x {
			return true
		}
	}
	return false
}

func (g *group) load(tier string) error {
	t0 := time.Now()
	p, err := listPkg(RepoDir, ModPath+"/"+g.dir)
	if err != nil {
		return err
	}
	g.pkgName = p.Name
	g.overlay = map[string][]byte{}
	abs := filepath.Join(RepoDir, g.dir)
	g.overlay[filepath.Join(abs, "zz_verif_rt.go")] = prelude(g.pkgName)
	var hooks []HookSpec
	var substs []SubstSpec
	seenH := map[HookSpec]bool{}
	seenS := map[SubstSpec]bool{}
	for _, f := range g.files {
		g.overlay[filepath.Join(abs, "zz_verif_"+filepath.Base(f.Path))] = f.Src
		for _, h := range f.Hooks {
			if !seenH[h] {
				seenH[h] = true
				hooks = append(hooks, h)
			}
		}
		for _, s := range f.Substs {
			if !seenS[s] {
				seenS[s] = true
				substs = append(substs, s)
			}
		}
	}
	ho, err := BuildHookOverlay(RepoDir, hooks, substs)
	if err != nil {
		return err
	}
	for k, v := range ho {
		g.overlay[k] = v
	}
	cfg := &packages.Config{Mode: packages.LoadAllSyntax, Dir: RepoDir, Overlay: g.overlay,
		BuildFlags: []string{"-tags=verif"}, Env: goEnv()}
	pkgs, err := packages.Load(cfg, "./"+g.dir)
	if err != nil {
		return err
	}
	var errs []string
	packages.Visit(pkgs, nil, func(p *packages.Package) {
		for _, e := range p.Errors {
			errs = append(errs, e.Error())
		}
	})
	if len(errs) > 0 {
		if len(errs) > 12 {
			errs = errs[:12]
		}
		return fmt.Errorf("harness does not build against the current tree:\n  %s", strings.Join(errs, "\n  "))
	}
	prog, spkgs := ssautil.AllPackages(pkgs, ssa.InstantiateGenerics)
	prog.Build()
	g.prog, g.pkg = prog, spkgs[0]
	thorough := tier == "thorough"
	for n, m := range g.pkg.Members {
		fn, ok := m.(*ssa.Function)
		if !ok || !strings.HasPrefix(n, "Verif") {
			continue
		}
		pos := prog.Fset.Position(fn.Pos())
		if !strings.Contains(filepath.Base(pos.Filename), "zz_verif_") {
			continue
		}
		if strings.HasPrefix(n, "VerifThorough") && !thorough {
			continue
		}
		if strings.HasPrefix(n, "VerifQuick") && thorough {
			continue
		}
		// a file borrowed from another property may lend only some of its checks
		skip := false
		for _, hf := range g.files {
			if "zz_verif_"+filepath.Base(hf.Path) != filepath.Base(pos.Filename) {
				continue
			}
			own := strings.HasPrefix(strings.ToLower(filepath.Base(hf.Path)), strings.ToLower(g.prop)+"_")
			if names := hf.Also[strings.ToUpper(g.prop)]; !own && len(names) > 0 && !slicesContains(names, n) {
				skip = true
			}
		}
		if skip {
			continue
		}
		g.funcs = append(g.funcs, n)
	}
	sort.Strings(g.funcs)
	g.loadS = time.Since(t0).Seconds()
	return nil
}

func (g *group) deadlineFor(fn string, tier string) time.Duration {
	pos := g.prog.Fset.Position(g.pkg.Func(fn).Pos())
	for _, f := range g.files {
		if strings.HasSuffix(pos.Filename, "zz_verif_"+filepath.Base(f.Path)) {
			if tier == "thorough" {
				return f.Thor
			}
			return f.Quick
		}
	}
	return 900 * time.Second
}

// nativeRun executes the cases of one package natively: go test with the same overlay.
func (g *group) nativeRun(cases []*sx.Case, tier string, tmp string) (map[int]*NativeResult, string, error) {
	if len(cases) == 0 {
		return nil, "", nil
	}
	sub := filepath.Join(tmp, strings.ReplaceAll(g.dir, "/", "_"))
	os.MkdirAll(sub, 0o755)
	repl := map[string]string{}
	i := 0
	for path, src := range g.overlay {
		i++
		real := filepath.Join(sub, fmt.Sprintf("f%d_%s", i, filepath.Base(path)))
		if err := os.WriteFile(real, src, 0o644); err != nil {
			return nil, "", err
		}
		repl[path] = real
	}
	// test driver
	var tb strings.Builder
	tb.WriteString("//go:build verif\n\npackage " + g.pkgName + "\n\nimport vtesting \"testing\"\n\nfunc TestVerifReplay(t *vtesting.T) {\n\tvReplayMain(map[string]func(){\n")
	for _, f := range g.funcs {
		fmt.Fprintf(&tb, "\t\t%q: %s,\n", f, f)
	}
	tb.WriteString("\t})\n}\n")
	tf := filepath.Join(sub, "replay_test.go")
	os.WriteFile(tf, []byte(tb.String()), 0o644)
	repl[filepath.Join(RepoDir, g.dir, "zz_verif_replay_test.go")] = tf
	ov, _ := json.Marshal(map[string]interface{}{"Replace": repl})
	ovf := filepath.Join(sub, "overlay.json")
	os.WriteFile(ovf, ov, 0o644)
	cf := filepath.Join(sub, "cases.json")
	cj, _ := json.Marshal(map[string]interface{}{"tier": tierN(tier), "cases": cases})
	os.WriteFile(cf, cj, 0o644)
	cmd := exec.Command("go", "test", "-tags=verif", "-vet=off", "-count=1", "-overlay", ovf, "-run", "^TestVerifReplay$", "-v", "-timeout", "20m", "./"+g.dir)
	cmd.Dir = RepoDir
	cmd.Env = append(goEnv(), "VERIF_REPLAY="+cf)
	out, err := runWithTimeout(cmd, 25*time.Minute)
	res := map[int]*NativeResult{}
	for _, l := range strings.Split(out, "\n") {
		l = strings.TrimSpace(l)
		if strings.HasPrefix(l, "VERIFCASE {") {
			var r NativeResult
			if json.Unmarshal([]byte(strings.TrimPrefix(l, "VERIFCASE ")), &r) == nil {
				rr := r
				res[r.Case] = &rr
			}
		}
	}
	if len(res) == 0 && err != nil {
		return nil, out, fmt.Errorf("native replay did not run: %v", err)
	}
	return res, out, nil
}

type NativeResult struct {
	Case     int      `json:"case"`
	Harness  string   `json:"harness"`
	Events   []string `json:"events"`
	Failed   []string `json:"failed"`
	Panic    string   `json:"panic"`
	Diverged string   `json:"diverged"`
	Assume   bool     `json:"assume_failed"`
	Hang     bool     `json:"hang"`
	Left     int      `json:"draws_left"`
}

func runWithTimeout(cmd *exec.Cmd, d time.Duration) (string, error) {
	var buf strings.Builder
	cmd.Stdout = &buf
	cmd.Stderr = &buf
	if err := cmd.Start(); err != nil {
		return "", err
	}
	done := make(chan error, 1)
	go func() { done <- cmd.Wait() }()
	select {
	case err := <-done:
		return buf.String(), err
	case <-time.After(d):
		cmd.Process.Kill()
		return buf.String(), fmt.Errorf("timeout after %v", d)
	}
}

func runJob(g *group, fn string, shard, nshard int, opt Options) *JobResult {
	t0 := time.Now()
	budget := 10000
	if opt.Tier == "thorough" {
		budget = 60000
	}
	sol := sx.NewSolver(budget)
	if opt.Tier == "thorough" {
		sol.Cross = true
	}
	if opt.SMTLog != "" {
		f, _ := os.Create(opt.SMTLog + "." + fn)
		sol.Log = f
	}
	eng := sx.NewEngine(g.prog, sol)
	eng.HPkg = g.pkg
	eng.Trace = opt.Trace
	eng.Tier = tierN(opt.Tier)
	eng.Deadline = t0.Add(g.deadlineFor(fn, opt.Tier))
	eng.Replace = map[string]string{}
	for _, f := range g.files {
		for k, v := range f.Replace {
			eng.Replace[k] = v
		}
	}
	// "//verif:noreplace <full name>" in the file that defines this harness: run the real function here although
	// another harness file of the directory replaces it
	for _, f := range g.files {
		src := string(f.Src)
		if !strings.Contains(src, "func "+fn+"(") {
			continue
		}
		for _, line := range strings.Split(src, "\n") {
			if fs := strings.Fields(line); len(fs) == 2 && fs[0] == "//verif:noreplace" {
				delete(eng.Replace, fs[1])
			}
		}
	}
	if opt.Tier == "thorough" {
		eng.WitnessMax = 40
	}
	if nshard > 1 { // about the same number of natively validated path witnesses per harness, however it is sharded
		per := 24 / nshard
		if opt.Tier == "thorough" {
			per = 80 / nshard
		}
		if per < 2 {
			per = 2
		}
		eng.WitnessMax = per
	}
	eng.ShardIdx, eng.ShardN = shard, nshard
	jr := &JobResult{Harness: fn, Dir: g.dir, Eng: eng, Sol: sol}
	if nshard > 1 {
		jr.Shard = fmt.Sprintf("#%d/%d", shard, nshard)
	}
	func() {
		defer func() {
			if r := recover(); r != nil {
				jr.Crash = fmt.Sprint(r)
				if os.Getenv("VERIF_CRASHTRACE") != "" {
					fmt.Fprintf(os.Stderr, "engine crash in %s: %v\n%s\n", fn, r, debug.Stack())
				}
			}
		}()
		eng.RunHarness(g.pkg.Func(fn))
	}()
	sol.Close()
	jr.Wall = time.Since(t0).Seconds()
	return jr
}

// RunProperty is the whole check for one property and tier. Returns the process exit code.
func RunProperty(opt Options) int {
	t0 := time.Now()
	files, err := harnessFiles(opt.Property)
	if err != nil || len(files) == 0 {
		fmt.Printf("HARNESS-ERROR property=%s no harness files\n", opt.Property)
		return 2
	}
	groups := map[string]*group{}
	var order []string
	var hfiles []*HarnessFile
	for _, f := range files {
		h, err := parseHarness(f)
		if err != nil {
			fmt.Printf("HARNESS-ERROR property=%s %v\n", opt.Property, err)
			return 2
		}
		hfiles = append(hfiles, h)
		g := groups[h.Dir]
		if g == nil {
			g = &group{dir: h.Dir, prop: opt.Property}
			groups[h.Dir] = g
			order = append(order, h.Dir)
		}
		g.files = append(g.files, h)
	}
	// pre-resolve package listings sequentially (shared cache), then load groups in parallel
	for _, d := range order {
		if _, err := listPkg(RepoDir, ModPath+"/"+d); err != nil {
			fmt.Printf("HARNESS-ERROR property=%s %v\n", opt.Property, err)
			return 2
		}
		for _, f := range groups[d].files {
			for _, h := range f.Hooks {
				listPkg(RepoDir, h.Pkg)
			}
			for _, s := range f.Substs {
				listPkg(RepoDir, s.Pkg)
			}
		}
	}
	var wg sync.WaitGroup
	errs := make([]error, len(order))
	for i, d := range order {
		wg.Add(1)
		go func(i int, g *group) {
			defer wg.Done()
			errs[i] = g.load(opt.Tier)
		}(i, groups[d])
		if len(order) > 4 {
			wg.Wait() // bound memory: load sequentially when many packages
		}
	}
	wg.Wait()
	for i, e := range errs {
		if e != nil {
			fmt.Printf("HARNESS-ERROR property=%s dir=%s %v\n", opt.Property, order[i], e)
			return 2
		}
	}
	type job struct {
		g      *group
		fn     string
		sh, ns int
	}
	var jobs []job
	for _, d := range order {
		for _, fn := range groups[d].funcs {
			if opt.Only != "" && !strings.Contains(fn, opt.Only) {
				continue
			}
			ns := 1
			for _, f := range groups[d].files {
				if n, ok := f.Shards[fn]; ok && n > 1 {
					ns = n
				}
			}
			for sh := 0; sh < ns; sh++ {
				jobs = append(jobs, job{groups[d], fn, sh, ns})
			}
		}
	}
	if len(jobs) == 0 {
		fmt.Printf("HARNESS-ERROR property=%s no harness functions selected\n", opt.Property)
		return 2
	}
	workers := opt.Workers
	if workers <= 0 {
		workers = 14
	}
	results := make([]*JobResult, len(jobs))
	ch := make(chan int)
	var wg2 sync.WaitGroup
	for w := 0; w < workers; w++ {
		wg2.Add(1)
		go func() {
			defer wg2.Done()
			for i := range ch {
				results[i] = runJob(jobs[i].g, jobs[i].fn, jobs[i].sh, jobs[i].ns, opt)
				r := results[i]
				fmt.Printf("  [%s] %s%s: paths=%d completed=%d dropped=%d asserts=%d queries=%d (cache %d) solver=%.1fs wall=%.1fs viol=%d inconcl=%d\n",
					r.Dir, r.Harness, r.Shard, r.Eng.Paths, r.Eng.Completed, r.Eng.Dropped, r.Eng.Asserts, r.Sol.Queries, r.Sol.CacheHits, r.Sol.Time.Seconds(), r.Wall, len(r.Eng.Violations), len(r.Eng.Inconclusive))
			}
		}()
	}
	for i := range jobs {
		ch <- i
	}
	close(ch)
	wg2.Wait()

	rep := newReport(opt, hfiles)
	rep.collect(results, groups, order)
	if !opt.NoNative {
		rep.native(groups, order, opt)
	}
	rep.Wall = time.Since(t0).Seconds()
	return rep.finish()
}
