package drv

import (
	"encoding/json"
	"fmt"
	"os"
	"path/filepath"
	"reflect"
	"sort"
	"strings"

	"gosym/sx"
)

type Finding struct {
	Property string   `json:"property"`
	Status   string   `json:"status"` // known | fixed
	Harness  string   `json:"harness,omitempty"`
	Assert   string   `json:"assert,omitempty"`
	Covers   []string `json:"covers,omitempty"`
	What     string   `json:"what"`
	Commit   string   `json:"commit,omitempty"`
}

func loadFindings() []Finding {
	raw, err := os.ReadFile(filepath.Join(VerifDir, "known_findings.json"))
	if err != nil {
		return nil
	}
	var f struct {
		Findings []Finding `json:"findings"`
	}
	json.Unmarshal(raw, &f)
	return f.Findings
}

type violRec struct {
	v      *sx.Violation
	dir    string
	g      *group
	caseIx int
}

type Report struct {
	opt          Options
	files        []*HarnessFile
	results      []*JobResult
	viols        []*violRec
	witness      map[string][]*sx.Case // dir -> cases
	Wall         float64
	inconcl      []string
	mismatch     []string
	validated    int
	witnessTotal int
	nativeS      float64
	loadS        float64
	nativeErr    []string
}

func newReport(opt Options, files []*HarnessFile) *Report {
	return &Report{opt: opt, files: files, witness: map[string][]*sx.Case{}}
}

func (r *Report) collect(results []*JobResult, groups map[string]*group, order []string) {
	r.results = results
	for _, d := range order {
		r.loadS += groups[d].loadS
	}
	for _, jr := range results {
		if jr.Crash != "" {
			r.inconcl = append(r.inconcl, fmt.Sprintf("%s: engine crash: %s", jr.Harness, jr.Crash))
		}
		var keys []string
		for k := range jr.Eng.Inconclusive {
			keys = append(keys, k)
		}
		sort.Strings(keys)
		for _, k := range keys {
			r.inconcl = append(r.inconcl, fmt.Sprintf("%s: %s (x%d)", jr.Harness, k, jr.Eng.Inconclusive[k]))
		}
		if len(jr.Sol.Disagree) > 0 {
			r.inconcl = append(r.inconcl, fmt.Sprintf("%s: solver disagreement: %s", jr.Harness, jr.Sol.Disagree[0]))
		}
		if jr.Eng.Completed == 0 && jr.Crash == "" && jr.Shard == "" {
			r.inconcl = append(r.inconcl, fmt.Sprintf("%s: vacuous (no path completed)", jr.Harness))
		}
		for i := range jr.Eng.Violations {
			r.viols = append(r.viols, &violRec{v: &jr.Eng.Violations[i], dir: jr.Dir, g: groups[jr.Dir]})
		}
		r.witness[jr.Dir] = append(r.witness[jr.Dir], jr.Eng.Witnesses...)
	}
}

// noWitness reports whether path-witness validation is switched off for a harness function: a file's
// "//verif:nowitness" line (optionally followed by function names) covers the functions that file defines.
// It is meant for harnesses whose event order depends on real goroutine scheduling or real time natively.
func noWitness(g *group, harness string) bool {
	for _, f := range g.files {
		src := string(f.Src)
		if !strings.Contains(src, "func "+harness+"(") {
			continue
		}
		for _, line := range strings.Split(src, "\n") {
			fs := strings.Fields(line)
			if len(fs) == 0 || fs[0] != "//verif:nowitness" {
				continue
			}
			names := fs[1:]
			if len(names) == 0 {
				return true
			}
			for _, n := range names {
				if n == harness {
					return true
				}
			}
		}
	}
	return false
}

func (r *Report) native(groups map[string]*group, order []string, opt Options) {
	tmp, err := os.MkdirTemp("", "verif-native-")
	if err != nil {
		r.inconcl = append(r.inconcl, "native: "+err.Error())
		return
	}
	if !opt.Keep {
		defer os.RemoveAll(tmp)
	} else {
		fmt.Println("  native scratch kept at", tmp)
	}
	for _, d := range order {
		g := groups[d]
		var cases []*sx.Case
		for _, vr := range r.viols {
			if vr.dir == d {
				vr.caseIx = len(cases)
				cases = append(cases, vr.v.Case)
			}
		}
		nv := len(cases)
		for _, w := range r.witness[d] {
			if !noWitness(g, w.Harness) {
				cases = append(cases, w)
			}
		}
		if len(cases) == 0 {
			continue
		}
		res, out, err := g.nativeRun(cases, opt.Tier, tmp)
		if err != nil {
			tail := out
			if len(tail) > 3000 {
				tail = tail[len(tail)-3000:]
			}
			r.nativeErr = append(r.nativeErr, fmt.Sprintf("%s: %v\n%s", d, err, tail))
			r.inconcl = append(r.inconcl, fmt.Sprintf("native replay failed for %s: %v", d, err))
			continue
		}
		for _, vr := range r.viols {
			if vr.dir != d {
				continue
			}
			nr := res[vr.caseIx]
			vr.v.Replayed = nr != nil
			if nr == nil {
				vr.v.Note = "native replay produced no result"
				continue
			}
			switch vr.v.Kind {
			case "assert":
				for _, f := range nr.Failed {
					if f == vr.v.ID {
						vr.v.Confirmed = true
					}
				}
			case "panic":
				vr.v.Confirmed = nr.Panic != ""
			case "deadlock":
				vr.v.Confirmed = nr.Hang
			}
			if !vr.v.Confirmed {
				vr.v.Note = fmt.Sprintf("native run: failed=%v panic=%q diverged=%q assume_failed=%v hang=%v", nr.Failed, nr.Panic, nr.Diverged, nr.Assume, nr.Hang)
			}
		}
		for i := nv; i < len(cases); i++ {
			r.witnessTotal++
			nr := res[i]
			c := cases[i]
			if nr == nil {
				r.mismatch = append(r.mismatch, fmt.Sprintf("%s: witness %d: no native result", c.Harness, i))
				continue
			}
			ok := nr.Diverged == "" && !nr.Assume && nr.Panic == "" && !nr.Hang && len(nr.Failed) == 0 && nr.Left == 0 && eventsEqual(c.Events, nr.Events)
			if ok {
				r.validated++
			} else {
				r.mismatch = append(r.mismatch, fmt.Sprintf("%s: path witness does not replay natively (decisions %s): engine events %v / native events %v failed=%v panic=%q diverged=%q assume_failed=%v left=%d",
					c.Harness, c.Decisions, c.Events, nr.Events, nr.Failed, nr.Panic, nr.Diverged, nr.Assume, nr.Left))
			}
		}
	}
}

func eventsEqual(a, b []string) bool {
	if len(a) == 0 && len(b) == 0 {
		return true
	}
	return reflect.DeepEqual(a, b)
}

func matchFinding(f Finding, prop string, v *sx.Violation) bool {
	if f.Status != "known" || f.Property != prop {
		return false
	}
	if f.Harness != "" && f.Harness != v.Harness {
		return false
	}
	if f.Assert != "" && f.Assert != v.ID {
		return false
	}
	have := map[string]bool{}
	for _, e := range v.Case.Events {
		if strings.HasPrefix(e, "C:") {
			have[e[2:]] = true
		}
	}
	for _, c := range f.Covers {
		if !have[c] {
			return false
		}
	}
	return true
}

func (r *Report) finish() int {
	prop := r.opt.Property
	findings := loadFindings()
	outDir := filepath.Join(scratchRoot(), prop)
	os.MkdirAll(outDir, 0o755)
	nViol := 0
	knownPrinted := map[string]bool{}
	var violLines []string
	seenV := map[string]bool{}
	for _, vr := range r.viols {
		v := vr.v
		if !v.Confirmed {
			if r.opt.NoNative {
				r.inconcl = append(r.inconcl, fmt.Sprintf("%s: solver counterexample for %s %q not replayed (native replay disabled)", v.Harness, v.Kind, v.ID))
			} else {
				r.mismatch = append(r.mismatch, fmt.Sprintf("%s: counterexample for %s %q (%s) did not reproduce natively: %s [decisions %s]", v.Harness, v.Kind, v.ID, v.Detail, v.Note, v.Case.Decisions))
			}
			continue
		}
		known := false
		for _, f := range findings {
			if matchFinding(f, prop, v) {
				known = true
				key := f.Harness + "|" + f.Assert + "|" + strings.Join(f.Covers, ",")
				if !knownPrinted[key] {
					knownPrinted[key] = true
					fmt.Printf("KNOWN-FINDING: property=%s %s [%s/%s]\n", prop, f.What, v.Harness, v.ID)
				}
			}
		}
		if known {
			continue
		}
		key := v.Harness + "|" + v.Kind + "|" + v.ID
		path := filepath.Join(outDir, fmt.Sprintf("%s.%s.replay.json", v.Harness, sanitize(v.ID)))
		if !seenV[key] {
			seenV[key] = true
			rj, _ := json.MarshalIndent(map[string]interface{}{"property": prop, "dir": vr.dir, "tier": r.opt.Tier, "kind": v.Kind, "id": v.ID, "detail": v.Detail, "case": v.Case}, "", " ")
			os.WriteFile(path, rj, 0o644)
			violLines = append(violLines, fmt.Sprintf("VIOLATION property=%s replay=%s", prop, path))
			fmt.Printf("  violation: %s %s %q %s (confirmed natively)\n", v.Harness, v.Kind, v.ID, v.Detail)
		}
		nViol++
	}
	for _, m := range r.mismatch {
		fmt.Println("ENGINE-MISMATCH:", m)
	}
	for _, m := range r.inconcl {
		fmt.Println("INCONCLUSIVE:", m)
	}
	for _, m := range r.nativeErr {
		fmt.Println("NATIVE-ERROR:", m)
	}
	r.writeEvidence(nViol)
	for _, l := range violLines {
		fmt.Println(l)
	}
	status := "held"
	code := 0
	switch {
	case nViol > 0:
		status, code = "VIOLATED", 1
	case len(r.mismatch) > 0 || len(r.inconcl) > 0:
		status, code = "INCONCLUSIVE", 3
	}
	fmt.Printf("RESULT property=%s tier=%s status=%s wall=%.1fs\n", prop, r.opt.Tier, status, r.Wall)
	return code
}

func sanitize(s string) string {
	var b strings.Builder
	for _, c := range s {
		if (c >= 'a' && c <= 'z') || (c >= 'A' && c <= 'Z') || (c >= '0' && c <= '9') || c == '-' || c == '_' {
			b.WriteRune(c)
		} else {
			b.WriteByte('_')
		}
	}
	if b.Len() > 60 {
		return b.String()[:60]
	}
	return b.String()
}

func (r *Report) writeEvidence(nViol int) {
	prop := r.opt.Property
	states, transitions, asserts, trivial, dropped, queries, cacheHits, oneshot, unknown, cross := 0, 0, 0, 0, 0, 0, 0, 0, 0, 0
	solverS := 0.0
	funcs := map[string]int{}
	covers := map[string]int{}
	bySolver := map[string]int{}
	var samples []map[string]interface{}
	var harn []map[string]interface{}
	unwind := 0
	aliasRelax := 0
	for _, jr := range r.results {
		e, s := jr.Eng, jr.Sol
		aliasRelax += e.AliasRelax
		states += e.Completed
		transitions += e.Decisions
		asserts += e.Asserts
		trivial += e.AssertsTrivial
		dropped += e.Dropped
		queries += s.Queries
		cacheHits += s.CacheHits
		oneshot += s.OneShot
		unknown += s.Unknown
		cross += s.CrossChk
		solverS += s.Time.Seconds()
		for k, v := range e.TopFuncs() {
			if !strings.Contains(k, ".Verif") && !strings.Contains(k, ".v") {
				funcs[k] += v
			} else {
				funcs[k] += v
			}
		}
		for k, v := range e.Covers {
			covers[jr.Harness+"/"+k] += v
		}
		for k, v := range s.BySolver {
			bySolver[k] += v
		}
		for k, v := range e.Inconclusive {
			if strings.HasPrefix(k, "unwind") {
				unwind += v
			}
		}
		if len(e.Samples) > 0 && len(samples) < 6 {
			samples = append(samples, e.Samples[0])
		}
		ids := map[string]int{}
		for k, v := range e.AssertIDs {
			ids[k] = v
		}
		harn = append(harn, map[string]interface{}{"harness": jr.Harness, "package": jr.Dir, "paths_started": e.Paths, "paths_completed": e.Completed,
			"paths_dropped_by_assumption": e.Dropped, "assertions_checked": e.Asserts, "assertion_ids": ids, "decisions": e.Decisions, "queries": s.Queries,
			"solver_time_s": round2(s.Time.Seconds()), "wall_s": round2(jr.Wall), "violations": len(e.Violations), "ssa_instructions_executed": e.Steps})
	}
	if len(samples) == 0 {
		samples = append(samples, map[string]interface{}{"note": "no completed path"})
	}
	// obligations = distinct (harness, assertion id) pairs; open = those with a counterexample or an unknown
	nOblig, nOpen := 0, 0
	for _, jr := range r.results {
		bad := map[string]bool{}
		for _, v := range jr.Eng.Violations {
			bad[v.ID] = true
		}
		for k := range jr.Eng.Inconclusive {
			if strings.HasPrefix(k, "assert ") {
				bad[strings.TrimSuffix(strings.TrimPrefix(k, "assert "), ": unknown")] = true
			}
		}
		for id := range jr.Eng.AssertIDs {
			nOblig++
			if bad[id] {
				nOpen++
			}
		}
	}
	// keep the evidence readable: every function of the repository under test that was executed (with the number
	// of SSA instructions interpreted in it), and the 40 most executed functions of other modules / the standard library
	type kv struct {
		k string
		v int
	}
	var fl []kv
	for k, v := range funcs {
		fl = append(fl, kv{k, v})
	}
	sort.Slice(fl, func(i, j int) bool { return fl[i].v > fl[j].v })
	fenc := map[string]int{}
	others := 0
	for _, x := range fl {
		if strings.Contains(x.k, "github.com/libp2p/go-libp2p/") {
			fenc[x.k] = x.v
			continue
		}
		if others < 40 {
			fenc[x.k] = x.v
			others++
		}
	}
	var assume, outside, stubs, bounds, oblig []string
	for _, f := range r.files {
		assume = append(assume, f.Assume...)
		outside = append(outside, f.Outside...)
		stubs = append(stubs, f.Stubs...)
		bounds = append(bounds, f.Bounds...)
		oblig = append(oblig, f.Oblig...)
		for _, h := range f.Hooks {
			stubs = append(stubs, fmt.Sprintf("hook (replaceable by the harness): %s %s.%s", h.Pkg, h.Recv, h.Name))
		}
		for _, s := range f.Substs {
			stubs = append(stubs, fmt.Sprintf("call-site substitution: %s in %s -> harness variable %s", s.From, s.Pkg, s.To))
		}
		for k, v := range f.Replace {
			stubs = append(stubs, fmt.Sprintf("function replaced in the symbolic run by harness function %s (the native replay runs the real one): %s", v, k))
		}
	}
	assume = append(assume,
		"sequential execution: goroutines run cooperatively in one explored order unless the harness forks schedules; data races and lock discipline are not checked",
		"library summaries of the engine (sync, sync/atomic, context, time as integer nanoseconds, errors/fmt wrapping, buffer pool as havoc, sort.Slice<=8 elements, logging as no-op) are trusted; go/ssa's translation of the source is trusted",
		"integers are encoded as SMT Int with explicit wrap-around variables (Go's mod 2^w semantics); solver answers of z3 4.8.12 / cvc5 1.0 are trusted (cross-checked in the thorough tier)")
	ev := map[string]interface{}{
		"property_id": prop,
		"tier":        r.opt.Tier,
		"seed":        r.opt.Seed,
		"level":       "model_checking",
		"wall_s":      round2(r.Wall),
		"violations":  nViol,
		"assumptions": assume,
		"coverage": map[string]interface{}{
			"states":                        max1(states),
			"transitions":                   max1(transitions),
			"traces_validated_against_impl": r.validated,
			"samples":                       samples,
			"exhaustive":                    len(r.inconcl) == 0 && len(r.mismatch) == 0,
			"explanation":                   "bounded symbolic execution of the real functions from go/ssa; states = feasible symbolic paths completed, transitions = symbolic branch decisions explored; every vAssert is a solver query PC && !cond (unsat = holds for all values on that path within the bounds); traces_validated_against_impl = path witnesses (solver models of completed paths) replayed natively against the real build with identical cover/assert/observe traces",
			"functions_encoded":             fenc,
			"functions_encoded_total":       len(funcs),
			"bounds":                        bounds,
			"stubs":                         stubs,
			"obligation_list":               oblig,
			"obligations":                   nOblig,
			"discharged":                    nOblig - nOpen,
			"harnesses":                     harn,
			"queries":                       map[string]interface{}{"solver_calls": queries, "cache_hits": cacheHits, "one_shot_fallbacks": oneshot, "answered_by": bySolver, "cross_checked": cross},
			"assertions":                    map[string]interface{}{"checked": asserts, "constant_true": trivial},
			"paths_dropped_by_assumption":   dropped,
			"solver_time_s":                 round2(solverS),
			"load_and_ssa_build_s":          round2(r.loadS),
			"unknown":                       unknown,
			"unwind_failures":               unwind,
			"append_alias_relaxations":      aliasRelax,
			"cover_points":                  covers,
			"path_witnesses_replayed":       r.witnessTotal,
			"inconclusive":                  r.inconcl,
			"engine_mismatches":             r.mismatch,
			"outside_claim":                 outside,
		},
	}
	evDir := filepath.Join(VerifDir, "evidence")
	if os.Getenv("VERIF_REPO") != "" { // development run against a scratch tree: keep the registered evidence untouched
		evDir = filepath.Join(scratchRoot(), "_evidence")
	}
	os.MkdirAll(evDir, 0o755)
	b, _ := json.MarshalIndent(ev, "", " ")
	os.WriteFile(filepath.Join(evDir, prop+".json"), b, 0o644)
}

func round2(f float64) float64 { return float64(int(f*100+0.5)) / 100 }
func max1(n int) int {
	if n < 1 {
		return 1
	}
	return n
}

// scratchRoot is where replay files go: /verif/out, or a per-tree directory for development runs.
func scratchRoot() string {
	if d := os.Getenv("VERIF_REPO"); d != "" {
		return filepath.Join(VerifDir, "out", "_dev", filepath.Base(d))
	}
	return filepath.Join(VerifDir, "out")
}
