package drv

import (
	"encoding/json"
	"fmt"
	"os"

	"gosym/sx"
)

// Replay re-runs one recorded counterexample natively against the current tree.
// Exit 1 (with a VIOLATION line) if the violation reproduces, 0 if it does not, 2 on harness errors.
func Replay(path string) int {
	raw, err := os.ReadFile(path)
	if err != nil {
		fmt.Println("replay:", err)
		return 2
	}
	var rec struct {
		Property string   `json:"property"`
		Dir      string   `json:"dir"`
		Tier     string   `json:"tier"`
		Kind     string   `json:"kind"`
		ID       string   `json:"id"`
		Case     *sx.Case `json:"case"`
	}
	if err := json.Unmarshal(raw, &rec); err != nil || rec.Case == nil {
		fmt.Println("replay: bad file", err)
		return 2
	}
	files, _ := harnessFiles(rec.Property)
	g := &group{dir: rec.Dir, prop: rec.Property}
	for _, f := range files {
		h, err := parseHarness(f)
		if err != nil {
			fmt.Println("HARNESS-ERROR", err)
			return 2
		}
		if h.Dir == rec.Dir {
			g.files = append(g.files, h)
		}
	}
	if err := g.load(rec.Tier); err != nil {
		fmt.Println("HARNESS-ERROR", err)
		return 2
	}
	tmp, _ := os.MkdirTemp("", "verif-replay-")
	defer os.RemoveAll(tmp)
	res, out, err := g.nativeRun([]*sx.Case{rec.Case}, rec.Tier, tmp)
	if err != nil || res[0] == nil {
		fmt.Println("replay failed:", err)
		fmt.Println(out)
		return 2
	}
	nr := res[0]
	b, _ := json.MarshalIndent(nr, "", " ")
	fmt.Println(string(b))
	confirmed := false
	switch rec.Kind {
	case "assert":
		for _, f := range nr.Failed {
			if f == rec.ID {
				confirmed = true
			}
		}
	case "panic":
		confirmed = nr.Panic != ""
	case "deadlock":
		confirmed = nr.Hang
	}
	if confirmed {
		fmt.Printf("VIOLATION property=%s replay=%s\n", rec.Property, path)
		return 1
	}
	fmt.Println("not reproduced on the current tree")
	return 0
}
