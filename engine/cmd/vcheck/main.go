package main

import (
	"flag"
	"fmt"
	"os"
	"strconv"

	"gosym/drv"
)

func usage() {
	fmt.Fprintln(os.Stderr, "usage: vcheck run <Cxx> [--tier quick|thorough] [--only substr] [--workers n] [--trace] [--smtlog file] [--no-native] [--keep]\n       vcheck replay <file.replay.json>")
	os.Exit(2)
}

func main() {
	if len(os.Args) < 3 {
		usage()
	}
	switch os.Args[1] {
	case "run":
		fs := flag.NewFlagSet("run", flag.ExitOnError)
		tier := fs.String("tier", "", "quick|thorough")
		only := fs.String("only", "", "harness function filter")
		workers := fs.Int("workers", 0, "parallel harness jobs")
		trace := fs.Bool("trace", false, "")
		smtlog := fs.String("smtlog", "", "")
		nonative := fs.Bool("no-native", false, "skip native replay / witness validation")
		keep := fs.Bool("keep", false, "keep native scratch dir")
		prop := os.Args[2]
		fs.Parse(os.Args[3:])
		t := *tier
		if t == "" {
			t = os.Getenv("VERIF_TIER")
		}
		if t != "thorough" {
			t = "quick"
		}
		seed, _ := strconv.ParseInt(os.Getenv("VERIF_SEED"), 10, 64)
		os.Exit(drv.RunProperty(drv.Options{Property: prop, Tier: t, Seed: seed, Only: *only, Workers: *workers, Trace: *trace, SMTLog: *smtlog, NoNative: *nonative, Keep: *keep}))
	case "replay":
		os.Exit(drv.Replay(os.Args[2]))
	default:
		usage()
	}
}
