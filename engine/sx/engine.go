package sx

import (
	"fmt"
	"go/constant"
	"go/token"
	"go/types"
	"math/big"
	"os"
	"sort"
	"strings"
	"time"

	"golang.org/x/tools/go/ssa"
)

func constantString(c *ssa.Const) string { return constant.StringVal(c.Value) }

type pathAbort struct{ why string } // infeasible / assumption false / limit

// Draw is one nondeterministic input of a path, in creation order (the replay vector).
type Draw struct {
	Kind string // "i" int, "b" bool, "a" byte array
	Name string // SMT constant (i, b)
	Arr  *symArr
	Len  *Term
	Base *arrNode
}

// Event is what a path is expected to do natively (cover / assert / observe), in order.
type Event struct {
	Kind string // "C", "A", "O"
	ID   string
	Val  *Term // for "O"
}

// CDraw / Case are the concretised forms written to the replay file.
type CDraw struct {
	K string           `json:"k"`
	V string           `json:"v,omitempty"`
	N int              `json:"n,omitempty"`
	D map[string]int64 `json:"d,omitempty"`
}

type Case struct {
	Harness    string   `json:"harness"`
	Draws      []CDraw  `json:"draws"`
	Events     []string `json:"events"`
	ExpectFail string   `json:"expect_fail"` // assertion id expected to fail natively ("" = none)
	ExpectKind string   `json:"expect_kind"` // "assert", "panic", "deadlock", ""
	Decisions  string   `json:"decisions,omitempty"`
}

type Violation struct {
	Harness string
	ID      string
	Kind    string // assert | panic | deadlock
	Detail  string
	Case    *Case
	// filled in by the native replay
	Confirmed bool
	Replayed  bool
	Note      string
}

type Engine struct {
	Prog             *ssa.Program
	Solver           *Solver
	Trace            bool
	HPkg             *ssa.Package
	Harness          string
	Unwind           int
	MaxPath          int
	Tier             int
	Deadline         time.Time
	Replace          map[string]string // full name of a replaced function -> harness function (engine only)
	Replaced         map[string]int
	uniq             []*value // unique.Make table (engine lifetime)
	vclock           *big.Int // virtual clock for timers of concrete duration
	initStart        int
	ShardIdx, ShardN int
	reflTypes        map[string]*reflTypeV
	shardUsed        bool

	globals  map[*ssa.Global]*value
	pristine map[*ssa.Global]value
	inited   map[*ssa.Package]bool
	initMode bool

	// per path
	ctx                 *Ctx
	pc                  []*Term
	dec                 []int
	cursor              int
	pending             [][]int
	draws               []*Draw
	events              []Event
	loops               map[*ssa.BasicBlock]int
	depth               int
	sync                map[*value]*syncState
	syncMaps            map[*value]*mapV
	sched               *sched
	nowLast             *Term
	pathCov             []string
	ghostLog            []string
	atoms               map[*value]value
	timers              map[*value]*chanV
	afterFuncs          []*afterFunc
	deadlockIsViolation bool

	// stats
	Paths, Completed, Asserts, Dropped, Decisions int
	AssertsTrivial                                int
	Covers                                        map[string]int
	Violations                                    []Violation
	Inconclusive                                  map[string]int
	FuncInstrs                                    map[string]int
	Steps                                         int
	AliasRelax                                    int
	Witnesses                                     []*Case
	WitnessEvery                                  int
	WitnessMax                                    int
	Samples                                       []map[string]interface{}
	AssertIDs                                     map[string]int
	seenViol                                      map[string]bool
}

func NewEngine(prog *ssa.Program, s *Solver) *Engine {
	return &Engine{Prog: prog, Solver: s, Unwind: 64, MaxPath: 200000,
		globals: map[*ssa.Global]*value{}, pristine: map[*ssa.Global]value{}, inited: map[*ssa.Package]bool{},
		Covers: map[string]int{}, FuncInstrs: map[string]int{}, Inconclusive: map[string]int{},
		AssertIDs: map[string]int{}, seenViol: map[string]bool{}, Replaced: map[string]int{}, WitnessEvery: 1, WitnessMax: 12}
}

func (e *Engine) inconclusive(why string) { e.Inconclusive[why]++ }

type frame struct {
	e                *Engine
	caller           *frame
	fn               *ssa.Function
	block, prevBlock *ssa.BasicBlock
	env              map[ssa.Value]value
	defers           []deferred
	result           value
	panicking        bool
	panicv           interface{}
	visits           map[*ssa.BasicBlock]int
	symVisits        map[*ssa.If]int
}

type deferred struct {
	fn   value
	args []value
	pos  token.Pos
}

func (e *Engine) global(g *ssa.Global) *value {
	if p, ok := e.globals[g]; ok {
		return p
	}
	e.ensureInit(g.Pkg)
	if p, ok := e.globals[g]; ok {
		return p
	}
	p := new(value)
	*p = zero(deref(g.Type()))
	e.globals[g] = p
	return p
}

// ensureInit runs the package initializer in tolerant mode (once per engine), then the globals are
// snapshotted; per-path state is restored from the snapshot.
func (e *Engine) ensureInit(p *ssa.Package) {
	if p == nil || e.inited[p] {
		return
	}
	e.inited[p] = true
	for _, m := range p.Members {
		if g, ok := m.(*ssa.Global); ok {
			v := new(value)
			*v = zero(deref(g.Type()))
			e.globals[g] = v
		}
	}
	init := p.Func("init")
	if init == nil {
		return
	}
	saved := e.initMode
	savedCtx := e.ctx
	if e.ctx == nil {
		e.ctx = &Ctx{OnDecl: e.Solver.Declare}
	}
	e.initMode = true
	e.initStart = e.Steps
	func() {
		defer func() {
			if r := recover(); r != nil {
				if e.Trace {
					fmt.Fprintf(os.Stderr, "init %s aborted: %v\n", p.Pkg.Path(), r)
				}
			}
		}()
		e.callSSA(nil, init, nil, nil)
	}()
	e.initMode = saved
	e.ctx = savedCtx
}

func (fr *frame) get(key ssa.Value) value {
	switch key := key.(type) {
	case nil:
		return nil
	case *ssa.Function, *ssa.Builtin:
		return key
	case *ssa.Const:
		return constValue(key)
	case *ssa.Global:
		return fr.e.global(key)
	}
	if r, ok := fr.env[key]; ok {
		return r
	}
	panic(fmt.Sprintf("get: no value for %T: %v", key, key.Name()))
}

// ---------- branching ----------

func (e *Engine) asserts(extra ...*Term) []*Term {
	a := make([]*Term, 0, len(e.pc)+len(e.ctx.Side)+len(extra))
	a = append(a, e.pc...)
	a = append(a, e.ctx.Side...)
	a = append(a, extra...)
	return a
}

func (e *Engine) feasible(c *Term) bool {
	r, _ := e.Solver.Check(e.asserts(c), nil)
	if r != "sat" && r != "unsat" {
		e.inconclusive("solver: " + r)
		return true // unknown = keep
	}
	return r == "sat"
}

// choose makes an n-way decision without solver involvement (alternatives are all explored).
func (e *Engine) choose(n int) int {
	if n <= 1 {
		return 0
	}
	if e.initMode {
		unsup("choice during init")
	}
	var choice int
	if e.cursor < len(e.dec) {
		choice = e.dec[e.cursor]
	} else {
		for alt := n - 1; alt >= 1; alt-- {
			e.pending = append(e.pending, append(append([]int{}, e.dec...), alt))
		}
		choice = 0
		e.dec = append(e.dec, choice)
		e.Decisions++
	}
	e.cursor++
	return choice
}

// Branch decides a symbolic condition; returns the chosen truth value.
func (e *Engine) Branch(c *Term) bool {
	if c.K {
		return c.B
	}
	if e.initMode {
		unsup("symbolic branch during init")
	}
	var choice int
	if e.cursor < len(e.dec) {
		choice = e.dec[e.cursor]
	} else {
		t, f := e.feasible(c), e.feasible(Not(c))
		switch {
		case t && f:
			alt := append(append([]int{}, e.dec...), 0)
			e.pending = append(e.pending, alt)
			choice = 1
		case t:
			choice = 1
		case f:
			choice = 0
		default:
			panic(pathAbort{"infeasible"})
		}
		e.dec = append(e.dec, choice)
		e.Decisions++
	}
	e.cursor++
	if choice == 1 {
		e.pc = append(e.pc, c)
		return true
	}
	e.pc = append(e.pc, Not(c))
	return false
}

func (e *Engine) asBool(v value) bool { return e.Branch(v.(*Term)) }

// concInt concretises a (possibly symbolic) int known to lie in [0,n) by forking.
func (e *Engine) concInt(t *Term, n int, what string) int {
	if t.K {
		if !t.C.IsInt64() {
			panic(targetPanic{what + ": index out of range"})
		}
		return int(t.C.Int64())
	}
	lo, hi := 0, n
	if t.Lo != nil && t.Lo.IsInt64() && t.Lo.Int64() > int64(lo) && t.Lo.Int64() < int64(n) {
		lo = int(t.Lo.Int64())
	}
	if t.Hi != nil && t.Hi.IsInt64() && t.Hi.Int64() >= 0 && t.Hi.Int64() < int64(hi)-1 {
		hi = int(t.Hi.Int64()) + 1
	}
	for i := lo; i < hi; i++ {
		if e.Branch(EqI(t, IntC(int64(i)))) {
			return i
		}
	}
	panic(pathAbort{"concInt exhausted " + what})
}

// ---------- instruction interpreter ----------

func (e *Engine) visit(fr *frame, instr ssa.Instruction) (jump bool, ret bool) {
	e.Steps++
	if e.Steps&0xfff == 0 && !e.Deadline.IsZero() && time.Now().After(e.Deadline) {
		panic(pathAbort{"deadline"})
	}
	switch instr := instr.(type) {
	case *ssa.DebugRef:
	case *ssa.UnOp:
		fr.env[instr] = e.unop(instr, fr.get(instr.X))
	case *ssa.BinOp:
		fr.env[instr] = e.binop(instr.Op, instr.X.Type(), fr.get(instr.X), fr.get(instr.Y))
	case *ssa.Call:
		fn, args := e.prepareCall(fr, &instr.Call)
		fr.env[instr] = e.call(fr, instr.Pos(), fn, args, &instr.Call)
	case *ssa.ChangeInterface:
		fr.env[instr] = fr.get(instr.X)
	case *ssa.ChangeType:
		fr.env[instr] = fr.get(instr.X)
	case *ssa.Convert:
		fr.env[instr] = e.conv(instr.Type(), instr.X.Type(), fr.get(instr.X))
	case *ssa.SliceToArrayPointer:
		// (*[n]T)(s): a pointer to an array sharing the slice's backing store
		n := int(deref(instr.Type()).Underlying().(*types.Array).Len())
		switch x := fr.get(instr.X).(type) {
		case []value:
			if len(x) < n {
				panic(targetPanic{"slice to array pointer: slice too short"})
			}
			p := new(value)
			if n == 0 && x == nil {
				fr.env[instr] = (*value)(nil)
				break
			}
			*p = array(x[:n:n])
			fr.env[instr] = p
		case nil:
			if n != 0 {
				panic(targetPanic{"slice to array pointer: slice too short"})
			}
			fr.env[instr] = (*value)(nil)
		default:
			unsup("SliceToArrayPointer on %T", x)
		}
	case *ssa.MakeInterface:
		fr.env[instr] = iface{t: instr.X.Type(), v: fr.get(instr.X)}
	case *ssa.Extract:
		fr.env[instr] = fr.get(instr.Tuple).(tuple)[instr.Index]
	case *ssa.Slice:
		fr.env[instr] = e.slice(instr, fr.get(instr.X), fr.get(instr.Low), fr.get(instr.High), fr.get(instr.Max))
	case *ssa.Return:
		switch len(instr.Results) {
		case 0:
		case 1:
			fr.result = fr.get(instr.Results[0])
		default:
			var res tuple
			for _, r := range instr.Results {
				res = append(res, fr.get(r))
			}
			fr.result = res
		}
		return false, true
	case *ssa.RunDefers:
		fr.runDefers()
	case *ssa.Panic:
		panic(targetPanic{fr.get(instr.X)})
	case *ssa.Send:
		e.chanSend(fr.get(instr.Chan).(*chanV), fr.get(instr.X))
	case *ssa.Store:
		e.storeAt(fr.get(instr.Addr), fr.get(instr.Val))
	case *ssa.If:
		succ := 1
		cond := fr.get(instr.Cond).(*Term)
		if !cond.K && !e.initMode {
			// the unwinding bound applies to loops (and repeated decisions) controlled by symbolic values;
			// loops with a concrete trip count cannot hide behaviour and are only guarded against runaway
			if fr.symVisits == nil {
				fr.symVisits = map[*ssa.If]int{}
			}
			fr.symVisits[instr]++
			if fr.symVisits[instr] > e.Unwind {
				panic(pathAbort{"unwind: " + fr.fn.String()})
			}
		}
		if e.Branch(cond) {
			succ = 0
		}
		fr.prevBlock, fr.block = fr.block, fr.block.Succs[succ]
		return true, false
	case *ssa.Jump:
		fr.prevBlock, fr.block = fr.block, fr.block.Succs[0]
		return true, false
	case *ssa.Defer:
		fn, args := e.prepareCall(fr, &instr.Call)
		fr.defers = append(fr.defers, deferred{fn, args, instr.Pos()})
	case *ssa.Go:
		fn, args := e.prepareCall(fr, &instr.Call)
		e.spawn(fn, args, instr.Pos())
	case *ssa.MakeChan:
		n := e.concInt(fr.get(instr.Size).(*Term), 1<<16, "makechan size")
		fr.env[instr] = e.newChan(n)
	case *ssa.Alloc:
		addr := new(value)
		*addr = zero(deref(instr.Type()))
		fr.env[instr] = addr
	case *ssa.MakeSlice:
		fr.env[instr] = e.makeSlice(instr, fr.get(instr.Len).(*Term), fr.get(instr.Cap).(*Term))
	case *ssa.MakeMap:
		fr.env[instr] = &mapV{kt: instr.Type().Underlying().(*types.Map).Key()}
	case *ssa.Range:
		fr.env[instr] = e.rangeIter(fr.get(instr.X), instr.X.Type())
	case *ssa.Next:
		fr.env[instr] = fr.get(instr.Iter).(iter).next()
	case *ssa.FieldAddr:
		p := fr.get(instr.X).(*value)
		if p == nil {
			panic(targetPanic{"nil pointer dereference (fieldaddr)"})
		}
		fr.env[instr] = &(*p).(structure)[instr.Field]
	case *ssa.Field:
		fr.env[instr] = copyVal(fr.get(instr.X).(structure)[instr.Field])
	case *ssa.IndexAddr:
		x := fr.get(instr.X)
		idx := fr.get(instr.Index).(*Term)
		switch x := x.(type) {
		case sliceS:
			if !e.Branch(And(Ge(idx, IntC(0)), Lt(idx, x.len))) {
				panic(targetPanic{"index out of range (sym slice)"})
			}
			fr.env[instr] = elemPtr{x.arr, AddX(x.off, idx)}
		case []value:
			i := e.index(idx, len(x))
			fr.env[instr] = &x[i]
		case *value:
			if x == nil {
				panic(targetPanic{"nil pointer dereference (indexaddr)"})
			}
			a := (*x).(array)
			fr.env[instr] = &a[e.index(idx, len(a))]
		default:
			unsup("IndexAddr on %T", x)
		}
	case *ssa.Index:
		x := fr.get(instr.X)
		idx := fr.get(instr.Index).(*Term)
		switch x := x.(type) {
		case array:
			fr.env[instr] = copyVal(x[e.index(idx, len(x))])
		case string:
			fr.env[instr] = IntC(int64(x[e.index(idx, len(x))]))
		case strS:
			if !e.Branch(And(Ge(idx, IntC(0)), Lt(idx, x.len))) {
				panic(targetPanic{"index out of range (sym string)"})
			}
			fr.env[instr] = e.sel(x.arr, AddX(x.off, idx))
		default:
			unsup("Index on %T", x)
		}
	case *ssa.Lookup:
		fr.env[instr] = e.lookup(instr, fr.get(instr.X), fr.get(instr.Index))
	case *ssa.MapUpdate:
		m := fr.get(instr.Map).(*mapV)
		if m == nil {
			panic(targetPanic{"assignment to entry in nil map"})
		}
		e.mapSet(m, fr.get(instr.Key), fr.get(instr.Value))
	case *ssa.TypeAssert:
		fr.env[instr] = e.typeAssert(instr, fr.get(instr.X).(iface))
	case *ssa.MakeClosure:
		var b []value
		for _, x := range instr.Bindings {
			b = append(b, fr.get(x))
		}
		fr.env[instr] = &closure{Fn: instr.Fn.(*ssa.Function), Env: b}
	case *ssa.Select:
		fr.env[instr] = e.selectInstr(fr, instr)
	default:
		unsup("instruction %T", instr)
	}
	return false, false
}

func (e *Engine) storeAt(addr value, v value) {
	switch p := addr.(type) {
	case elemPtr:
		p.arr.store(p.idx, v.(*Term))
	case *value:
		if p == nil {
			panic(targetPanic{"nil pointer dereference (store)"})
		}
		store(p, v)
	default:
		unsup("store through %T", addr)
	}
}

func (e *Engine) makeSlice(instr *ssa.MakeSlice, ln, cp *Term) value {
	te := instr.Type().Underlying().(*types.Slice).Elem()
	if it, ok := intTypeOf(te); ok && (!ln.K || !cp.K || (ln.K && ln.C.IsInt64() && ln.C.Int64() > 4096)) {
		if !e.Branch(And(Le(IntC(0), ln), Le(ln, cp))) {
			panic(targetPanic{"makeslice: len out of range"})
		}
		return sliceS{e.constArr(it, IntC(0)), IntC(0), ln, cp}
	}
	n := e.concInt(cp, 1<<16, "makeslice cap")
	l := e.concInt(ln, n+1, "makeslice len")
	s := make([]value, n)
	for i := range s {
		s[i] = zero(te)
	}
	return s[:l]
}

func (e *Engine) index(idx *Term, n int) int {
	inb := And(Ge(idx, IntC(0)), Lt(idx, IntC(int64(n))))
	if !e.Branch(inb) {
		panic(targetPanic{"index out of range"})
	}
	return e.concInt(idx, n, "index")
}

func (e *Engine) slice(instr *ssa.Slice, x, lo, hi, max value) value {
	var s []value
	switch x := x.(type) {
	case sliceS:
		l, h, m := IntC(0), x.len, x.cap
		if lo != nil {
			l = lo.(*Term)
		}
		if hi != nil {
			h = hi.(*Term)
		}
		if max != nil {
			m = max.(*Term)
		}
		ok := And(And(Le(IntC(0), l), Le(l, h)), And(Le(h, m), Le(m, x.cap)))
		if !e.Branch(ok) {
			panic(targetPanic{"slice bounds out of range (sym slice)"})
		}
		return sliceS{x.arr, AddX(x.off, l), SubX(h, l), SubX(m, l)}
	case strS:
		l, h := IntC(0), x.len
		if lo != nil {
			l = lo.(*Term)
		}
		if hi != nil {
			h = hi.(*Term)
		}
		if !e.Branch(And(And(Le(IntC(0), l), Le(l, h)), Le(h, x.len))) {
			panic(targetPanic{"slice bounds out of range (sym string)"})
		}
		return strS{x.arr, AddX(x.off, l), SubX(h, l)}
	case []value:
		s = x
	case *value:
		if x == nil {
			panic(targetPanic{"nil pointer dereference (slice of array ptr)"})
		}
		s = []value((*x).(array))
	case string:
		l, h := 0, len(x)
		if lo != nil {
			l = e.boundIdx(lo.(*Term), len(x), "slice lo")
		}
		if hi != nil {
			h = e.boundIdx(hi.(*Term), len(x), "slice hi")
		}
		if l > h {
			panic(targetPanic{"slice bounds out of range (string)"})
		}
		return x[l:h]
	default:
		unsup("slice of %T", x)
	}
	l, h, m := 0, len(s), cap(s)
	if lo != nil {
		l = e.boundIdx(lo.(*Term), cap(s), "slice lo")
	}
	if hi != nil {
		h = e.boundIdx(hi.(*Term), cap(s), "slice hi")
	}
	if max != nil {
		m = e.boundIdx(max.(*Term), cap(s), "slice max")
	}
	if l > h || h > m {
		panic(targetPanic{"slice bounds out of range"})
	}
	if s == nil {
		return []value(nil)
	}
	return s[l:h:m]
}

func (e *Engine) boundIdx(t *Term, n int, what string) int {
	inb := And(Ge(t, IntC(0)), Le(t, IntC(int64(n))))
	if !e.Branch(inb) {
		panic(targetPanic{what + " out of range"})
	}
	return e.concInt(t, n+1, what)
}

func (e *Engine) lookup(instr *ssa.Lookup, x, idx value) value {
	switch x := x.(type) {
	case *mapV:
		var v value
		ok := false
		if x != nil {
			if i := e.mapFind(x, idx); i >= 0 {
				v, ok = copyVal(x.vals[i]), true
			}
		}
		if !ok {
			v = zero(instr.X.Type().Underlying().(*types.Map).Elem())
		}
		if instr.CommaOk {
			return tuple{v, BoolC(ok)}
		}
		return v
	case string:
		return IntC(int64(x[e.index(idx.(*Term), len(x))]))
	case strS:
		i := idx.(*Term)
		if !e.Branch(And(Ge(i, IntC(0)), Lt(i, x.len))) {
			panic(targetPanic{"index out of range (sym string)"})
		}
		return e.sel(x.arr, AddX(x.off, i))
	}
	unsup("lookup on %T", x)
	return nil
}

func (e *Engine) mapFind(m *mapV, k value) int {
	for i := range m.keys {
		if e.Branch(e.equalsT(m.kt, m.keys[i], k)) {
			return i
		}
	}
	return -1
}

func (e *Engine) mapSet(m *mapV, k, v value) {
	if i := e.mapFind(m, k); i >= 0 {
		m.vals[i] = copyVal(v)
		return
	}
	m.keys = append(m.keys, copyVal(k))
	m.vals = append(m.vals, copyVal(v))
}

func (e *Engine) mapDelete(m *mapV, k value) {
	if m == nil {
		return
	}
	if i := e.mapFind(m, k); i >= 0 {
		m.keys = append(m.keys[:i:i], m.keys[i+1:]...)
		m.vals = append(m.vals[:i:i], m.vals[i+1:]...)
	}
}

type mapIter struct {
	keys, vals []value
	i          int
	m          *mapV
}

// concreteEq decides equality of two map keys without branching; ok=false if it cannot be decided.
func concreteEq(a, b value) (eq bool, ok bool) {
	switch x := a.(type) {
	case string:
		y, isS := b.(string)
		return isS && x == y, isS
	case *Term:
		y, isT := b.(*Term)
		if !isT || !x.K || !y.K {
			return false, false
		}
		if x.Sort == SBool {
			return x.B == y.B, true
		}
		return x.C.Cmp(y.C) == 0, true
	case *value:
		y, isP := b.(*value)
		return isP && x == y, isP
	case iface:
		y, isI := b.(iface)
		if !isI {
			return false, false
		}
		if x.t == nil || y.t == nil {
			return x.t == nil && y.t == nil, true
		}
		if !types.Identical(x.t, y.t) {
			return false, true
		}
		return concreteEq(x.v, y.v)
	case structure:
		y, isS := b.(structure)
		if !isS || len(x) != len(y) {
			return false, false
		}
		for i := range x {
			e, k := concreteEq(x[i], y[i])
			if !k {
				return false, false
			}
			if !e {
				return false, true
			}
		}
		return true, true
	}
	return false, false
}

func (it *mapIter) next() tuple {
	for it.i < len(it.keys) {
		k, v := it.keys[it.i], it.vals[it.i]
		it.i++
		// Go does not produce entries that were deleted during the iteration; the current value of a
		// still-present key is produced
		if it.m != nil {
			present, decided := false, true
			for j, mk := range it.m.keys {
				eq, ok := concreteEq(mk, k)
				if !ok {
					decided = false
					break
				}
				if eq {
					present = true
					v = it.m.vals[j]
					break
				}
			}
			if decided && !present {
				continue
			}
		}
		return tuple{True, copyVal(k), copyVal(v)}
	}
	return tuple{False, nil, nil}
}

type stringIter struct {
	s string
	i int
}

func (it *stringIter) next() tuple {
	if it.i >= len(it.s) {
		return tuple{False, IntC(0), IntC(0)}
	}
	for _, r := range it.s[it.i:] {
		k := it.i
		it.i += len(string(r))
		return tuple{True, IntC(int64(k)), IntC(int64(r))}
	}
	return nil
}

func (e *Engine) rangeIter(x value, t types.Type) iter {
	switch x := x.(type) {
	case *mapV:
		if x == nil {
			return &mapIter{}
		}
		// Go's map iteration order is unspecified; entries deleted during iteration are not
		// produced. We iterate a snapshot in insertion order and skip keys no longer present.
		return &mapIter{keys: append([]value{}, x.keys...), vals: append([]value{}, x.vals...), m: x}
	case string:
		return &stringIter{s: x}
	}
	unsup("range over %T", x)
	return nil
}

func (e *Engine) typeAssert(instr *ssa.TypeAssert, itf iface) value {
	var v value
	ok := false
	if idst, isI := instr.AssertedType.Underlying().(*types.Interface); isI {
		if itf.t != nil && types.Implements(itf.t, idst) {
			v, ok = itf, true
		}
	} else if itf.t != nil && types.Identical(itf.t, instr.AssertedType) {
		v, ok = copyVal(itf.v), true
	}
	if !ok {
		if !instr.CommaOk {
			panic(targetPanic{fmt.Sprintf("interface conversion: %v is not %v", itf.t, instr.AssertedType)})
		}
		v = zero(instr.AssertedType)
	}
	if instr.CommaOk {
		return tuple{v, BoolC(ok)}
	}
	return v
}

func (fr *frame) runDefers() {
	for len(fr.defers) > 0 {
		d := fr.defers[len(fr.defers)-1]
		fr.defers = fr.defers[:len(fr.defers)-1]
		func() {
			ok := false
			defer func() {
				if !ok {
					r := recover()
					if _, isT := r.(targetPanic); isT {
						fr.panicking, fr.panicv = true, r
					} else {
						panic(r)
					}
				}
			}()
			fr.e.call(fr, d.pos, d.fn, d.args, nil)
			ok = true
		}()
	}
	if fr.panicking {
		panic(fr.panicv)
	}
}

func (e *Engine) findMethod(t types.Type, pkg *types.Package, name string) *ssa.Function {
	ms := e.Prog.MethodSets.MethodSet(t)
	sel := ms.Lookup(pkg, name)
	if sel == nil {
		return nil
	}
	return e.Prog.MethodValue(sel)
}

func (e *Engine) prepareCall(fr *frame, call *ssa.CallCommon) (fn value, args []value) {
	v := fr.get(call.Value)
	if call.Method == nil {
		fn = v
	} else {
		recv := v.(iface)
		if recv.t == nil {
			panic(targetPanic{"method " + call.Method.Name() + " invoked on nil interface"})
		}
		if b, ok := recv.v.(builtinObj); ok {
			fn = &boundBuiltin{b, call.Method.Name()}
		} else {
			f := e.findMethod(recv.t, call.Method.Pkg(), call.Method.Name())
			if f == nil {
				unsup("no method %s on %s", call.Method.Name(), recv.t)
			}
			fn = f
			args = append(args, recv.v)
		}
	}
	for _, a := range call.Args {
		args = append(args, fr.get(a))
	}
	return
}

// builtinObj is an engine-side object behind an interface (context, timers ...).
type builtinObj interface {
	callMethod(e *Engine, name string, args []value) value
}
type boundBuiltin struct {
	obj  builtinObj
	name string
}

func (e *Engine) call(caller *frame, pos token.Pos, fn value, args []value, cc *ssa.CallCommon) value {
	switch fn := fn.(type) {
	case *ssa.Function:
		if fn == nil {
			panic(targetPanic{"call of nil function"})
		}
		return e.callSSA(caller, fn, args, nil)
	case *closure:
		if fn == nil {
			panic(targetPanic{"call of nil closure"})
		}
		if fn.Native != nil {
			return fn.Native(args)
		}
		return e.callSSA(caller, fn.Fn, args, fn.Env)
	case *ssa.Builtin:
		return e.callBuiltin(caller, fn, args, cc)
	case *boundBuiltin:
		return fn.obj.callMethod(e, fn.name, args)
	case nil:
		panic(targetPanic{"call of nil function value"})
	}
	unsup("call of %T", fn)
	return nil
}

func fullName(fn *ssa.Function) string {
	if fn.Object() != nil {
		if f, ok := fn.Object().(*types.Func); ok {
			return f.FullName()
		}
	}
	return fn.String()
}

func (e *Engine) callSSA(caller *frame, fn *ssa.Function, args []value, env []value) value {
	name := fullName(fn)
	if len(e.Replace) > 0 && !e.initMode {
		if st, ok := e.Replace[name]; ok {
			if sf := e.HPkg.Func(st); sf != nil && sf != fn {
				e.Replaced[name]++
				return e.callSSA(caller, sf, args, nil)
			}
			unsup("replacement function %s not found in harness package", st)
		}
	}
	if h, ok := e.intrinsic(name, fn); ok {
		return h(caller, fn, args)
	}
	if len(fn.Blocks) == 0 {
		unsup("external function %s", name)
	}
	if e.initMode && fn.Name() == "init" && caller != nil {
		return nil // do not chase other packages' init from an init
	}
	if e.initMode && caller != nil {
		// tolerant initialisation: a callee that cannot be executed yields the zero value instead of
		// aborting the whole initialiser (globals it would have produced read as zero / poison)
		return e.callInitTolerant(caller, fn, args, env)
	}
	e.depth++
	if e.depth > 400 {
		unsup("call depth")
	}
	defer func() { e.depth-- }()
	fr := &frame{e: e, caller: caller, fn: fn, env: map[ssa.Value]value{}, block: fn.Blocks[0]}
	for i, p := range fn.Params {
		fr.env[p] = args[i]
	}
	for i, fv := range fn.FreeVars {
		fr.env[fv] = env[i]
	}
	e.run(fr)
	return fr.result
}

func (e *Engine) callInitTolerant(caller *frame, fn *ssa.Function, args []value, env []value) (res value) {
	e.depth++
	defer func() { e.depth-- }()
	if e.depth > 400 || e.Steps-e.initStart > 3000000 {
		return retZero(fn)
	}
	defer func() {
		if r := recover(); r != nil {
			switch r.(type) {
			case unsupported, targetPanic, pathAbort:
				res = retZero(fn)
			default:
				if _, isRT := r.(error); isRT { // host runtime error inside the interpreter (type assertion etc.)
					res = retZero(fn)
					return
				}
				if _, isStr := r.(string); isStr {
					res = retZero(fn)
					return
				}
				panic(r)
			}
		}
	}()
	fr := &frame{e: e, caller: caller, fn: fn, env: map[ssa.Value]value{}, block: fn.Blocks[0]}
	for i, p := range fn.Params {
		fr.env[p] = args[i]
	}
	for i, fv := range fn.FreeVars {
		fr.env[fv] = env[i]
	}
	e.run(fr)
	return fr.result
}

func (e *Engine) run(fr *frame) {
	defer func() {
		if fr.block == nil {
			return
		}
		r := recover()
		if _, ok := r.(targetPanic); !ok {
			panic(r)
		}
		fr.panicking, fr.panicv = true, r
		fr.runDefersRecover()
	}()
	for {
		if !e.initMode {
			if fr.visits == nil {
				fr.visits = map[*ssa.BasicBlock]int{}
			}
			fr.visits[fr.block]++
			if fr.visits[fr.block] > 300000 {
				panic(pathAbort{"unwind: runaway concrete loop in " + fr.fn.String()})
			}
		}
		// phis
		var phis []value
		n := 0
		for _, in := range fr.block.Instrs {
			phi, ok := in.(*ssa.Phi)
			if !ok {
				break
			}
			for i, pred := range fr.block.Preds {
				if pred == fr.prevBlock {
					phis = append(phis, fr.get(phi.Edges[i]))
					break
				}
			}
			n++
		}
		for i := 0; i < n; i++ {
			fr.env[fr.block.Instrs[i].(*ssa.Phi)] = phis[i]
		}
		if !e.initMode {
			e.FuncInstrs[fr.fn.String()] += len(fr.block.Instrs)
		}
		jumped := false
		for _, in := range fr.block.Instrs[n:] {
			if e.Trace {
				fmt.Fprintf(os.Stderr, "  %s: %s\n", fr.fn.Name(), in)
			}
			j, ret := e.visit(fr, in)
			if ret {
				fr.block = nil
				return
			}
			if j {
				jumped = true
				break
			}
		}
		if !jumped {
			panic("fell off block")
		}
	}
}

// runDefersRecover handles a panic unwinding through fr: run defers; if recovered, return normally
// (named results come from the Recover block).
func (fr *frame) runDefersRecover() {
	fr.runDefers() // re-panics if still panicking
	if fr.fn.Recover != nil {
		fr.block = fr.fn.Recover
		fr.e.run(fr)
	} else {
		fr.block = nil
	}
}

func (e *Engine) doRecover(caller *frame) value {
	// recover() is called from a deferred function whose caller frame is panicking
	if caller != nil && caller.caller != nil && caller.caller.panicking {
		p := caller.caller
		p.panicking = false
		if tp, ok := p.panicv.(targetPanic); ok {
			if s, isS := tp.v.(string); isS {
				return iface{t: types.Typ[types.String], v: s}
			}
			if i, isI := tp.v.(iface); isI {
				return i
			}
		}
		return iface{t: types.Typ[types.String], v: "panic"}
	}
	return iface{}
}

// ---------- path driver ----------

func (e *Engine) resetPath(dec []int) {
	e.ctx = &Ctx{OnDecl: e.Solver.Declare}
	e.pc = nil
	e.dec = append([]int{}, dec...)
	e.cursor = 0
	e.draws = nil
	e.events = nil
	e.pathCov = nil
	e.ghostLog = nil
	e.loops = map[*ssa.BasicBlock]int{}
	e.depth = 0
	e.sync = map[*value]*syncState{}
	e.syncMaps = map[*value]*mapV{}
	e.vclock = new(big.Int)
	e.nowLast = nil
	e.atoms = nil
	e.timers = map[*value]*chanV{}
	e.afterFuncs = nil
	e.deadlockIsViolation = false
	e.shardUsed = false
	e.sched = newSched(e)
	// restore globals from pristine snapshot
	memo := map[*value]*value{}
	for g, v := range e.pristine {
		*e.globals[g] = deepCopy(v, memo)
	}
}

func (e *Engine) snapshotGlobals() {
	memo := map[*value]*value{}
	for g, p := range e.globals {
		if _, ok := e.pristine[g]; !ok {
			e.pristine[g] = deepCopy(*p, memo)
		}
	}
}

func deepCopy(v value, memo map[*value]*value) value {
	switch v := v.(type) {
	case *value:
		if v == nil {
			return v
		}
		if n, ok := memo[v]; ok {
			return n
		}
		if _, shared := sharedPtrs.Load(v); shared {
			return v
		}
		n := new(value)
		memo[v] = n
		*n = deepCopy(*v, memo)
		return n
	case structure:
		r := make(structure, len(v))
		for i := range v {
			r[i] = deepCopy(v[i], memo)
		}
		return r
	case array:
		r := make(array, len(v))
		for i := range v {
			r[i] = deepCopy(v[i], memo)
		}
		return r
	case []value:
		if v == nil {
			return v
		}
		r := make([]value, len(v), cap(v))
		for i := range v {
			r[i] = deepCopy(v[i], memo)
		}
		return r
	case iface:
		return iface{v.t, deepCopy(v.v, memo)}
	case *mapV:
		if v == nil {
			return v
		}
		r := &mapV{kt: v.kt}
		for i := range v.keys {
			r.keys = append(r.keys, deepCopy(v.keys[i], memo))
			r.vals = append(r.vals, deepCopy(v.vals[i], memo))
		}
		return r
	case *closure:
		if v == nil {
			return v
		}
		r := &closure{Fn: v.Fn, Native: v.Native}
		for _, x := range v.Env {
			r.Env = append(r.Env, deepCopy(x, memo))
		}
		return r
	}
	return v
}

// RunHarness explores all paths of fn.
func (e *Engine) RunHarness(fn *ssa.Function) {
	e.Harness = fn.Name()
	e.ctx = &Ctx{OnDecl: e.Solver.Declare}
	e.loops = map[*ssa.BasicBlock]int{}
	e.ensureInit(fn.Pkg)
	e.snapshotGlobals()
	e.pending = [][]int{{}}
	for len(e.pending) > 0 {
		dec := e.pending[len(e.pending)-1]
		e.pending = e.pending[:len(e.pending)-1]
		e.Paths++
		if e.Paths > e.MaxPath {
			e.inconclusive("max paths")
			return
		}
		if !e.Deadline.IsZero() && time.Now().After(e.Deadline) {
			e.inconclusive(fmt.Sprintf("deadline with %d prefixes pending", len(e.pending)+1))
			return
		}
		e.resetPath(dec)
		e.snapshotGlobals() // globals initialised lazily during earlier paths
		e.runPath(fn)
	}
}

func (e *Engine) runPath(fn *ssa.Function) {
	defer e.sched.killAll()
	defer func() {
		r := recover()
		switch r := r.(type) {
		case nil:
			e.Completed++
			for _, c := range e.pathCov {
				e.Covers[c]++
			}
			e.maybeWitness()
		case pathAbort:
			switch {
			case strings.HasPrefix(r.why, "deadlock"):
				e.reportViolation("deadlock", "deadlock", r.why, nil)
			case strings.HasPrefix(r.why, "unwind"), strings.HasPrefix(r.why, "blocked"), strings.HasPrefix(r.why, "concInt"), r.why == "deadline":
				e.inconclusive(r.why)
			default:
				e.Dropped++
			}
		case targetPanic:
			e.reportViolation("panic", "panic", fmt.Sprint(panicText(r.v)), nil)
		case unsupported:
			e.inconclusive(r.Error())
		default:
			panic(r)
		}
	}()
	e.callSSA(nil, fn, nil, nil)
	e.sched.drain()
}

func panicText(v value) string {
	switch v := v.(type) {
	case string:
		return v
	case iface:
		if s, ok := v.v.(string); ok {
			return s
		}
		if p, ok := v.v.(*value); ok && p != nil {
			if st, ok := (*p).(structure); ok && len(st) > 0 {
				if s, ok := st[0].(string); ok {
					return s
				}
			}
		}
		return fmt.Sprintf("%v", v.t)
	}
	return fmt.Sprintf("%v", v)
}

func (e *Engine) decString() string {
	var sb strings.Builder
	for _, d := range e.dec {
		fmt.Fprintf(&sb, "%d", d)
	}
	return sb.String()
}

// modelWants lists the terms whose values are needed to concretise the draws and events of the path.
func (e *Engine) modelWants() []string {
	var w []string
	seen := map[string]bool{}
	add := func(s string) {
		if !seen[s] {
			seen[s] = true
			w = append(w, s)
		}
	}
	for _, d := range e.draws {
		switch d.Kind {
		case "i", "b":
			add(d.Name)
		case "a":
			if !d.Len.K {
				add(d.Len.SMT())
			}
			for _, k := range d.Base.reads {
				add(k.idx)
				add(k.sel)
			}
		}
	}
	for _, ev := range e.events {
		if ev.Kind == "O" && !ev.Val.K {
			add(ev.Val.SMT())
		}
	}
	return w
}

func evalConst(t *Term, m map[string]string) string {
	if t.K {
		if t.Sort == SBool {
			if t.B {
				return "true"
			}
			return "false"
		}
		return t.C.String()
	}
	return m[t.SMT()]
}

func (e *Engine) buildCase(model map[string]string, failID, kind string) *Case {
	c := &Case{Harness: e.Harness, ExpectFail: failID, ExpectKind: kind, Decisions: e.decString()}
	for _, d := range e.draws {
		switch d.Kind {
		case "i", "b":
			c.Draws = append(c.Draws, CDraw{K: d.Kind, V: model[d.Name]})
		case "a":
			n := 0
			fmt.Sscan(evalConst(d.Len, model), &n)
			cd := CDraw{K: "a", N: n, D: map[string]int64{}}
			for _, k := range d.Base.reads {
				var idx, val int64
				if _, err := fmt.Sscan(model[k.idx], &idx); err != nil {
					continue
				}
				fmt.Sscan(model[k.sel], &val)
				if idx >= 0 && idx < int64(n) {
					cd.D[fmt.Sprint(idx)] = val
				}
			}
			c.Draws = append(c.Draws, cd)
		}
	}
	for _, ev := range e.events {
		switch ev.Kind {
		case "C":
			c.Events = append(c.Events, "C:"+ev.ID)
		case "A":
			c.Events = append(c.Events, "A:"+ev.ID)
		case "O":
			c.Events = append(c.Events, "O:"+ev.ID+"="+evalConst(ev.Val, model))
		}
	}
	return c
}

func (e *Engine) reportViolation(id, kind, detail string, extra *Term) {
	key := kind + "|" + id
	var as []*Term
	if extra != nil {
		as = e.asserts(extra)
	} else {
		as = e.asserts()
	}
	res, model := e.Solver.Check(as, e.modelWants())
	if res != "sat" {
		if res != "unsat" {
			e.inconclusive("violation model: " + res)
		}
		return
	}
	c := e.buildCase(model, id, kind)
	// keep at most 3 counterexamples per (kind,id), but count all
	cnt := 0
	for _, v := range e.Violations {
		if v.Kind+"|"+v.ID == key {
			cnt++
		}
	}
	e.seenViol[key] = true
	if cnt >= 3 {
		return
	}
	e.Violations = append(e.Violations, Violation{Harness: e.Harness, ID: id, Kind: kind, Detail: detail, Case: c})
}

func (e *Engine) maybeWitness() {
	if len(e.Witnesses) >= e.WitnessMax {
		return
	}
	if e.WitnessEvery > 1 && e.Completed%e.WitnessEvery != 0 {
		return
	}
	res, model := e.Solver.Check(e.asserts(), append(e.modelWants(), "true"))
	if res != "sat" {
		return
	}
	c := e.buildCase(model, "", "")
	e.Witnesses = append(e.Witnesses, c)
	if len(e.Samples) < 3 {
		e.Samples = append(e.Samples, map[string]interface{}{"harness": e.Harness, "decisions": c.Decisions, "events": c.Events, "witness_draws": c.Draws})
	}
}

// TopFuncs returns the functions executed with their instruction counts.
func (e *Engine) TopFuncs() map[string]int {
	type kv struct {
		k string
		v int
	}
	var l []kv
	for k, v := range e.FuncInstrs {
		l = append(l, kv{k, v})
	}
	sort.Slice(l, func(i, j int) bool { return l[i].v > l[j].v })
	r := map[string]int{}
	for i, x := range l {
		if i >= 60 {
			break
		}
		r[x.k] = x.v
	}
	return r
}
