package sx

import (
	"fmt"
	"math/big"
)

type Sort int

const (
	SInt Sort = iota
	SBool
)

// Term is a symbolic or constant scalar.
type Term struct {
	Sort Sort
	C    *big.Int // constant int (Sort==SInt && IsConst)
	B    bool     // constant bool
	K    bool     // is constant
	S    string   // SMT text when !K
	Lo   *big.Int // interval (ints), may be nil = unknown
	Hi   *big.Int
	Align int  // known number of trailing zero bits (from << by a constant)
	QuoA *Term // if set: this term is trunc(QuoA / QuoB), materialised lazily
	QuoB *Term
	mat  func() // materialise the defining constraint
}

func (t *Term) IsConst() bool { return t.K }

func (t *Term) SMT() string {
	if t.mat != nil {
		t.mat()
	}
	if t.K {
		if t.Sort == SBool {
			if t.B {
				return "true"
			}
			return "false"
		}
		if t.C.Sign() < 0 {
			return "(- " + new(big.Int).Neg(t.C).String() + ")"
		}
		return t.C.String()
	}
	return t.S
}

func (t *Term) String() string { return t.SMT() }

func IntC(n int64) *Term   { b := big.NewInt(n); return &Term{Sort: SInt, K: true, C: b, Lo: b, Hi: b} }
func BigC(b *big.Int) *Term { return &Term{Sort: SInt, K: true, C: b, Lo: b, Hi: b} }
func BoolC(b bool) *Term   { return &Term{Sort: SBool, K: true, B: b} }

var True, False = BoolC(true), BoolC(false)

func symInt(s string, lo, hi *big.Int) *Term { return &Term{Sort: SInt, S: s, Lo: lo, Hi: hi} }
func symBool(s string) *Term                 { return &Term{Sort: SBool, S: s} }

// integer type ranges
type IntType struct {
	Bits   int
	Signed bool
}

func (it IntType) Range() (lo, hi *big.Int) {
	one := big.NewInt(1)
	if it.Signed {
		hi = new(big.Int).Lsh(one, uint(it.Bits-1))
		lo = new(big.Int).Neg(hi)
		hi = new(big.Int).Sub(hi, one)
		return
	}
	lo = big.NewInt(0)
	hi = new(big.Int).Sub(new(big.Int).Lsh(one, uint(it.Bits)), one)
	return
}

func (it IntType) Mod() *big.Int { return new(big.Int).Lsh(big.NewInt(1), uint(it.Bits)) }

func wrapConst(it IntType, v *big.Int) *big.Int {
	m := it.Mod()
	r := new(big.Int).Mod(v, m) // 0..m-1
	if it.Signed {
		_, hi := it.Range()
		if r.Cmp(hi) > 0 {
			r.Sub(r, m)
		}
	}
	return r
}

// Ctx collects definitional constraints created while building terms on a path.
type Ctx struct {
	Fresh  int
	Decls  []string // declare-const lines (global to solver session)
	Side   []*Term  // definitional constraints (must be asserted with PC)
	OnDecl func(string)
}

func (c *Ctx) freshInt(prefix string) string {
	c.Fresh++
	n := fmt.Sprintf("%s_%d", prefix, c.Fresh)
	d := fmt.Sprintf("(declare-const %s Int)", n)
	c.Decls = append(c.Decls, d)
	if c.OnDecl != nil {
		c.OnDecl(d)
	}
	return n
}

func (c *Ctx) FreshBoolVar(prefix string) *Term {
	c.Fresh++
	n := fmt.Sprintf("%s_%d", prefix, c.Fresh)
	d := fmt.Sprintf("(declare-const %s Bool)", n)
	c.Decls = append(c.Decls, d)
	if c.OnDecl != nil {
		c.OnDecl(d)
	}
	return symBool(n)
}

// FreshIntVar declares a symbolic int constrained to the type range.
func (c *Ctx) FreshIntVar(prefix string, it IntType) *Term {
	n := c.freshInt(prefix)
	lo, hi := it.Range()
	t := symInt(n, lo, hi)
	c.Side = append(c.Side, rawRange(n, lo, hi))
	return t
}

func within(t *Term, lo, hi *big.Int) bool {
	return t.Lo != nil && t.Hi != nil && t.Lo.Cmp(lo) >= 0 && t.Hi.Cmp(hi) <= 0
}

// Wrap reduces a mathematically exact term into the range of it (Go wraparound).
func (c *Ctx) Wrap(it IntType, full *Term) *Term {
	lo, hi := it.Range()
	if full.K {
		return BigC(wrapConst(it, full.C))
	}
	if within(full, lo, hi) {
		return full
	}
	k := c.freshInt("k")
	r := c.freshInt("w")
	res := symInt(r, lo, hi)
	c.Side = append(c.Side,
		&Term{Sort: SBool, S: fmt.Sprintf("(= %s (- %s (* %s %s)))", r, full.SMT(), it.Mod().String(), k)},
		rawRange(r, lo, hi))
	return res
}

func addI(a, b *big.Int) *big.Int {
	if a == nil || b == nil {
		return nil
	}
	return new(big.Int).Add(a, b)
}
func subI(a, b *big.Int) *big.Int {
	if a == nil || b == nil {
		return nil
	}
	return new(big.Int).Sub(a, b)
}

func AddX(a, b *Term) *Term { // exact
	if a.K && b.K {
		return BigC(new(big.Int).Add(a.C, b.C))
	}
	if a.K && a.C.Sign() == 0 {
		return b
	}
	if b.K && b.C.Sign() == 0 {
		return a
	}
	return &Term{Sort: SInt, S: fmt.Sprintf("(+ %s %s)", a.SMT(), b.SMT()), Lo: addI(a.Lo, b.Lo), Hi: addI(a.Hi, b.Hi)}
}
func SubX(a, b *Term) *Term {
	if a.K && b.K {
		return BigC(new(big.Int).Sub(a.C, b.C))
	}
	if b.K && b.C.Sign() == 0 {
		return a
	}
	return &Term{Sort: SInt, S: fmt.Sprintf("(- %s %s)", a.SMT(), b.SMT()), Lo: subI(a.Lo, b.Hi), Hi: subI(a.Hi, b.Lo)}
}
func MulX(a, b *Term) *Term {
	if a.K && b.K {
		return BigC(new(big.Int).Mul(a.C, b.C))
	}
	t := &Term{Sort: SInt, S: fmt.Sprintf("(* %s %s)", a.SMT(), b.SMT())}
	if a.Lo != nil && a.Hi != nil && b.Lo != nil && b.Hi != nil {
		cs := []*big.Int{new(big.Int).Mul(a.Lo, b.Lo), new(big.Int).Mul(a.Lo, b.Hi), new(big.Int).Mul(a.Hi, b.Lo), new(big.Int).Mul(a.Hi, b.Hi)}
		lo, hi := cs[0], cs[0]
		for _, x := range cs[1:] {
			if x.Cmp(lo) < 0 {
				lo = x
			}
			if x.Cmp(hi) > 0 {
				hi = x
			}
		}
		t.Lo, t.Hi = lo, hi
	}
	return t
}

// QuoRem implements Go truncated division on exact ints; b must be known non-zero on this path.
func (c *Ctx) QuoRem(a, b *Term) (q, r *Term) {
	if a.K && b.K {
		qq, rr := new(big.Int).QuoRem(a.C, b.C, new(big.Int))
		return BigC(qq), BigC(rr)
	}
	qn, rn := c.freshInt("q"), c.freshInt("r")
	q, r = symInt(qn, nil, nil), symInt(rn, nil, nil)
	if a.Lo != nil && a.Hi != nil {
		m := new(big.Int).Abs(a.Lo)
		if h := new(big.Int).Abs(a.Hi); h.Cmp(m) > 0 {
			m = h
		}
		q.Lo, q.Hi = new(big.Int).Neg(m), m // |a/b| <= |a|
		r.Lo, r.Hi = new(big.Int).Neg(m), m
	}
	if b.K && b.C.Sign() > 0 && a.Lo != nil && a.Lo.Sign() >= 0 {
		q.Lo, q.Hi = big.NewInt(0), nil
		if a.Hi != nil {
			q.Hi = new(big.Int).Quo(a.Hi, b.C)
		}
		r.Lo, r.Hi = big.NewInt(0), new(big.Int).Sub(b.C, big.NewInt(1))
	}
	done := false
	mat := func() {
		if done {
			return
		}
		done = true
		c.Side = append(c.Side, &Term{Sort: SBool, S: fmt.Sprintf(
			"(and (= %s (+ (* %s %s) %s)) (< (abs %s) (abs %s)) (or (= %s 0) (= (> %s 0) (> %s 0))))",
			a.SMT(), qn, b.SMT(), rn, rn, b.SMT(), rn, rn, a.SMT())})
	}
	if b.K {
		mat() // linear anyway
	} else {
		q.QuoA, q.QuoB, q.mat = a, b, mat
		r.mat = mat
	}
	return
}

func cmp(op string, a, b *Term, f func(int) bool) *Term {
	if a.K && b.K {
		return BoolC(f(a.C.Cmp(b.C)))
	}
	// interval shortcuts
	if a.Hi != nil && b.Lo != nil && a.Lo != nil && b.Hi != nil {
		switch op {
		case "<":
			if a.Hi.Cmp(b.Lo) < 0 {
				return True
			}
			if a.Lo.Cmp(b.Hi) >= 0 {
				return False
			}
		case "<=":
			if a.Hi.Cmp(b.Lo) <= 0 {
				return True
			}
			if a.Lo.Cmp(b.Hi) > 0 {
				return False
			}
		}
	}
	return &Term{Sort: SBool, S: fmt.Sprintf("(%s %s %s)", op, a.SMT(), b.SMT())}
}
func Lt(a, b *Term) *Term { return cmp("<", a, b, func(c int) bool { return c < 0 }) }
func Le(a, b *Term) *Term { return cmp("<=", a, b, func(c int) bool { return c <= 0 }) }
func Gt(a, b *Term) *Term { return Lt(b, a) }
func Ge(a, b *Term) *Term { return Le(b, a) }
func EqI(a, b *Term) *Term {
	if a.K && b.K {
		return BoolC(a.C.Cmp(b.C) == 0)
	}
	if b.QuoA != nil && a.K {
		a, b = b, a
	}
	if a.QuoA != nil && b.K && !a.isMat() {
		// trunc(A/B) == t  <=>  let r = A - t*B in |r| < |B| and (r = 0 or sign r = sign A)   (linear for constant t)
		r := fmt.Sprintf("(- %s (* %s %s))", a.QuoA.SMT(), b.SMT(), a.QuoB.SMT())
		return &Term{Sort: SBool, S: fmt.Sprintf("(let ((rr %s)) (and (< (abs rr) (abs %s)) (or (= rr 0) (= (> rr 0) (> %s 0)))))", r, a.QuoB.SMT(), a.QuoA.SMT())}
	}
	if a == b {
		return True
	}
	return &Term{Sort: SBool, S: fmt.Sprintf("(= %s %s)", a.SMT(), b.SMT())}
}
func EqB(a, b *Term) *Term {
	if a.K && b.K {
		return BoolC(a.B == b.B)
	}
	if a.K {
		if a.B {
			return b
		}
		return Not(b)
	}
	if b.K {
		return EqB(b, a)
	}
	return &Term{Sort: SBool, S: fmt.Sprintf("(= %s %s)", a.SMT(), b.SMT())}
}
func Not(a *Term) *Term {
	if a.K {
		return BoolC(!a.B)
	}
	return &Term{Sort: SBool, S: "(not " + a.S + ")"}
}
func And(a, b *Term) *Term {
	if a.K {
		if a.B {
			return b
		}
		return False
	}
	if b.K {
		return And(b, a)
	}
	return &Term{Sort: SBool, S: fmt.Sprintf("(and %s %s)", a.S, b.S)}
}
func Or(a, b *Term) *Term {
	if a.K {
		if a.B {
			return True
		}
		return b
	}
	if b.K {
		return Or(b, a)
	}
	return &Term{Sort: SBool, S: fmt.Sprintf("(or %s %s)", a.S, b.S)}
}
func Ite(c, a, b *Term) *Term {
	if c.K {
		if c.B {
			return a
		}
		return b
	}
	if a.Sort == SBool {
		return &Term{Sort: SBool, S: fmt.Sprintf("(ite %s %s %s)", c.S, a.SMT(), b.SMT())}
	}
	t := &Term{Sort: SInt, S: fmt.Sprintf("(ite %s %s %s)", c.S, a.SMT(), b.SMT())}
	if a.Lo != nil && b.Lo != nil {
		t.Lo = a.Lo
		if b.Lo.Cmp(t.Lo) < 0 {
			t.Lo = b.Lo
		}
	}
	if a.Hi != nil && b.Hi != nil {
		t.Hi = a.Hi
		if b.Hi.Cmp(t.Hi) > 0 {
			t.Hi = b.Hi
		}
	}
	return t
}

func rawRange(name string, lo, hi *big.Int) *Term {
	return &Term{Sort: SBool, S: fmt.Sprintf("(and (<= %s %s) (<= %s %s))", BigC(lo).SMT(), name, name, BigC(hi).SMT())}
}

// Mul multiplies exactly; a symbolic*symbolic product where one operand is known to be a small
// non-negative value is linearised by binary decomposition (shift-add with ite), keeping queries in LIA.
func (c *Ctx) Mul(a, b *Term) *Term {
	if a.K || b.K {
		return MulX(a, b)
	}
	small := func(t *Term) bool {
		return t.Lo != nil && t.Hi != nil && t.Lo.Sign() >= 0 && t.Hi.BitLen() <= 12
	}
	if !small(a) && small(b) {
		a, b = b, a
	}
	if !small(a) {
		return MulX(a, b)
	}
	nb := a.Hi.BitLen()
	sum := "0"
	dec := "0"
	for i := 0; i < nb; i++ {
		beta := c.freshInt("bit")
		c.Side = append(c.Side, &Term{Sort: SBool, S: fmt.Sprintf("(and (<= 0 %s) (<= %s 1))", beta, beta)})
		p := new(big.Int).Lsh(big.NewInt(1), uint(i)).String()
		dec = fmt.Sprintf("(+ %s (* %s %s))", dec, p, beta)
		sum = fmt.Sprintf("(+ %s (ite (= %s 1) (* %s %s) 0))", sum, beta, p, b.SMT())
	}
	c.Side = append(c.Side, &Term{Sort: SBool, S: fmt.Sprintf("(= %s %s)", a.SMT(), dec)})
	r := c.freshInt("m")
	c.Side = append(c.Side, &Term{Sort: SBool, S: fmt.Sprintf("(= %s %s)", r, sum)})
	t := MulX(a, b)
	return &Term{Sort: SInt, S: r, Lo: t.Lo, Hi: t.Hi}
}

func (t *Term) isMat() bool { return false }
