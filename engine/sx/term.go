package sx

import (
	"fmt"
	"math/big"
)

type Sort int

const (
	SInt Sort = iota
	SBool
)

// Term is a symbolic or constant scalar.
type Term struct {
	Sort  Sort
	C     *big.Int // constant int (Sort==SInt && IsConst)
	B     bool     // constant bool
	K     bool     // is constant
	S     string   // SMT text when !K
	Lo    *big.Int // interval (ints), may be nil = unknown
	Hi    *big.Int
	Align int   // known number of trailing zero bits (from << by a constant)
	QuoA  *Term // if set: this term is trunc(QuoA / QuoB), materialised lazily
	QuoB  *Term
	mat   func()   // materialise the defining constraint
	Lin   *linForm // exact linear form over atoms (nil: the term is its own atom)
}

// linForm is c0 + sum coef[i]*atom[i]; it lets division / masking by powers of two be resolved
// structurally (no fresh variables) when the dividend is a packed sum of small fields.
type linForm struct {
	c0   *big.Int
	coef []*big.Int
	atom []*Term
}

const linMax = 24

func linOf(t *Term) *linForm {
	if t.K {
		return &linForm{c0: t.C}
	}
	if t.Lin != nil {
		return t.Lin
	}
	return &linForm{c0: new(big.Int), coef: []*big.Int{big.NewInt(1)}, atom: []*Term{t}}
}

func linAdd(a, b *linForm, sign int64) *linForm {
	r := &linForm{c0: new(big.Int).Add(a.c0, new(big.Int).Mul(b.c0, big.NewInt(sign)))}
	r.coef = append(r.coef, a.coef...)
	r.atom = append(r.atom, a.atom...)
	for i, at := range b.atom {
		c := new(big.Int).Mul(b.coef[i], big.NewInt(sign))
		found := false
		for j := range r.atom {
			if r.atom[j] == at || r.atom[j].S == at.S {
				r.coef[j] = new(big.Int).Add(r.coef[j], c)
				found = true
				break
			}
		}
		if !found {
			r.coef = append(r.coef, c)
			r.atom = append(r.atom, at)
		}
	}
	if len(r.atom) > linMax {
		return nil
	}
	return r
}

func linScale(a *linForm, k *big.Int) *linForm {
	r := &linForm{c0: new(big.Int).Mul(a.c0, k)}
	for i := range a.atom {
		r.coef = append(r.coef, new(big.Int).Mul(a.coef[i], k))
		r.atom = append(r.atom, a.atom[i])
	}
	return r
}

// term rebuilds a Term from the linear form (used for structural quotients / remainders).
func (l *linForm) term() *Term {
	t := BigC(l.c0)
	for i := range l.atom {
		if l.coef[i].Sign() == 0 {
			continue
		}
		if l.coef[i].Cmp(big.NewInt(1)) == 0 {
			t = AddX(t, l.atom[i])
		} else {
			t = AddX(t, MulX(BigC(l.coef[i]), l.atom[i]))
		}
	}
	return t
}

// splitPow2 splits a non-negative linear term by a positive constant d into (q, r) with t = q*d + r and
// 0 <= r < d, when that can be read off the structure: every coefficient is either a multiple of d or
// belongs to the low part whose range provably fits below d.
func splitByConst(t *Term, d *big.Int) (q, r *Term, ok bool) {
	if t.Lin == nil || t.Lo == nil || t.Lo.Sign() < 0 || d.Sign() <= 0 {
		return nil, nil, false
	}
	l := t.Lin
	hiPart := &linForm{c0: new(big.Int)}
	loPart := &linForm{c0: new(big.Int)}
	qc, rc := new(big.Int).DivMod(l.c0, d, new(big.Int)) // euclidean: 0 <= rc < d
	hiPart.c0 = qc
	loPart.c0 = rc
	rlo, rhi := new(big.Int).Set(rc), new(big.Int).Set(rc)
	for i, a := range l.atom {
		c := l.coef[i]
		if c.Sign() == 0 {
			continue
		}
		if new(big.Int).Mod(c, d).Sign() == 0 {
			hiPart.coef = append(hiPart.coef, new(big.Int).Div(c, d))
			hiPart.atom = append(hiPart.atom, a)
			continue
		}
		if a.Lo == nil || a.Hi == nil {
			return nil, nil, false
		}
		x, y := new(big.Int).Mul(c, a.Lo), new(big.Int).Mul(c, a.Hi)
		if x.Cmp(y) > 0 {
			x, y = y, x
		}
		rlo.Add(rlo, x)
		rhi.Add(rhi, y)
		loPart.coef = append(loPart.coef, c)
		loPart.atom = append(loPart.atom, a)
	}
	if rlo.Sign() < 0 || rhi.Cmp(d) >= 0 {
		return nil, nil, false
	}
	return hiPart.term(), loPart.term(), true
}

func (t *Term) IsConst() bool { return t.K }

func (t *Term) SMT() string {
	if t.mat != nil {
		t.mat()
	}
	if t.K {
		if t.Sort == SBool {
			if t.B {
				return "true"
			}
			return "false"
		}
		if t.C.Sign() < 0 {
			return "(- " + new(big.Int).Neg(t.C).String() + ")"
		}
		return t.C.String()
	}
	return t.S
}

func (t *Term) String() string { return t.SMT() }

func IntC(n int64) *Term    { b := big.NewInt(n); return &Term{Sort: SInt, K: true, C: b, Lo: b, Hi: b} }
func BigC(b *big.Int) *Term { return &Term{Sort: SInt, K: true, C: b, Lo: b, Hi: b} }
func BoolC(b bool) *Term    { return &Term{Sort: SBool, K: true, B: b} }

var True, False = BoolC(true), BoolC(false)

func symInt(s string, lo, hi *big.Int) *Term { return &Term{Sort: SInt, S: s, Lo: lo, Hi: hi} }
func symBool(s string) *Term                 { return &Term{Sort: SBool, S: s} }

// integer type ranges
type IntType struct {
	Bits   int
	Signed bool
}

func (it IntType) Range() (lo, hi *big.Int) {
	one := big.NewInt(1)
	if it.Signed {
		hi = new(big.Int).Lsh(one, uint(it.Bits-1))
		lo = new(big.Int).Neg(hi)
		hi = new(big.Int).Sub(hi, one)
		return
	}
	lo = big.NewInt(0)
	hi = new(big.Int).Sub(new(big.Int).Lsh(one, uint(it.Bits)), one)
	return
}

func (it IntType) Mod() *big.Int { return new(big.Int).Lsh(big.NewInt(1), uint(it.Bits)) }

func wrapConst(it IntType, v *big.Int) *big.Int {
	m := it.Mod()
	r := new(big.Int).Mod(v, m) // 0..m-1
	if it.Signed {
		_, hi := it.Range()
		if r.Cmp(hi) > 0 {
			r.Sub(r, m)
		}
	}
	return r
}

// Ctx collects definitional constraints created while building terms on a path.
type Ctx struct {
	Fresh  int
	Decls  []string // declare-const lines (global to solver session)
	Side   []*Term  // definitional constraints (must be asserted with PC)
	OnDecl func(string)

	quoMemo map[string][2]*Term
}

func (c *Ctx) freshInt(prefix string) string {
	c.Fresh++
	n := fmt.Sprintf("%s_%d", prefix, c.Fresh)
	d := fmt.Sprintf("(declare-const %s Int)", n)
	c.Decls = append(c.Decls, d)
	if c.OnDecl != nil {
		c.OnDecl(d)
	}
	return n
}

func (c *Ctx) FreshBoolVar(prefix string) *Term {
	c.Fresh++
	n := fmt.Sprintf("%s_%d", prefix, c.Fresh)
	d := fmt.Sprintf("(declare-const %s Bool)", n)
	c.Decls = append(c.Decls, d)
	if c.OnDecl != nil {
		c.OnDecl(d)
	}
	return symBool(n)
}

// FreshIntVar declares a symbolic int constrained to the type range.
func (c *Ctx) FreshIntVar(prefix string, it IntType) *Term {
	n := c.freshInt(prefix)
	lo, hi := it.Range()
	t := symInt(n, lo, hi)
	c.Side = append(c.Side, rawRange(n, lo, hi))
	return t
}

func within(t *Term, lo, hi *big.Int) bool {
	return t.Lo != nil && t.Hi != nil && t.Lo.Cmp(lo) >= 0 && t.Hi.Cmp(hi) <= 0
}

// Wrap reduces a mathematically exact term into the range of it (Go wraparound).
func (c *Ctx) Wrap(it IntType, full *Term) *Term {
	lo, hi := it.Range()
	if full.K {
		return BigC(wrapConst(it, full.C))
	}
	if within(full, lo, hi) {
		return full
	}
	k := c.freshInt("k")
	r := c.freshInt("w")
	res := symInt(r, lo, hi)
	c.Side = append(c.Side,
		&Term{Sort: SBool, S: fmt.Sprintf("(= %s (- %s (* %s %s)))", r, full.SMT(), it.Mod().String(), k)},
		rawRange(r, lo, hi))
	return res
}

func addI(a, b *big.Int) *big.Int {
	if a == nil || b == nil {
		return nil
	}
	return new(big.Int).Add(a, b)
}
func subI(a, b *big.Int) *big.Int {
	if a == nil || b == nil {
		return nil
	}
	return new(big.Int).Sub(a, b)
}

func AddX(a, b *Term) *Term { // exact
	if a.K && b.K {
		return BigC(new(big.Int).Add(a.C, b.C))
	}
	if a.K && a.C.Sign() == 0 {
		return b
	}
	if b.K && b.C.Sign() == 0 {
		return a
	}
	return &Term{Sort: SInt, S: fmt.Sprintf("(+ %s %s)", a.SMT(), b.SMT()), Lo: addI(a.Lo, b.Lo), Hi: addI(a.Hi, b.Hi), Lin: linAdd(linOf(a), linOf(b), 1)}
}
func SubX(a, b *Term) *Term {
	if a.K && b.K {
		return BigC(new(big.Int).Sub(a.C, b.C))
	}
	if b.K && b.C.Sign() == 0 {
		return a
	}
	return &Term{Sort: SInt, S: fmt.Sprintf("(- %s %s)", a.SMT(), b.SMT()), Lo: subI(a.Lo, b.Hi), Hi: subI(a.Hi, b.Lo), Lin: linAdd(linOf(a), linOf(b), -1)}
}
func MulX(a, b *Term) *Term {
	if a.K && b.K {
		return BigC(new(big.Int).Mul(a.C, b.C))
	}
	t := &Term{Sort: SInt, S: fmt.Sprintf("(* %s %s)", a.SMT(), b.SMT())}
	if a.K {
		t.Lin = linScale(linOf(b), a.C)
	} else if b.K {
		t.Lin = linScale(linOf(a), b.C)
	}
	if a.Lo != nil && a.Hi != nil && b.Lo != nil && b.Hi != nil {
		cs := []*big.Int{new(big.Int).Mul(a.Lo, b.Lo), new(big.Int).Mul(a.Lo, b.Hi), new(big.Int).Mul(a.Hi, b.Lo), new(big.Int).Mul(a.Hi, b.Hi)}
		lo, hi := cs[0], cs[0]
		for _, x := range cs[1:] {
			if x.Cmp(lo) < 0 {
				lo = x
			}
			if x.Cmp(hi) > 0 {
				hi = x
			}
		}
		t.Lo, t.Hi = lo, hi
	}
	return t
}

// QuoRem implements Go truncated division on exact ints; b must be known non-zero on this path.
func (c *Ctx) QuoRem(a, b *Term) (q, r *Term) {
	if a.K && b.K {
		qq, rr := new(big.Int).QuoRem(a.C, b.C, new(big.Int))
		return BigC(qq), BigC(rr)
	}
	if b.K {
		if q, r, ok := splitByConst(a, b.C); ok {
			return q, r
		}
		key := a.SMT() + "/" + b.C.String()
		if c.quoMemo == nil {
			c.quoMemo = map[string][2]*Term{}
		}
		if m, ok := c.quoMemo[key]; ok {
			return m[0], m[1]
		}
		defer func() { c.quoMemo[key] = [2]*Term{q, r} }()
	}
	qn, rn := c.freshInt("q"), c.freshInt("r")
	q, r = symInt(qn, nil, nil), symInt(rn, nil, nil)
	if a.Lo != nil && a.Hi != nil {
		m := new(big.Int).Abs(a.Lo)
		if h := new(big.Int).Abs(a.Hi); h.Cmp(m) > 0 {
			m = h
		}
		q.Lo, q.Hi = new(big.Int).Neg(m), m // |a/b| <= |a|
		r.Lo, r.Hi = new(big.Int).Neg(m), m
	}
	if b.K && b.C.Sign() > 0 && a.Lo != nil && a.Lo.Sign() >= 0 {
		q.Lo, q.Hi = big.NewInt(0), nil
		if a.Hi != nil {
			q.Hi = new(big.Int).Quo(a.Hi, b.C)
		}
		r.Lo, r.Hi = big.NewInt(0), new(big.Int).Sub(b.C, big.NewInt(1))
	}
	done := false
	mat := func() {
		if done {
			return
		}
		done = true
		if b.K && b.C.Sign() > 0 && a.Lo != nil && a.Lo.Sign() >= 0 {
			c.Side = append(c.Side, &Term{Sort: SBool, S: fmt.Sprintf("(and (= %s (+ (* %s %s) %s)) (<= 0 %s) (< %s %s))",
				a.SMT(), qn, b.SMT(), rn, rn, rn, b.SMT())})
			return
		}
		c.Side = append(c.Side, &Term{Sort: SBool, S: fmt.Sprintf(
			"(and (= %s (+ (* %s %s) %s)) (< (abs %s) (abs %s)) (or (= %s 0) (= (> %s 0) (> %s 0))))",
			a.SMT(), qn, b.SMT(), rn, rn, b.SMT(), rn, rn, a.SMT())})
	}
	if b.K {
		mat() // linear anyway
	} else {
		q.QuoA, q.QuoB, q.mat = a, b, mat
		r.mat = mat
	}
	return
}

func cmp(op string, a, b *Term, f func(int) bool) *Term {
	if a.K && b.K {
		return BoolC(f(a.C.Cmp(b.C)))
	}
	// interval shortcuts
	if a.Hi != nil && b.Lo != nil && a.Lo != nil && b.Hi != nil {
		switch op {
		case "<":
			if a.Hi.Cmp(b.Lo) < 0 {
				return True
			}
			if a.Lo.Cmp(b.Hi) >= 0 {
				return False
			}
		case "<=":
			if a.Hi.Cmp(b.Lo) <= 0 {
				return True
			}
			if a.Lo.Cmp(b.Hi) > 0 {
				return False
			}
		}
	}
	return &Term{Sort: SBool, S: fmt.Sprintf("(%s %s %s)", op, a.SMT(), b.SMT())}
}
func Lt(a, b *Term) *Term { return cmp("<", a, b, func(c int) bool { return c < 0 }) }
func Le(a, b *Term) *Term { return cmp("<=", a, b, func(c int) bool { return c <= 0 }) }
func Gt(a, b *Term) *Term { return Lt(b, a) }
func Ge(a, b *Term) *Term { return Le(b, a) }
func EqI(a, b *Term) *Term {
	if a.K && b.K {
		return BoolC(a.C.Cmp(b.C) == 0)
	}
	if b.QuoA != nil && a.K {
		a, b = b, a
	}
	if a.QuoA != nil && b.K && !a.isMat() {
		// trunc(A/B) == t  <=>  let r = A - t*B in |r| < |B| and (r = 0 or sign r = sign A)   (linear for constant t)
		r := fmt.Sprintf("(- %s (* %s %s))", a.QuoA.SMT(), b.SMT(), a.QuoB.SMT())
		return &Term{Sort: SBool, S: fmt.Sprintf("(let ((rr %s)) (and (< (abs rr) (abs %s)) (or (= rr 0) (= (> rr 0) (> %s 0)))))", r, a.QuoB.SMT(), a.QuoA.SMT())}
	}
	if a == b {
		return True
	}
	return &Term{Sort: SBool, S: fmt.Sprintf("(= %s %s)", a.SMT(), b.SMT())}
}
func EqB(a, b *Term) *Term {
	if a.K && b.K {
		return BoolC(a.B == b.B)
	}
	if a.K {
		if a.B {
			return b
		}
		return Not(b)
	}
	if b.K {
		return EqB(b, a)
	}
	return &Term{Sort: SBool, S: fmt.Sprintf("(= %s %s)", a.SMT(), b.SMT())}
}
func Not(a *Term) *Term {
	if a.K {
		return BoolC(!a.B)
	}
	return &Term{Sort: SBool, S: "(not " + a.S + ")"}
}
func And(a, b *Term) *Term {
	if a.K {
		if a.B {
			return b
		}
		return False
	}
	if b.K {
		return And(b, a)
	}
	return &Term{Sort: SBool, S: fmt.Sprintf("(and %s %s)", a.S, b.S)}
}
func Or(a, b *Term) *Term {
	if a.K {
		if a.B {
			return True
		}
		return b
	}
	if b.K {
		return Or(b, a)
	}
	return &Term{Sort: SBool, S: fmt.Sprintf("(or %s %s)", a.S, b.S)}
}
func Ite(c, a, b *Term) *Term {
	if c.K {
		if c.B {
			return a
		}
		return b
	}
	if a.Sort == SBool {
		return &Term{Sort: SBool, S: fmt.Sprintf("(ite %s %s %s)", c.S, a.SMT(), b.SMT())}
	}
	t := &Term{Sort: SInt, S: fmt.Sprintf("(ite %s %s %s)", c.S, a.SMT(), b.SMT())}
	if a.Lo != nil && b.Lo != nil {
		t.Lo = a.Lo
		if b.Lo.Cmp(t.Lo) < 0 {
			t.Lo = b.Lo
		}
	}
	if a.Hi != nil && b.Hi != nil {
		t.Hi = a.Hi
		if b.Hi.Cmp(t.Hi) > 0 {
			t.Hi = b.Hi
		}
	}
	return t
}

func rawRange(name string, lo, hi *big.Int) *Term {
	return &Term{Sort: SBool, S: fmt.Sprintf("(and (<= %s %s) (<= %s %s))", BigC(lo).SMT(), name, name, BigC(hi).SMT())}
}

// Mul multiplies exactly; a symbolic*symbolic product where one operand is known to be a small
// non-negative value is linearised by binary decomposition (shift-add with ite), keeping queries in LIA.
func (c *Ctx) Mul(a, b *Term) *Term {
	if a.K || b.K {
		return MulX(a, b)
	}
	small := func(t *Term) bool {
		return t.Lo != nil && t.Hi != nil && t.Lo.Sign() >= 0 && t.Hi.BitLen() <= 12
	}
	if !small(a) && small(b) {
		a, b = b, a
	}
	if !small(a) {
		return MulX(a, b)
	}
	nb := a.Hi.BitLen()
	sum := "0"
	dec := "0"
	for i := 0; i < nb; i++ {
		beta := c.freshInt("bit")
		c.Side = append(c.Side, &Term{Sort: SBool, S: fmt.Sprintf("(and (<= 0 %s) (<= %s 1))", beta, beta)})
		p := new(big.Int).Lsh(big.NewInt(1), uint(i)).String()
		dec = fmt.Sprintf("(+ %s (* %s %s))", dec, p, beta)
		sum = fmt.Sprintf("(+ %s (ite (= %s 1) (* %s %s) 0))", sum, beta, p, b.SMT())
	}
	c.Side = append(c.Side, &Term{Sort: SBool, S: fmt.Sprintf("(= %s %s)", a.SMT(), dec)})
	r := c.freshInt("m")
	c.Side = append(c.Side, &Term{Sort: SBool, S: fmt.Sprintf("(= %s %s)", r, sum)})
	t := MulX(a, b)
	return &Term{Sort: SInt, S: r, Lo: t.Lo, Hi: t.Hi}
}

func (t *Term) isMat() bool { return false }
