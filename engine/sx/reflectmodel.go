package sx

import (
	"go/types"

	"golang.org/x/tools/go/ssa"
)

// A small model of reflect.Type, enough for code that uses types as identities (the event bus: TypeOf, Kind,
// Elem, String, == and map keys): one canonical engine-side object per distinct types.Type behind the
// reflect.Type interface. Anything else of package reflect stays unsupported.
type reflTypeV struct {
	t types.Type
}

func (e *Engine) reflTypeIface(t types.Type) iface {
	pk := e.Prog.ImportedPackage("reflect")
	if pk == nil {
		unsup("reflect not loaded")
	}
	key := types.TypeString(t, nil)
	if e.reflTypes == nil {
		e.reflTypes = map[string]*reflTypeV{}
	}
	rt := e.reflTypes[key]
	if rt == nil {
		rt = &reflTypeV{t: t}
		e.reflTypes[key] = rt
	}
	return iface{t: types.NewPointer(pk.Type("rtype").Type()), v: rt}
}

func reflKind(t types.Type) int64 {
	switch u := t.Underlying().(type) {
	case *types.Basic:
		switch u.Kind() {
		case types.Bool:
			return 1
		case types.Int:
			return 2
		case types.Int8:
			return 3
		case types.Int16:
			return 4
		case types.Int32:
			return 5
		case types.Int64:
			return 6
		case types.Uint:
			return 7
		case types.Uint8:
			return 8
		case types.Uint16:
			return 9
		case types.Uint32:
			return 10
		case types.Uint64:
			return 11
		case types.Uintptr:
			return 12
		case types.Float32:
			return 13
		case types.Float64:
			return 14
		case types.Complex64:
			return 15
		case types.Complex128:
			return 16
		case types.String:
			return 24
		case types.UnsafePointer:
			return 26
		}
	case *types.Array:
		return 17
	case *types.Chan:
		return 18
	case *types.Signature:
		return 19
	case *types.Interface:
		return 20
	case *types.Map:
		return 21
	case *types.Pointer:
		return 22
	case *types.Slice:
		return 23
	case *types.Struct:
		return 25
	}
	unsup("reflect kind of %s", t)
	return 0
}

func (r *reflTypeV) callMethod(e *Engine, name string, args []value) value {
	switch name {
	case "Kind":
		return IntC(reflKind(r.t))
	case "Elem":
		switch u := r.t.Underlying().(type) {
		case *types.Pointer:
			return e.reflTypeIface(u.Elem())
		case *types.Slice:
			return e.reflTypeIface(u.Elem())
		case *types.Array:
			return e.reflTypeIface(u.Elem())
		case *types.Chan:
			return e.reflTypeIface(u.Elem())
		case *types.Map:
			return e.reflTypeIface(u.Elem())
		}
		panic(targetPanic{"reflect: Elem of invalid type " + r.t.String()})
	case "String":
		// reflect qualifies by package name, not by import path
		return types.TypeString(r.t, func(p *types.Package) string { return p.Name() })
	case "Name":
		if n, ok := r.t.(*types.Named); ok {
			return n.Obj().Name()
		}
		if b, ok := r.t.(*types.Basic); ok {
			return b.Name()
		}
		return ""
	case "PkgPath":
		if n, ok := r.t.(*types.Named); ok && n.Obj().Pkg() != nil {
			return n.Obj().Pkg().Path()
		}
		return ""
	case "Comparable":
		return BoolC(types.Comparable(r.t))
	}
	unsup("reflect.Type.%s", name)
	return nil
}

func (e *Engine) reflectIntrinsic(name string, fn *ssa.Function) (handler, bool) {
	if name == "reflect.TypeOf" {
		return func(c *frame, f *ssa.Function, a []value) value {
			x := a[0].(iface)
			if x.t == nil {
				return iface{}
			}
			return e.reflTypeIface(x.t)
		}, true
	}
	return nil, false
}
