package sx

import (
	"fmt"
)

// functional arrays of small ints (bytes), expanded at read time
type arrNode struct {
	kind          int // 0 base (SMT array), 1 store, 2 copy, 3 constant fill
	name          string
	prev, src     *arrNode
	idx, val      *Term
	doff, soff, n *Term
	memo          map[string]*Term
	reads         []arrRead // base nodes only: select sites, for model extraction
}

type arrRead struct{ idx, sel string }

type symArr struct {
	node *arrNode
	elem IntType
}

// sliceS is a slice of ints with symbolic length/offset over a functional array.
type sliceS struct {
	arr           *symArr
	off, len, cap *Term
}

// strS is a string with symbolic content/length.
type strS struct {
	arr      *symArr
	off, len *Term
}

type elemPtr struct {
	arr *symArr
	idx *Term
}

func (e *Engine) freshArr(elem IntType) *symArr {
	e.ctx.Fresh++
	n := fmt.Sprintf("A_%d", e.ctx.Fresh)
	d := fmt.Sprintf("(declare-const %s (Array Int Int))", n)
	if e.ctx.OnDecl != nil {
		e.ctx.OnDecl(d)
	}
	return &symArr{node: &arrNode{kind: 0, name: n}, elem: elem}
}

func (e *Engine) constArr(elem IntType, v *Term) *symArr {
	return &symArr{node: &arrNode{kind: 3, val: v}, elem: elem}
}

func (e *Engine) sel(a *symArr, idx *Term) *Term { return e.selN(a.node, idx, a.elem) }

func (e *Engine) selN(n *arrNode, idx *Term, elem IntType) *Term {
	if n.memo == nil {
		n.memo = map[string]*Term{}
	}
	key := idx.SMT()
	if t, ok := n.memo[key]; ok {
		return t
	}
	var t *Term
	lo, hi := elem.Range()
	switch n.kind {
	case 0:
		s := fmt.Sprintf("(select %s %s)", n.name, idx.SMT())
		t = &Term{Sort: SInt, S: s, Lo: lo, Hi: hi}
		e.ctx.Side = append(e.ctx.Side, &Term{Sort: SBool, S: fmt.Sprintf("(and (<= %s %s) (<= %s %s))", BigC(lo).SMT(), s, s, BigC(hi).SMT())})
		n.reads = append(n.reads, arrRead{idx.SMT(), s})
	case 1:
		t = Ite(EqI(idx, n.idx), n.val, e.selN(n.prev, idx, elem))
	case 2:
		in := And(Le(n.doff, idx), Lt(idx, AddX(n.doff, n.n)))
		t = Ite(in, e.selN(n.src, AddX(SubX(idx, n.doff), n.soff), elem), e.selN(n.prev, idx, elem))
	case 3:
		t = n.val
	}
	n.memo[key] = t
	return t
}

func (a *symArr) store(idx, val *Term) { a.node = &arrNode{kind: 1, prev: a.node, idx: idx, val: val} }

// copyInto: a[doff .. doff+n) = src[soff .. soff+n)  (src is the node *before* the copy, so overlap is simultaneous)
func (a *symArr) copyInto(doff *Term, src *arrNode, soff, n *Term) {
	a.node = &arrNode{kind: 2, prev: a.node, src: src, doff: doff, soff: soff, n: n}
}

func minT(a, b *Term) *Term { return Ite(Lt(a, b), a, b) }

// toSym converts a concrete-shape slice of int terms into a functional-array slice.
func (e *Engine) toSym(x []value, elem IntType) sliceS {
	a := e.constArr(elem, IntC(0))
	for i, v := range x {
		a.store(IntC(int64(i)), v.(*Term))
	}
	return sliceS{a, IntC(0), IntC(int64(len(x))), IntC(int64(cap(x)))}
}

func (e *Engine) strToSym(s string) strS {
	a := e.constArr(IntType{8, false}, IntC(0))
	for i := 0; i < len(s); i++ {
		a.store(IntC(int64(i)), IntC(int64(s[i])))
	}
	return strS{a, IntC(0), IntC(int64(len(s)))}
}
