package sx

import (
	"fmt"
	"go/token"
	"go/types"
	"math/big"
	"strconv"
	"strings"
	"sync"

	"golang.org/x/tools/go/ssa"
)

type handler func(caller *frame, fn *ssa.Function, args []value) value

func retZero(fn *ssa.Function) value {
	res := fn.Signature.Results()
	switch res.Len() {
	case 0:
		return nil
	case 1:
		return zero(res.At(0).Type())
	}
	return zero(res)
}

func pkgPathOf(fn *ssa.Function) string {
	if fn.Pkg != nil {
		return fn.Pkg.Pkg.Path()
	}
	if fn.Object() != nil && fn.Object().Pkg() != nil {
		return fn.Object().Pkg().Path()
	}
	if o := fn.Origin(); o != nil && o.Pkg != nil {
		return o.Pkg.Pkg.Path()
	}
	return ""
}

// sharedPtrs are heap cells that are immutable and shared by every path (never deep-copied).
var sharedPtrs sync.Map

// deepConcreteEq is concreteEq extended to structures and arrays.
func deepConcreteEq(a, b value) (eq bool, ok bool) {
	switch x := a.(type) {
	case structure:
		y, isS := b.(structure)
		if !isS || len(x) != len(y) {
			return false, isS
		}
		for i := range x {
			if eq, ok := deepConcreteEq(x[i], y[i]); !ok || !eq {
				return false, ok
			}
		}
		return true, true
	case array:
		y, isA := b.(array)
		if !isA || len(x) != len(y) {
			return false, isA
		}
		for i := range x {
			if eq, ok := deepConcreteEq(x[i], y[i]); !ok || !eq {
				return false, ok
			}
		}
		return true, true
	}
	return concreteEq(a, b)
}

func termConstInt(v value) (int64, bool) {
	t, ok := v.(*Term)
	if !ok || !t.K || t.Sort != SInt || !t.C.IsInt64() {
		return 0, false
	}
	return t.C.Int64(), true
}

func (e *Engine) nondetInt(prefix string, it IntType) *Term {
	t := e.ctx.FreshIntVar(prefix, it)
	e.draws = append(e.draws, &Draw{Kind: "i", Name: t.S})
	return t
}

func (e *Engine) nondetBool() *Term {
	b := e.ctx.FreshBoolVar("b")
	e.draws = append(e.draws, &Draw{Kind: "b", Name: b.S})
	return b
}

// internalInt is a nondeterministic value that has no native counterpart (time.Now, rand ...).
func (e *Engine) internalInt(prefix string, lo, hi *big.Int) *Term {
	n := e.ctx.freshInt(prefix)
	t := symInt(n, lo, hi)
	if lo != nil && hi != nil {
		e.ctx.Side = append(e.ctx.Side, rawRange(n, lo, hi))
	}
	return t
}

func (e *Engine) vocab(short string) (handler, bool) {
	switch short {
	case "vInt", "vInt64":
		return func(c *frame, f *ssa.Function, a []value) value { return e.nondetInt("i", IntType{64, true}) }, true
	case "vUint8":
		return func(c *frame, f *ssa.Function, a []value) value { return e.nondetInt("u8", IntType{8, false}) }, true
	case "vUint16":
		return func(c *frame, f *ssa.Function, a []value) value { return e.nondetInt("u16", IntType{16, false}) }, true
	case "vUint32":
		return func(c *frame, f *ssa.Function, a []value) value { return e.nondetInt("u32", IntType{32, false}) }, true
	case "vUint64":
		return func(c *frame, f *ssa.Function, a []value) value { return e.nondetInt("u64", IntType{64, false}) }, true
	case "vBool":
		return func(c *frame, f *ssa.Function, a []value) value { return e.nondetBool() }, true
	case "vRange", "vRange64":
		return func(c *frame, f *ssa.Function, a []value) value {
			t := e.nondetInt("i", IntType{64, true})
			lo, hi := a[0].(*Term), a[1].(*Term)
			e.assume(&Term{Sort: SBool, S: fmt.Sprintf("(and (<= %s %s) (<= %s %s))", lo.SMT(), t.S, t.S, hi.SMT())})
			nt := &Term{Sort: SInt, S: t.S, Lo: t.Lo, Hi: t.Hi}
			if lo.K {
				nt.Lo = lo.C
			} else if lo.Lo != nil {
				nt.Lo = lo.Lo
			}
			if hi.K {
				nt.Hi = hi.C
			} else if hi.Hi != nil {
				nt.Hi = hi.Hi
			}
			return nt
		}, true
	case "vCase":
		return func(c *frame, f *ssa.Function, a []value) value {
			n, ok := termConstInt(a[0])
			if !ok {
				unsup("vCase(symbolic)")
			}
			t := e.nondetInt("c", IntType{64, true})
			e.assume(&Term{Sort: SBool, S: fmt.Sprintf("(and (<= 0 %s) (< %s %d))", t.S, t.S, n)})
			if e.ShardN > 1 && !e.shardUsed {
				// the first vCase of a path is split over the shards of this harness (parallel jobs)
				e.shardUsed = true
				if int(n) < e.ShardN && e.ShardIdx >= int(n) {
					panic(pathAbort{"shard empty"})
				}
				e.assume(&Term{Sort: SBool, S: fmt.Sprintf("(= (mod %s %d) %d)", t.S, e.ShardN, e.ShardIdx)})
			}
			return IntC(int64(e.concInt(t, int(n), "vCase")))
		}, true
	case "vAssume":
		return func(c *frame, f *ssa.Function, a []value) value { e.assume(a[0].(*Term)); return nil }, true
	case "vAssert":
		return func(c *frame, f *ssa.Function, a []value) value { e.assert(a[0].(*Term), a[1].(string)); return nil }, true
	case "vCover":
		return func(c *frame, f *ssa.Function, a []value) value {
			id := a[0].(string)
			e.pathCov = append(e.pathCov, id)
			e.events = append(e.events, Event{Kind: "C", ID: id})
			return nil
		}, true
	case "vObserve":
		return func(c *frame, f *ssa.Function, a []value) value {
			e.events = append(e.events, Event{Kind: "O", ID: a[0].(string), Val: a[1].(*Term)})
			return nil
		}, true
	case "vObserveB":
		return func(c *frame, f *ssa.Function, a []value) value {
			e.events = append(e.events, Event{Kind: "O", ID: a[0].(string), Val: a[1].(*Term)})
			return nil
		}, true
	case "vAnd":
		return func(c *frame, f *ssa.Function, a []value) value { return And(a[0].(*Term), a[1].(*Term)) }, true
	case "vOr":
		return func(c *frame, f *ssa.Function, a []value) value { return Or(a[0].(*Term), a[1].(*Term)) }, true
	case "vNot":
		return func(c *frame, f *ssa.Function, a []value) value { return Not(a[0].(*Term)) }, true
	case "vImplies":
		return func(c *frame, f *ssa.Function, a []value) value { return Or(Not(a[0].(*Term)), a[1].(*Term)) }, true
	case "vB2I":
		return func(c *frame, f *ssa.Function, a []value) value { return Ite(a[0].(*Term), IntC(1), IntC(0)) }, true
	case "vIte", "vIte64":
		return func(c *frame, f *ssa.Function, a []value) value {
			return Ite(a[0].(*Term), a[1].(*Term), a[2].(*Term))
		}, true
	case "vIteB":
		return func(c *frame, f *ssa.Function, a []value) value {
			return Ite(a[0].(*Term), a[1].(*Term), a[2].(*Term))
		}, true
	case "vTier":
		return func(c *frame, f *ssa.Function, a []value) value { return IntC(int64(e.Tier)) }, true
	case "vNative":
		return func(c *frame, f *ssa.Function, a []value) value { return False }, true
	case "vYield":
		return func(c *frame, f *ssa.Function, a []value) value { e.sched.yield(); return nil }, true
	case "vGoroutines":
		// goroutines other than the caller that have not ended once every one of them has run until it blocks
		return func(c *frame, f *ssa.Function, a []value) value {
			e.sched.yield()
			n := 0
			for _, g := range e.sched.gors {
				if g != e.sched.cur && g != e.sched.main && !g.done {
					n++
				}
			}
			return IntC(int64(n))
		}, true
	case "vSchedFork":
		return func(c *frame, f *ssa.Function, a []value) value {
			e.sched.fork = a[0].(*Term).K && a[0].(*Term).B
			return nil
		}, true
	case "vDeadlockIsViolation":
		return func(c *frame, f *ssa.Function, a []value) value { e.deadlockIsViolation = true; return nil }, true
	case "vBytes":
		return func(c *frame, f *ssa.Function, a []value) value {
			n := a[0].(*Term)
			arr := e.freshArr(IntType{8, false})
			e.draws = append(e.draws, &Draw{Kind: "a", Arr: arr, Len: n, Base: arr.node})
			return sliceS{arr, IntC(0), n, n}
		}, true
	case "vString":
		return func(c *frame, f *ssa.Function, a []value) value {
			n := a[0].(*Term)
			arr := e.freshArr(IntType{8, false})
			e.draws = append(e.draws, &Draw{Kind: "a", Arr: arr, Len: n, Base: arr.node})
			return strS{arr, IntC(0), n}
		}, true
	case "vBoolSlice":
		return func(c *frame, f *ssa.Function, a []value) value {
			n := e.concInt(a[0].(*Term), 64, "vBoolSlice len")
			s := make([]value, n)
			for i := range s {
				s[i] = e.nondetBool()
			}
			return s
		}, true
	case "vGhost":
		return func(c *frame, f *ssa.Function, a []value) value { return nil }, true
	case "vTimersEager":
		return func(c *frame, f *ssa.Function, a []value) value {
			e.sched.eager = a[0].(*Term).K && a[0].(*Term).B
			return nil
		}, true
	case "vSetUnwind":
		return func(c *frame, f *ssa.Function, a []value) value {
			if n, ok := termConstInt(a[0]); ok {
				e.Unwind = int(n)
			}
			return nil
		}, true
	}
	return nil, false
}

var logPkgs = map[string]bool{"log/slog": true, "log": true, "go.uber.org/zap": true, "github.com/ipfs/go-log/v2": true}

func (e *Engine) intrinsic(name string, fn *ssa.Function) (handler, bool) {
	short := fn.Name()
	pkg := pkgPathOf(fn)
	if fn.Pkg != nil && fn.Pkg == e.HPkg && fn.Signature.Recv() == nil && len(short) > 1 && short[0] == 'v' && short[1] >= 'A' && short[1] <= 'Z' {
		if h, ok := e.vocab(short); ok {
			return h, true
		}
	}
	switch {
	case pkg == "reflect":
		if h, ok := e.reflectIntrinsic(name, fn); ok {
			return h, true
		}
	case pkg == "sync":
		if h, ok := e.syncIntrinsic(name, fn); ok {
			return h, true
		}
		if strings.HasPrefix(name, "(*sync.Map)") {
			return nil, false // executed / unsupported
		}
	case pkg == "unique" && strings.HasPrefix(short, "Make"):
		// unique.Make: one canonical pointer per distinct (concrete) value; the pointers are shared
		// between paths (never deep-copied) so that handles stored in package variables by the
		// initialisers stay comparable with handles made later
		return func(c *frame, f *ssa.Function, a []value) value {
			rt := f.Signature.Results().At(0).Type()
			h := zero(rt).(structure)
			for _, u := range e.uniq {
				eq, ok := deepConcreteEq(*u, a[0])
				if !ok {
					unsup("unique.Make of a symbolic value")
				}
				if eq {
					h[0] = u
					return h
				}
			}
			p := new(value)
			*p = copyVal(a[0])
			sharedPtrs.Store(p, true)
			e.uniq = append(e.uniq, p)
			h[0] = p
			return h
		}, true
	case pkg == "sync/atomic":
		if h, ok := e.atomicIntrinsic(name, fn); ok {
			return h, true
		}
	case logPkgs[pkg] || strings.HasSuffix(pkg, "/gologshim") || strings.HasSuffix(pkg, "/canonicallog"):
		return func(c *frame, f *ssa.Function, a []value) value { return retZero(f) }, true
	case pkg == "context":
		if h, ok := e.contextIntrinsic(name, fn); ok {
			return h, true
		}
	case pkg == "time":
		if h, ok := e.timeIntrinsic(name, fn); ok {
			return h, true
		}
	}
	switch name {
	case "github.com/libp2p/go-buffer-pool.Get":
		return func(c *frame, f *ssa.Function, a []value) value {
			n := a[0].(*Term)
			return sliceS{e.freshArr(IntType{8, false}), IntC(0), n, n}
		}, true
	case "github.com/libp2p/go-buffer-pool.Put":
		return func(c *frame, f *ssa.Function, a []value) value {
			if s, ok := a[0].(sliceS); ok {
				s.arr.node = e.freshArr(s.arr.elem).node // havoc: contents of a returned buffer are unknown
			}
			return nil
		}, true
	case "github.com/multiformats/go-multiaddr.StringCast":
		// multiaddrs are opaque atoms: one fake component whose bytes are the text itself
		return func(c *frame, f *ssa.Function, a []value) value {
			s, ok := a[0].(string)
			if !ok {
				unsup("StringCast(symbolic)")
			}
			return []value{structure{"\x00" + s, (*value)(nil), IntC(0)}}
		}, true
	case "net/netip.AddrFrom4", "net/netip.AddrFrom16":
		// netip model: the address bytes are packed arithmetically into addr.hi/lo the way netip does
		// (IPv4 as ::ffff:a.b.c.d); the zone handle is netip's own z4 / z6noz (see unique.Make below),
		// so the rest of net/netip (Is4, Prefix, Contains, Compare, ...) is executed as it is
		return func(c *frame, f *ssa.Function, a []value) value {
			rt := f.Signature.Results().At(0).Type()
			st := zero(rt).(structure)
			ut := rt.Underlying().(*types.Struct)
			arr := a[0].(array)
			n := len(arr)
			pack := func(from int) *Term {
				w := IntC(0)
				for k := 0; k < 8 && from+k < n; k++ {
					w = AddX(MulX(w, IntC(256)), arr[from+k].(*Term))
				}
				return w
			}
			zname := "z4"
			if n == 16 {
				zname = "z6noz"
			}
			var z value
			if f.Pkg != nil {
				if g, ok := f.Pkg.Members[zname].(*ssa.Global); ok {
					z = copyVal(*e.global(g))
				}
			}
			for i := 0; i < ut.NumFields(); i++ {
				switch ut.Field(i).Name() {
				case "z":
					if z != nil {
						st[i] = z
					}
				case "addr":
					u := st[i].(structure)
					if n == 4 {
						u[len(u)-1] = AddX(pack(0), BigC(new(big.Int).Lsh(big.NewInt(0xffff), 32)))
					} else {
						u[0] = pack(0)
						u[len(u)-1] = pack(8)
					}
				}
			}
			return st
		}, true
	case "errors.New":
		return func(c *frame, f *ssa.Function, a []value) value { return e.newError(a[0], iface{}) }, true
	case "fmt.Errorf":
		return func(c *frame, f *ssa.Function, a []value) value {
			var w iface
			if vs, ok := a[1].([]value); ok {
				for _, x := range vs {
					if xi, ok := x.(iface); ok && xi.t != nil && types.Implements(xi.t, errorIface) {
						w = xi
					}
				}
			}
			msg, _ := a[0].(string)
			if w.t != nil && !strings.Contains(msg, "%w") {
				w = iface{}
			}
			return e.newError(e.sprintf(a[0], a[1]), w)
		}, true
	case "fmt.Sprintf":
		return func(c *frame, f *ssa.Function, a []value) value { return e.sprintf(a[0], a[1]) }, true
	case "fmt.Sprint", "fmt.Sprintln":
		return func(c *frame, f *ssa.Function, a []value) value { return e.sprintf("%v", a[0]) }, true
	case "fmt.Println", "fmt.Printf", "fmt.Print", "fmt.Fprintf", "fmt.Fprintln", "fmt.Fprint":
		return func(c *frame, f *ssa.Function, a []value) value { return retZero(f) }, true
	case "errors.Is":
		return func(c *frame, f *ssa.Function, a []value) value { return e.errorsIs(a[0].(iface), a[1].(iface)) }, true
	case "errors.As":
		return func(c *frame, f *ssa.Function, a []value) value { return e.errorsAs(a[0].(iface), a[1].(iface)) }, true
	case "runtime/debug.Stack":
		return func(c *frame, f *ssa.Function, a []value) value { return []value(nil) }, true
	case "runtime.Caller":
		// no call-site information in the symbolic run (it only ever feeds names and log lines)
		return func(c *frame, f *ssa.Function, a []value) value {
			return tuple{IntC(0), "", IntC(0), False}
		}, true
	case "runtime.SetFinalizer", "runtime.KeepAlive", "runtime.Gosched", "runtime.GC":
		return func(c *frame, f *ssa.Function, a []value) value { return nil }, true
	case "os.Getenv":
		return func(c *frame, f *ssa.Function, a []value) value { return "" }, true
	case "math/big.NewInt":
		return func(c *frame, f *ssa.Function, a []value) value { p := new(value); *p = a[0]; return p }, true
	case "(*math/big.Int).Mul":
		return func(c *frame, f *ssa.Function, a []value) value {
			z := a[0].(*value)
			*z = e.ctx.Mul((*a[1].(*value)).(*Term), (*a[2].(*value)).(*Term))
			return z
		}, true
	case "(*math/big.Int).Rsh":
		return func(c *frame, f *ssa.Function, a []value) value {
			z := a[0].(*value)
			x := (*a[1].(*value)).(*Term)
			n := a[2].(*Term)
			d := BigC(pow2(uint(n.C.Int64())))
			qn, rn := e.ctx.freshInt("q"), e.ctx.freshInt("r")
			e.ctx.Side = append(e.ctx.Side, &Term{Sort: SBool, S: fmt.Sprintf("(and (= %s (+ (* %s %s) %s)) (<= 0 %s) (< %s %s))", x.SMT(), qn, d.SMT(), rn, rn, rn, d.SMT())})
			*z = symInt(qn, nil, nil)
			return z
		}, true
	case "(*math/big.Int).Int64":
		return func(c *frame, f *ssa.Function, a []value) value {
			return e.ctx.Wrap(IntType{64, true}, (*a[0].(*value)).(*Term))
		}, true
	case "internal/bytealg.MakeNoZero":
		return func(c *frame, f *ssa.Function, a []value) value {
			n := a[0].(*Term)
			if n.K && n.C.IsInt64() && n.C.Int64() <= 4096 {
				s := make([]value, n.C.Int64())
				for i := range s {
					s[i] = IntC(0)
				}
				return s
			}
			return sliceS{e.constArr(IntType{8, false}, IntC(0)), IntC(0), n, n}
		}, true
	case "internal/bytealg.abigen_runtime_cmpstring", "internal/bytealg.CompareString", "strings.Compare":
		return func(c *frame, f *ssa.Function, a []value) value {
			x, ok1 := a[0].(string)
			y, ok2 := a[1].(string)
			if !ok1 || !ok2 {
				unsup("string comparison on symbolic strings")
			}
			return IntC(int64(strings.Compare(x, y)))
		}, true
	case "internal/bytealg.IndexByteString", "strings.IndexByte":
		return func(c *frame, f *ssa.Function, a []value) value {
			x, ok1 := a[0].(string)
			b, ok2 := termConstInt(a[1])
			if !ok1 || !ok2 {
				unsup("IndexByteString on symbolic values")
			}
			return IntC(int64(strings.IndexByte(x, byte(b))))
		}, true
	case "(*strings.Builder).String":
		// the real body goes through unsafe.String(unsafe.SliceData(buf)): same result as string(buf)
		return func(c *frame, f *ssa.Function, a []value) value {
			p, ok := a[0].(*value)
			if !ok || p == nil {
				panic(targetPanic{"nil pointer dereference (strings.Builder)"})
			}
			st := (*p).(structure)
			bt := deref(f.Signature.Recv().Type()).Underlying().(*types.Struct)
			for i := 0; i < bt.NumFields(); i++ {
				if bt.Field(i).Name() == "buf" {
					return e.conv(types.Typ[types.String], bt.Field(i).Type(), st[i])
				}
			}
			unsup("strings.Builder layout")
			return nil
		}, true
	case "internal/abi.NoEscape", "internal/abi.Escape":
		return func(c *frame, f *ssa.Function, a []value) value { return a[0] }, true
	case "internal/bytealg.CountString":
		return func(c *frame, f *ssa.Function, a []value) value {
			x, ok1 := a[0].(string)
			b, ok2 := termConstInt(a[1])
			if !ok1 || !ok2 {
				unsup("CountString on symbolic values")
			}
			return IntC(int64(strings.Count(x, string([]byte{byte(b)}))))
		}, true
	case "internal/bytealg.IndexString":
		return func(c *frame, f *ssa.Function, a []value) value {
			x, ok1 := a[0].(string)
			y, ok2 := a[1].(string)
			if !ok1 || !ok2 {
				unsup("IndexString on symbolic values")
			}
			return IntC(int64(strings.Index(x, y)))
		}, true
	case "internal/bytealg.LastIndexByteString":
		return func(c *frame, f *ssa.Function, a []value) value {
			x, ok1 := a[0].(string)
			b, ok2 := termConstInt(a[1])
			if !ok1 || !ok2 {
				unsup("LastIndexByteString on symbolic values")
			}
			return IntC(int64(strings.LastIndexByte(x, byte(b))))
		}, true
	case "internal/bytealg.IndexByte", "bytes.IndexByte":
		return func(c *frame, f *ssa.Function, a []value) value {
			xs, ok := a[0].([]value)
			if !ok && a[0] != nil {
				unsup("IndexByte on symbolic slice")
			}
			for i, v := range xs {
				if e.Branch(EqI(v.(*Term), a[1].(*Term))) {
					return IntC(int64(i))
				}
			}
			return IntC(-1)
		}, true
	case "internal/bytealg.Equal":
		return func(c *frame, f *ssa.Function, a []value) value {
			x, ok1 := e.asSliceS(a[0])
			y, ok2 := e.asSliceS(a[1])
			if !ok1 || !ok2 {
				unsup("bytealg.Equal(%T,%T)", a[0], a[1])
			}
			return e.seqEq(x.arr, x.off, x.len, y.arr, y.off, y.len)
		}, true
	case "bytes.Equal":
		return func(c *frame, f *ssa.Function, a []value) value {
			x, ok1 := e.asSliceS(a[0])
			y, ok2 := e.asSliceS(a[1])
			if !ok1 || !ok2 {
				unsup("bytes.Equal(%T,%T)", a[0], a[1])
			}
			return e.seqEq(x.arr, x.off, x.len, y.arr, y.off, y.len)
		}, true
	case "math/rand.Intn", "math/rand.Int63n", "math/rand/v2.IntN", "math/rand.Int31n", "(*math/rand.Rand).Intn":
		return func(c *frame, f *ssa.Function, a []value) value {
			n := a[len(a)-1].(*Term)
			t := e.internalInt("rnd", big.NewInt(0), nil)
			e.ctx.Side = append(e.ctx.Side, &Term{Sort: SBool, S: fmt.Sprintf("(and (<= 0 %s) (< %s %s))", t.S, t.S, n.SMT())})
			if n.Hi != nil {
				t.Hi = new(big.Int).Sub(n.Hi, big.NewInt(1))
			}
			return t
		}, true
	case "sort.Slice", "sort.SliceStable":
		return func(c *frame, f *ssa.Function, a []value) value { e.sortSlice(c, a[0].(iface), a[1]); return nil }, true
	case "strconv.Itoa":
		return func(c *frame, f *ssa.Function, a []value) value {
			if n, ok := termConstInt(a[0]); ok {
				return strconv.Itoa(int(n))
			}
			return "<itoa>"
		}, true
	case "strings.HasPrefix", "strings.HasSuffix", "strings.Contains":
		if true {
			return func(c *frame, f *ssa.Function, a []value) value {
				x, ok1 := a[0].(string)
				y, ok2 := a[1].(string)
				if !ok1 || !ok2 {
					unsup("%s on symbolic strings", name)
				}
				switch name {
				case "strings.HasPrefix":
					return BoolC(strings.HasPrefix(x, y))
				case "strings.HasSuffix":
					return BoolC(strings.HasSuffix(x, y))
				}
				return BoolC(strings.Contains(x, y))
			}, true
		}
	}
	if strings.Contains(short, "logValues") {
		return func(c *frame, f *ssa.Function, a []value) value { return retZero(f) }, true
	}
	if e.initMode && len(fn.Blocks) == 0 {
		return func(c *frame, f *ssa.Function, a []value) value { return retZero(f) }, true
	}
	return nil, false
}

func (e *Engine) initAllowed(pkg string) bool {
	switch pkg {
	case "errors", "context", "time", "fmt", "io", "sync", "sync/atomic", "container/heap", "container/list", "slices", "maps", "sort", "bytes", "strings", "math", "math/bits", "encoding/binary", "github.com/multiformats/go-varint":
		return true
	}
	return false
}

var errorIface = types.Universe.Lookup("error").Type().Underlying().(*types.Interface)

func (e *Engine) assume(c *Term) {
	if c.K {
		if !c.B {
			panic(pathAbort{"assume false"})
		}
		return
	}
	if !e.feasible(c) {
		panic(pathAbort{"assume infeasible"})
	}
	e.pc = append(e.pc, c)
}

func (e *Engine) assert(c *Term, id string) {
	e.Asserts++
	e.AssertIDs[id]++
	e.events = append(e.events, Event{Kind: "A", ID: id})
	if c.K && c.B {
		e.AssertsTrivial++
		return
	}
	res, _ := e.Solver.Check(e.asserts(Not(c)), nil)
	switch res {
	case "unsat":
	case "sat":
		e.reportViolation(id, "assert", "", Not(c))
		// continue under the assumption that it holds, to find other violations
		if c.K {
			panic(pathAbort{"assert always false"})
		}
		if e.feasible(c) {
			e.pc = append(e.pc, c)
		} else {
			panic(pathAbort{"assert always false"})
		}
	default:
		e.inconclusive("assert " + id + ": " + res)
	}
}

// errors are modelled with the real types *errors.errorString / *fmt.wrapError so that the
// code's own Error/Unwrap methods run.
func (e *Engine) newError(msg value, wrapped iface) value {
	if wrapped.t == nil {
		pk := e.Prog.ImportedPackage("errors")
		t := pk.Type("errorString").Type()
		p := new(value)
		*p = structure{msg}
		return iface{t: types.NewPointer(t), v: p}
	}
	pk := e.Prog.ImportedPackage("fmt")
	if pk == nil {
		unsup("fmt not loaded")
	}
	t := pk.Type("wrapError").Type()
	p := new(value)
	*p = structure{msg, wrapped}
	return iface{t: types.NewPointer(t), v: p}
}

func (e *Engine) sprintf(format value, args value) value {
	fs, ok := format.(string)
	if !ok {
		return "<fmt>"
	}
	vs, _ := args.([]value)
	var conc []interface{}
	for _, a := range vs {
		ai, ok := a.(iface)
		if !ok {
			return "<fmt:" + fs + ">"
		}
		switch x := ai.v.(type) {
		case string:
			conc = append(conc, x)
		case *Term:
			if !x.K {
				return "<fmt:" + fs + ">"
			}
			if x.Sort == SBool {
				conc = append(conc, x.B)
			} else {
				conc = append(conc, x.C)
			}
		default:
			return "<fmt:" + fs + ">"
		}
	}
	return fmt.Sprintf(fs, conc...)
}

func (e *Engine) methodByName(t types.Type, name string) *ssa.Function {
	ms := e.Prog.MethodSets.MethodSet(t)
	for i := 0; i < ms.Len(); i++ {
		if ms.At(i).Obj().Name() == name {
			return e.Prog.MethodValue(ms.At(i))
		}
	}
	return nil
}

func (e *Engine) errorsIs(err, target iface) value {
	for depth := 0; depth < 30; depth++ {
		if err.t == nil {
			return BoolC(target.t == nil)
		}
		if e.equalsTsafe(err, target) {
			return True
		}
		if m := e.methodByName(err.t, "Is"); m != nil && m.Signature.Params().Len() == 1 && m.Signature.Results().Len() == 1 {
			if r, ok := e.callSSA(nil, m, []value{err.v, target}, nil).(*Term); ok {
				if e.Branch(r) {
					return True
				}
			}
		}
		m := e.methodByName(err.t, "Unwrap")
		if m == nil {
			return False
		}
		r := e.callSSA(nil, m, []value{err.v}, nil)
		switch ri := r.(type) {
		case iface:
			err = ri
		case []value: // Unwrap() []error
			for _, x := range ri {
				if t := e.errorsIs(x.(iface), target).(*Term); e.Branch(t) {
					return True
				}
			}
			return False
		default:
			return False
		}
	}
	return False
}

func (e *Engine) errorsAs(err, target iface) value {
	tp, ok := target.v.(*value)
	if !ok || tp == nil {
		panic(targetPanic{"errors.As: target must be a non-nil pointer"})
	}
	want := deref(target.t)
	for depth := 0; depth < 30; depth++ {
		if err.t == nil {
			return False
		}
		if wi, isI := want.Underlying().(*types.Interface); isI {
			if types.Implements(err.t, wi) {
				*tp = err
				return True
			}
		} else if types.Identical(err.t, want) {
			*tp = copyVal(err.v)
			return True
		}
		m := e.methodByName(err.t, "Unwrap")
		if m == nil {
			return False
		}
		r, ok := e.callSSA(nil, m, []value{err.v}, nil).(iface)
		if !ok {
			return False
		}
		err = r
	}
	return False
}

func (e *Engine) equalsTsafe(a, b iface) bool {
	if a.t == nil || b.t == nil {
		return a.t == nil && b.t == nil
	}
	if !types.Identical(a.t, b.t) {
		return false
	}
	if !types.Comparable(a.t) {
		return false
	}
	t := e.equalsT(a.t, a.v, b.v)
	return t.K && t.B
}

// sortSlice implements sort.Slice for small concrete-length slices by insertion sort calling the
// real less function (stable; any comparison sort yields a permutation sorted w.r.t. less).
func (e *Engine) sortSlice(caller *frame, x iface, less value) {
	s, ok := x.v.([]value)
	if !ok {
		if x.v == nil {
			return
		}
		unsup("sort.Slice on %T", x.v)
	}
	if len(s) > 8 {
		unsup("sort.Slice on more than 8 elements")
	}
	lessAt := func(i, j int) bool {
		r := e.call(caller, token.NoPos, less, []value{IntC(int64(i)), IntC(int64(j))}, nil)
		return e.Branch(r.(*Term))
	}
	for i := 1; i < len(s); i++ {
		for j := i; j > 0 && lessAt(j, j-1); j-- {
			s[j], s[j-1] = s[j-1], s[j]
		}
	}
}

// ---------- sync/atomic ----------

func (e *Engine) atomicIntrinsic(name string, fn *ssa.Function) (handler, bool) {
	short := fn.Name()
	if fn.Signature.Recv() != nil {
		// typed atomics have bodies over the primitive functions, except Value and Pointer
		if strings.HasPrefix(name, "(*sync/atomic.Value).") {
			switch short {
			case "Load":
				return func(c *frame, f *ssa.Function, a []value) value {
					if v, ok := e.atomVal(a[0]).(iface); ok {
						return v
					}
					return iface{}
				}, true
			case "Store":
				return func(c *frame, f *ssa.Function, a []value) value { e.atomSet(a[0], a[1]); return nil }, true
			}
		}
		return nil, false
	}
	ptr := func(v value) *value {
		p, ok := v.(*value)
		if !ok || p == nil {
			panic(targetPanic{"nil pointer dereference (atomic)"})
		}
		return p
	}
	switch {
	case strings.HasPrefix(short, "Load"):
		return func(c *frame, f *ssa.Function, a []value) value { return load(ptr(a[0])) }, true
	case strings.HasPrefix(short, "Store"):
		return func(c *frame, f *ssa.Function, a []value) value { store(ptr(a[0]), a[1]); return nil }, true
	case strings.HasPrefix(short, "Swap"):
		return func(c *frame, f *ssa.Function, a []value) value {
			p := ptr(a[0])
			old := load(p)
			store(p, a[1])
			return old
		}, true
	case strings.HasPrefix(short, "Add"):
		return func(c *frame, f *ssa.Function, a []value) value {
			p := ptr(a[0])
			it, _ := intTypeOf(f.Signature.Results().At(0).Type())
			n := e.ctx.Wrap(it, AddX((*p).(*Term), a[1].(*Term)))
			*p = n
			return n
		}, true
	case strings.HasPrefix(short, "And"), strings.HasPrefix(short, "Or"):
		return func(c *frame, f *ssa.Function, a []value) value {
			p := ptr(a[0])
			it, _ := intTypeOf(f.Signature.Params().At(1).Type())
			old := (*p).(*Term)
			op := token.AND
			if strings.HasPrefix(short, "Or") {
				op = token.OR
			}
			*p = e.bitop(op, it, old, a[1].(*Term))
			return old
		}, true
	case strings.HasPrefix(short, "CompareAndSwap"):
		return func(c *frame, f *ssa.Function, a []value) value {
			p := ptr(a[0])
			t := f.Signature.Params().At(1).Type()
			if e.Branch(e.equalsT(t, *p, a[1])) {
				store(p, a[2])
				return True
			}
			return False
		}, true
	}
	return nil, false
}

func (e *Engine) atomVal(p value) value {
	s := e.syncOf(p)
	_ = s
	if e.atoms == nil {
		return nil
	}
	return e.atoms[p.(*value)]
}

func (e *Engine) atomSet(p value, v value) {
	if e.atoms == nil {
		e.atoms = map[*value]value{}
	}
	e.atoms[p.(*value)] = v
}
