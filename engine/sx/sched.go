package sx

import (
	"go/token"
	"go/types"
	"math/big"
	"sync"

	"golang.org/x/tools/go/ssa"
)

// Cooperative goroutines: every Go-level goroutine of the program under test runs on its own host
// goroutine, but exactly one holds the baton at any time. A goroutine gives up the baton only when
// it blocks (channel, select, mutex, WaitGroup, Cond) or ends. The next goroutine is picked in
// round-robin order, or - when schedule forking is enabled by the harness - by an explored choice.

type gor struct {
	id      int
	resume  chan struct{}
	started bool
	done    bool
	entry   func()
	cond    func() bool // nil = runnable
	why     string
	timers  []*chanV // may-fire channels this goroutine is currently waiting on
}

type gorKill struct{}

// Timers (time.After/NewTimer, context deadlines) are "lazy" by default: they fire only when every goroutine
// is blocked, i.e. time passes only when nothing else can happen (timeouts are long compared to computation).
// A harness may switch to eager timers (vTimersEager): then a timer may fire at any select that waits on it.
type sched struct {
	eager  bool
	e      *Engine
	gors   []*gor
	cur    *gor
	main   *gor
	abort  interface{}
	killed bool
	wg     sync.WaitGroup
	fork   bool // explore the choice of the next goroutine at every switch
	chans  int
}

func newSched(e *Engine) *sched {
	m := &gor{id: 0, resume: make(chan struct{}, 1), started: true}
	return &sched{e: e, gors: []*gor{m}, cur: m, main: m}
}

func (e *Engine) spawn(fn value, args []value, pos token.Pos) {
	s := e.sched
	g := &gor{id: len(s.gors), resume: make(chan struct{}, 1)}
	g.entry = func() { e.call(nil, pos, fn, args, nil) }
	s.gors = append(s.gors, g)
}

func (s *sched) runnable(g *gor) bool {
	return !g.done && (g.cond == nil || g.cond())
}

func (s *sched) pickNext(exclude *gor) *gor {
	var cands []*gor
	n := len(s.gors)
	start := 0
	if s.cur != nil {
		start = s.cur.id + 1
	}
	for i := 0; i < n; i++ {
		g := s.gors[(start+i)%n]
		if g != exclude && s.runnable(g) {
			cands = append(cands, g)
		}
	}
	if len(cands) == 0 {
		return nil
	}
	if s.fork && len(cands) > 1 {
		return cands[s.e.choose(len(cands))]
	}
	return cands[0]
}

func (s *sched) hostMain(g *gor) {
	defer s.wg.Done()
	defer func() {
		r := recover()
		g.done = true
		if _, isKill := r.(gorKill); isKill {
			return
		}
		if r != nil && s.abort == nil {
			s.abort = r
		}
		if s.killed {
			return
		}
		// hand the baton on
		if s.abort != nil {
			s.cur = s.main
			s.main.resume <- struct{}{}
			return
		}
		next := s.pickNext(g)
		if next == nil {
			next = s.main // main re-checks its condition and detects the deadlock itself
		}
		s.transfer(next)
	}()
	g.entry()
}

// transfer hands the baton to g without parking the caller (used by finished goroutines).
func (s *sched) transfer(g *gor) {
	s.cur = g
	if !g.started {
		g.started = true
		s.wg.Add(1)
		go s.hostMain(g)
		return
	}
	g.resume <- struct{}{}
}

// switchTo hands the baton to g and parks the current goroutine until it is resumed.
func (s *sched) switchTo(g *gor) {
	prev := s.cur
	s.transfer(g)
	<-prev.resume
	if s.killed && prev != s.main {
		panic(gorKill{})
	}
	if prev == s.main && s.abort != nil {
		a := s.abort
		s.abort = nil
		panic(a)
	}
}

// block parks the current goroutine until cond holds.
func (s *sched) block(why string, cond func() bool) {
	if s.e.initMode {
		if !cond() {
			unsup("blocking operation during init")
		}
		return
	}
	for !cond() {
		me := s.cur
		me.cond, me.why = cond, why
		next := s.pickNext(me)
		if next == nil && s.fireIdleTimer() {
			me.cond = nil
			continue
		}
		if next == nil {
			me.cond = nil
			detail := why
			for _, g := range s.gors {
				if g != me && !g.done && g.cond != nil {
					detail += " | g" + itoa(g.id) + ": " + g.why
				}
			}
			if s.e.deadlockIsViolation {
				panic(pathAbort{"deadlock: " + detail})
			}
			panic(pathAbort{"blocked: all goroutines asleep: " + detail})
		}
		s.switchTo(next)
		me.cond = nil
	}
}

func itoa(i int) string {
	if i == 0 {
		return "0"
	}
	var b []byte
	for i > 0 {
		b = append([]byte{byte('0' + i%10)}, b...)
		i /= 10
	}
	return string(b)
}

// fireIdleTimer: every goroutine is blocked; if some of them wait on a timer, time passes and one fires.
func (s *sched) fireIdleTimer() bool {
	var cands []*chanV
	seen := map[*chanV]bool{}
	for _, g := range s.gors {
		if g.done {
			continue
		}
		for _, c := range g.timers {
			if c.mayFire && !c.closed && len(c.q) == 0 && !seen[c] {
				seen[c] = true
				cands = append(cands, c)
			}
		}
	}
	if len(cands) == 0 {
		return false
	}
	// timers of known (concrete) duration fire in deadline order on a virtual clock that only advances while
	// everything is idle; timers of unknown duration may fire at any idle moment
	var min *big.Int
	for _, c := range cands {
		if c.due != nil && (min == nil || c.due.Cmp(min) < 0) {
			min = c.due
		}
	}
	var elig []*chanV
	for _, c := range cands {
		if c.due == nil || c.due.Cmp(min) == 0 {
			elig = append(elig, c)
		}
	}
	c := elig[0]
	if len(elig) > 1 {
		c = elig[s.e.choose(len(elig))]
	}
	if c.due != nil && c.due.Cmp(s.e.vclock) > 0 {
		s.e.vclock = c.due
	}
	c.fire()
	return true
}

// yield lets every other runnable goroutine run until it blocks or ends.
func (s *sched) yield() {
	me := s.cur
	for {
		next := s.pickNext(me)
		if next == nil {
			return
		}
		s.switchTo(next)
	}
}

// drain runs the remaining goroutines until all are blocked or done (end of the harness function).
func (s *sched) drain() {
	if len(s.gors) > 1 {
		s.yield()
	}
}

func (s *sched) killAll() {
	s.killed = true
	for _, g := range s.gors {
		if g != s.main && g.started && !g.done {
			g.resume <- struct{}{}
		}
	}
	s.wg.Wait()
}

// ---------- channels ----------

func (e *Engine) newChan(n int) *chanV {
	e.sched.chans++
	return &chanV{cap: n, id: e.sched.chans}
}

func (e *Engine) chanSend(c *chanV, v value) {
	if c == nil {
		e.sched.block("send on nil chan", func() bool { return false })
	}
	if c.closed {
		panic(targetPanic{"send on closed channel"})
	}
	if c.cap > 0 {
		e.sched.block("chan send (full)", func() bool { return len(c.q) < c.cap || c.closed })
		if c.closed {
			panic(targetPanic{"send on closed channel"})
		}
		c.q = append(c.q, copyVal(v))
		c.sent++
		return
	}
	c.q = append(c.q, copyVal(v))
	c.sent++
	my := c.sent
	e.sched.block("chan send (unbuffered, no receiver)", func() bool { return c.taken >= my })
}

func (e *Engine) chanRecv(c *chanV, commaOk bool, elem types.Type) value {
	if c == nil {
		e.sched.block("recv on nil chan", func() bool { return false })
	}
	if e.sched.eager {
		c.fire()
	}
	if len(c.q) == 0 && !c.closed {
		c.waiters++
		me := e.sched.cur
		if c.mayFire {
			me.timers = []*chanV{c}
		}
		e.sched.block("chan recv (empty)", func() bool { return len(c.q) > 0 || c.closed })
		me.timers = nil
		c.waiters--
	}
	var v value
	ok := false
	if len(c.q) > 0 {
		v, c.q, ok = c.q[0], c.q[1:], true
		c.taken++
	} else {
		v = zero(elem)
	}
	if commaOk {
		return tuple{v, BoolC(ok)}
	}
	return v
}

func (e *Engine) chanClose(c *chanV) {
	if c == nil {
		panic(targetPanic{"close of nil channel"})
	}
	if c.closed {
		panic(targetPanic{"close of closed channel"})
	}
	c.closed = true
}

func (e *Engine) selectInstr(fr *frame, instr *ssa.Select) value {
	type st struct {
		c    *chanV
		send bool
		v    value
		elem types.Type
	}
	var states []st
	for _, s := range instr.States {
		x := st{send: s.Dir == types.SendOnly}
		if cv := fr.get(s.Chan); cv != nil {
			x.c, _ = cv.(*chanV)
		}
		x.elem = s.Chan.Type().Underlying().(*types.Chan).Elem()
		if x.send {
			x.v = fr.get(s.Send)
		}
		states = append(states, x)
	}
	ready := func() []int {
		var r []int
		for i, s := range states {
			if s.c == nil {
				continue
			}
			if s.send {
				if s.c.closed || (s.c.cap > 0 && len(s.c.q) < s.c.cap) || (s.c.cap == 0 && s.c.waiters > 0 && len(s.c.q) == 0) {
					r = append(r, i)
				}
			} else if len(s.c.q) > 0 || s.c.closed || (s.c.mayFire && e.sched.eager) {
				r = append(r, i)
			}
		}
		return r
	}
	r := ready()
	idx := -1
	if len(r) == 0 && instr.Blocking {
		for _, s := range states {
			if s.c != nil && !s.send {
				s.c.waiters++
			}
		}
		me := e.sched.cur
		for _, s := range states {
			if s.c != nil && !s.send && s.c.mayFire {
				me.timers = append(me.timers, s.c)
			}
		}
		e.sched.block("select (no case ready)", func() bool { return len(ready()) > 0 })
		me.timers = nil
		for _, s := range states {
			if s.c != nil && !s.send {
				s.c.waiters--
			}
		}
		r = ready()
	}
	if len(r) > 0 {
		idx = r[e.choose(len(r))]
	}
	res := tuple{IntC(int64(idx)), False}
	for i, s := range states {
		if s.send {
			continue
		}
		var v value = zero(s.elem)
		if i == idx {
			s.c.fire()
			if len(s.c.q) > 0 {
				v, s.c.q = s.c.q[0], s.c.q[1:]
				s.c.taken++
				res[1] = True
			}
		}
		res = append(res, v)
	}
	if idx >= 0 && states[idx].send {
		c := states[idx].c
		if c.closed {
			panic(targetPanic{"send on closed channel"})
		}
		c.q = append(c.q, copyVal(states[idx].v))
		c.sent++
	}
	return res
}

// ---------- sync ----------

type syncState struct {
	locked  bool
	owner   *gor
	readers int
	count   int // WaitGroup
	done    bool
	gen     int // Cond generation
}

func (e *Engine) syncOf(p value) *syncState {
	ptr, ok := p.(*value)
	if !ok || ptr == nil {
		panic(targetPanic{"nil pointer dereference (sync object)"})
	}
	s := e.sync[ptr]
	if s == nil {
		s = &syncState{}
		e.sync[ptr] = s
	}
	return s
}

func (e *Engine) syncIntrinsic(name string, fn *ssa.Function) (handler, bool) {
	switch name {
	case "(*sync.Mutex).Lock":
		return func(c *frame, f *ssa.Function, a []value) value {
			s := e.syncOf(a[0])
			e.sched.block("Mutex.Lock (held)", func() bool { return !s.locked })
			s.locked, s.owner = true, e.sched.cur
			return nil
		}, true
	case "(*sync.Mutex).TryLock":
		return func(c *frame, f *ssa.Function, a []value) value {
			s := e.syncOf(a[0])
			if s.locked {
				return False
			}
			s.locked, s.owner = true, e.sched.cur
			return True
		}, true
	case "(*sync.Mutex).Unlock":
		return func(c *frame, f *ssa.Function, a []value) value {
			s := e.syncOf(a[0])
			if !s.locked && !e.initMode {
				panic(targetPanic{"sync: unlock of unlocked mutex"})
			}
			s.locked = false
			return nil
		}, true
	case "(*sync.RWMutex).Lock":
		return func(c *frame, f *ssa.Function, a []value) value {
			s := e.syncOf(a[0])
			e.sched.block("RWMutex.Lock (held)", func() bool { return !s.locked && s.readers == 0 })
			s.locked, s.owner = true, e.sched.cur
			return nil
		}, true
	case "(*sync.RWMutex).Unlock":
		return func(c *frame, f *ssa.Function, a []value) value {
			s := e.syncOf(a[0])
			if !s.locked && !e.initMode {
				panic(targetPanic{"sync: Unlock of unlocked RWMutex"})
			}
			s.locked = false
			return nil
		}, true
	case "(*sync.RWMutex).RLock":
		return func(c *frame, f *ssa.Function, a []value) value {
			s := e.syncOf(a[0])
			e.sched.block("RWMutex.RLock (write-held)", func() bool { return !s.locked })
			s.readers++
			return nil
		}, true
	case "(*sync.RWMutex).RUnlock":
		return func(c *frame, f *ssa.Function, a []value) value {
			s := e.syncOf(a[0])
			if s.readers <= 0 && !e.initMode {
				panic(targetPanic{"sync: RUnlock of unlocked RWMutex"})
			}
			s.readers--
			return nil
		}, true
	case "(*sync.WaitGroup).Add":
		return func(c *frame, f *ssa.Function, a []value) value {
			s := e.syncOf(a[0])
			n := a[1].(*Term)
			if !n.K {
				unsup("WaitGroup.Add(symbolic)")
			}
			s.count += int(n.C.Int64())
			if s.count < 0 {
				panic(targetPanic{"sync: negative WaitGroup counter"})
			}
			return nil
		}, true
	case "(*sync.WaitGroup).Done":
		return func(c *frame, f *ssa.Function, a []value) value {
			s := e.syncOf(a[0])
			s.count--
			if s.count < 0 {
				panic(targetPanic{"sync: negative WaitGroup counter"})
			}
			return nil
		}, true
	case "(*sync.WaitGroup).Wait":
		return func(c *frame, f *ssa.Function, a []value) value {
			s := e.syncOf(a[0])
			e.sched.block("WaitGroup.Wait", func() bool { return s.count == 0 })
			return nil
		}, true
	case "(*sync.WaitGroup).Go":
		return func(c *frame, f *ssa.Function, a []value) value {
			s := e.syncOf(a[0])
			s.count++
			fnv := a[1]
			e.spawn(&closure{Native: func([]value) value {
				e.call(nil, token.NoPos, fnv, nil, nil)
				s.count--
				return nil
			}}, nil, token.NoPos)
			return nil
		}, true
	case "(*sync.Once).Do":
		return func(c *frame, f *ssa.Function, a []value) value {
			s := e.syncOf(a[0])
			if s.done {
				return nil
			}
			if s.locked {
				e.sched.block("Once.Do (in progress)", func() bool { return s.done })
				return nil
			}
			s.locked = true
			defer func() { s.done = true }()
			e.call(c, token.NoPos, a[1], nil, nil)
			return nil
		}, true
	case "(*sync.Cond).Wait":
		return func(c *frame, f *ssa.Function, a []value) value {
			s := e.syncOf(a[0])
			// L is the field named L of sync.Cond
			l := e.condLocker(a[0])
			e.callMethod(l, "Unlock")
			gen := s.gen
			e.sched.block("Cond.Wait", func() bool { return s.gen != gen })
			e.callMethod(l, "Lock")
			return nil
		}, true
	case "(*sync.Cond).Broadcast", "(*sync.Cond).Signal":
		return func(c *frame, f *ssa.Function, a []value) value {
			e.syncOf(a[0]).gen++
			return nil
		}, true
	case "(*sync.Pool).Put":
		return func(c *frame, f *ssa.Function, a []value) value { return nil }, true
	case "(*sync.Pool).Get":
		// a pool never has to return a pooled object: always take the New path
		return func(c *frame, f *ssa.Function, a []value) value {
			p, ok := a[0].(*value)
			if !ok || p == nil {
				panic(targetPanic{"nil pointer dereference (sync.Pool)"})
			}
			st := (*p).(structure)
			pt := deref(f.Signature.Recv().Type()).Underlying().(*types.Struct)
			for i := 0; i < pt.NumFields(); i++ {
				if pt.Field(i).Name() == "New" {
					if isNilFunc(st[i]) {
						return iface{}
					}
					return e.call(c, token.NoPos, st[i], nil, nil)
				}
			}
			return iface{}
		}, true
	case "(*sync.Map).Load", "(*sync.Map).Store", "(*sync.Map).LoadOrStore", "(*sync.Map).LoadAndDelete",
		"(*sync.Map).Delete", "(*sync.Map).Swap", "(*sync.Map).Range", "(*sync.Map).Clear":
		// sync.Map as an association list keyed by interface equality (one cooperative step per call)
		op := name[len("(*sync.Map)."):]
		return func(c *frame, f *ssa.Function, a []value) value {
			ptr, ok := a[0].(*value)
			if !ok || ptr == nil {
				panic(targetPanic{"nil pointer dereference (sync.Map)"})
			}
			m := e.syncMaps[ptr]
			if m == nil {
				m = &mapV{kt: types.NewInterfaceType(nil, nil)}
				e.syncMaps[ptr] = m
			}
			switch op {
			case "Load":
				if i := e.mapFind(m, a[1]); i >= 0 {
					return tuple{copyVal(m.vals[i]), BoolC(true)}
				}
				return tuple{iface{}, BoolC(false)}
			case "Store":
				e.mapSet(m, a[1], a[2])
				return nil
			case "LoadOrStore":
				if i := e.mapFind(m, a[1]); i >= 0 {
					return tuple{copyVal(m.vals[i]), BoolC(true)}
				}
				e.mapSet(m, a[1], a[2])
				return tuple{copyVal(a[2]), BoolC(false)}
			case "Swap":
				if i := e.mapFind(m, a[1]); i >= 0 {
					old := m.vals[i]
					m.vals[i] = copyVal(a[2])
					return tuple{old, BoolC(true)}
				}
				e.mapSet(m, a[1], a[2])
				return tuple{iface{}, BoolC(false)}
			case "LoadAndDelete":
				if i := e.mapFind(m, a[1]); i >= 0 {
					old := m.vals[i]
					e.mapDelete(m, a[1])
					return tuple{old, BoolC(true)}
				}
				return tuple{iface{}, BoolC(false)}
			case "Delete":
				e.mapDelete(m, a[1])
				return nil
			case "Clear":
				m.keys, m.vals = nil, nil
				return nil
			case "Range":
				keys := append([]value{}, m.keys...)
				vals := append([]value{}, m.vals...)
				for i := range keys {
					r := e.call(c, token.NoPos, a[1], []value{copyVal(keys[i]), copyVal(vals[i])}, nil)
					if !e.Branch(r.(*Term)) {
						break
					}
				}
				return nil
			}
			return nil
		}, true
	case "sync.NewCond":
		return func(c *frame, f *ssa.Function, a []value) value {
			p := new(value)
			*p = zero(deref(f.Signature.Results().At(0).Type()))
			st := (*p).(structure)
			ct := deref(f.Signature.Results().At(0).Type()).Underlying().(*types.Struct)
			for i := 0; i < ct.NumFields(); i++ {
				if ct.Field(i).Name() == "L" {
					st[i] = a[0]
				}
			}
			return p
		}, true
	}
	return nil, false
}

func (e *Engine) condLocker(cp value) iface {
	p := cp.(*value)
	st := (*p).(structure)
	for _, f := range st {
		if i, ok := f.(iface); ok && i.t != nil {
			return i
		}
	}
	unsup("sync.Cond without L")
	return iface{}
}

// callMethod invokes a niladic method by name on an interface value.
func (e *Engine) callMethod(recv iface, name string, args ...value) value {
	if recv.t == nil {
		panic(targetPanic{"method " + name + " invoked on nil interface"})
	}
	if b, ok := recv.v.(builtinObj); ok {
		return b.callMethod(e, name, args)
	}
	ms := e.Prog.MethodSets.MethodSet(recv.t)
	for i := 0; i < ms.Len(); i++ {
		if ms.At(i).Obj().Name() == name {
			f := e.Prog.MethodValue(ms.At(i))
			return e.callSSA(nil, f, append([]value{recv.v}, args...), nil)
		}
	}
	unsup("no method %s on %s", name, recv.t)
	return nil
}
