package sx

import (
	"go/types"
	"math/big"
	"strings"

	"golang.org/x/tools/go/ssa"
)

// ---------- context ----------

// ctxV is the engine's summary of the context package: a value chain plus a cancellation channel.
type ctxV struct {
	parent   iface
	key, val value
	done     *chanV
	err      value // error iface once cancelled
	cause    value
	children []*ctxV
	deadline bool
	at       *Term // the deadline instant (ns) when created by WithTimeout / WithDeadline
}

func (e *Engine) ctxType() types.Type {
	pk := e.Prog.ImportedPackage("context")
	if pk == nil {
		unsup("context not loaded")
	}
	return types.NewPointer(pk.Type("cancelCtx").Type())
}

func (e *Engine) ctxIface(c *ctxV) iface { return iface{t: e.ctxType(), v: c} }

func (e *Engine) ctxGlobalErr(name string) value {
	pk := e.Prog.ImportedPackage("context")
	return load(e.global(pk.Var(name)))
}

func (c *ctxV) cancel(e *Engine, err, cause value) {
	if c.done == nil {
		return
	}
	if c.done.closed {
		return
	}
	c.done.closed = true
	c.done.mayFire = false
	c.err, c.cause = err, cause
	for _, ch := range c.children {
		ch.cancel(e, err, cause)
	}
}

func (c *ctxV) callMethod(e *Engine, name string, args []value) value {
	switch name {
	case "Done":
		for p := c; p != nil; {
			if p.done != nil {
				return p.done
			}
			pp, ok := p.parent.v.(*ctxV)
			if !ok {
				if p.parent.t != nil {
					return e.callMethod(p.parent, "Done")
				}
				break
			}
			p = pp
		}
		return (*chanV)(nil)
	case "Err":
		for p := c; p != nil; {
			if p.done != nil {
				if p.done.closed {
					return p.err
				}
				return iface{}
			}
			pp, ok := p.parent.v.(*ctxV)
			if !ok {
				if p.parent.t != nil {
					return e.callMethod(p.parent, "Err")
				}
				break
			}
			p = pp
		}
		return iface{}
	case "Value":
		k := args[0]
		for p := c; p != nil; {
			if p.key != nil {
				if ki, ok := p.key.(iface); ok {
					if kj, ok := k.(iface); ok && ki.t != nil && kj.t != nil && types.Identical(ki.t, kj.t) && types.Comparable(ki.t) {
						if e.Branch(e.equalsT(ki.t, ki.v, kj.v)) {
							return p.val
						}
					}
				}
			}
			pp, ok := p.parent.v.(*ctxV)
			if !ok {
				if p.parent.t != nil {
					return e.callMethod(p.parent, "Value", k)
				}
				break
			}
			p = pp
		}
		return iface{}
	case "Deadline":
		// the nearest deadline on the chain (each node stores min(own, inherited) at creation)
		for p := c; p != nil; {
			if p.at != nil {
				return tuple{p.at, True}
			}
			pp, ok := p.parent.v.(*ctxV)
			if !ok {
				if p.parent.t != nil {
					return e.callMethod(p.parent, "Deadline")
				}
				break
			}
			p = pp
		}
		return tuple{BigC(zeroTimeNS), False}
	}
	unsup("context method %s", name)
	return nil
}

func (e *Engine) newChildCtx(parent value) *ctxV {
	pi, _ := parent.(iface)
	if pi.t == nil {
		panic(targetPanic{"cannot create context from nil parent"})
	}
	c := &ctxV{parent: pi}
	return c
}

func (e *Engine) newCancelCtx(parent value, mayExpire bool) (*ctxV, value) {
	c := e.newChildCtx(parent)
	c.done = e.newChan(0)
	if pc, ok := c.parent.v.(*ctxV); ok {
		// find nearest cancellable ancestor
		for p := pc; p != nil; {
			if p.done != nil {
				if p.done.closed {
					c.done.closed, c.err, c.cause = true, p.err, p.cause
				} else {
					p.children = append(p.children, c)
				}
				break
			}
			pp, ok := p.parent.v.(*ctxV)
			if !ok {
				break
			}
			p = pp
		}
	} else {
		// foreign parent: honour an already-cancelled parent; later cancellation is not propagated
		if d, ok := e.callMethod(c.parent, "Done").(*chanV); ok && d != nil && d.closed {
			c.done.closed = true
			c.err = e.callMethod(c.parent, "Err")
		}
	}
	if mayExpire && !c.done.closed {
		c.done.mayFire = true
		c.done.onFire = func() {
			c.cancel(e, e.ctxGlobalErr("DeadlineExceeded"), nil)
		}
	}
	cancel := &closure{Native: func(args []value) value {
		var cause value
		if len(args) > 0 {
			cause = args[0]
		}
		c.cancel(e, e.ctxGlobalErr("Canceled"), cause)
		return nil
	}}
	return c, cancel
}

func (e *Engine) contextIntrinsic(name string, fn *ssa.Function) (handler, bool) {
	switch name {
	case "context.Background", "context.TODO":
		return func(c *frame, f *ssa.Function, a []value) value { return e.ctxIface(&ctxV{}) }, true
	case "context.WithValue":
		return func(c *frame, f *ssa.Function, a []value) value {
			ch := e.newChildCtx(a[0])
			ch.key, ch.val = a[1], a[2]
			return e.ctxIface(ch)
		}, true
	case "context.WithCancel", "context.WithCancelCause":
		return func(c *frame, f *ssa.Function, a []value) value {
			ch, cancel := e.newCancelCtx(a[0], false)
			return tuple{e.ctxIface(ch), cancel}
		}, true
	case "context.WithTimeout", "context.WithDeadline", "context.WithTimeoutCause", "context.WithDeadlineCause":
		isTimeout := strings.Contains(name, "WithTimeout")
		return func(c *frame, f *ssa.Function, a []value) value {
			ch, cancel := e.newCancelCtx(a[0], true)
			if t, ok := a[1].(*Term); ok {
				at := t
				if isTimeout {
					at = AddX(e.timeNow(), t)
					if ch.done != nil {
						ch.done.due = e.dueIn(t)
					}
				}
				// an earlier inherited deadline wins
				if inh, ok := e.callMethod(a[0].(iface), "Deadline").(tuple); ok {
					if has, _ := inh[1].(*Term); has != nil && has.K && has.B {
						if pd, ok := inh[0].(*Term); ok {
							at = Ite(Lt(pd, at), pd, at)
						}
					}
				}
				ch.at = at
			}
			return tuple{e.ctxIface(ch), cancel}
		}, true
	case "context.WithoutCancel":
		return func(c *frame, f *ssa.Function, a []value) value {
			ch := e.newChildCtx(a[0])
			ch.done = nil
			// cut the cancellation chain but keep values: a done-less node whose Done() must be nil
			ch.done = &chanV{id: -1}
			return e.ctxIface(ch)
		}, true
	case "context.Cause":
		return func(c *frame, f *ssa.Function, a []value) value {
			if cv, ok := a[0].(iface).v.(*ctxV); ok {
				for p := cv; p != nil; {
					if p.done != nil {
						if p.done.closed {
							if ci, ok := p.cause.(iface); ok && ci.t != nil {
								return ci
							}
							return p.err
						}
						return iface{}
					}
					pp, ok := p.parent.v.(*ctxV)
					if !ok {
						break
					}
					p = pp
				}
				return iface{}
			}
			return e.callMethod(a[0].(iface), "Err")
		}, true
	case "context.AfterFunc":
		return func(c *frame, f *ssa.Function, a []value) value {
			return &closure{Native: func([]value) value { return True }}
		}, true
	}
	return nil, false
}

// ---------- time ----------

func (e *Engine) timeNow() *Term {
	t := e.internalInt("now", nil, nil)
	if e.nowLast != nil {
		e.ctx.Side = append(e.ctx.Side, &Term{Sort: SBool, S: "(<= " + e.nowLast.SMT() + " " + t.S + ")"})
	} else {
		e.ctx.Side = append(e.ctx.Side, &Term{Sort: SBool, S: "(<= 0 " + t.S + ")"})
	}
	// stay far away from the int64 nanosecond range ends: year 1970 .. 2200
	e.ctx.Side = append(e.ctx.Side, &Term{Sort: SBool, S: "(<= " + t.S + " 7258118400000000000)"})
	t.Lo, t.Hi = big.NewInt(0), new(big.Int).SetUint64(7258118400000000000)
	e.nowLast = t
	return t
}

func (e *Engine) durSub(a, b *Term) *Term {
	d := SubX(a, b)
	lo, hi := IntType{64, true}.Range()
	if d.K {
		return d
	}
	if !within(d, lo, hi) {
		if !e.Branch(And(Le(BigC(lo), d), Le(d, BigC(hi)))) {
			unsup("time.Sub saturation reachable")
		}
	}
	nd := &Term{Sort: SInt, S: d.SMT(), Lo: d.Lo, Hi: d.Hi}
	if nd.Lo == nil || nd.Lo.Cmp(lo) < 0 {
		nd.Lo = lo
	}
	if nd.Hi == nil || nd.Hi.Cmp(hi) > 0 {
		nd.Hi = hi
	}
	return nd
}

// dueIn is the virtual deadline of a timer armed now for duration d (nil if d is not concrete).
func (e *Engine) dueIn(d value) *big.Int {
	t, ok := d.(*Term)
	if !ok || !t.K {
		return nil
	}
	if e.vclock == nil {
		e.vclock = new(big.Int)
	}
	return new(big.Int).Add(e.vclock, t.C)
}

func (e *Engine) newTimer(f *ssa.Function) value {
	// *time.Timer / *time.Ticker: struct with exported field C; the channel may fire at any time.
	pt := f.Signature.Results().At(0).Type()
	p := new(value)
	*p = zero(deref(pt))
	st := (*p).(structure)
	ct := deref(pt).Underlying().(*types.Struct)
	ch := e.newChan(1)
	ch.mayFire = true
	ch.onFire = func() { ch.q = append(ch.q, e.timeNow()); ch.sent++ }
	for i := 0; i < ct.NumFields(); i++ {
		if ct.Field(i).Name() == "C" {
			st[i] = ch
		}
	}
	e.timers[p] = ch
	return p
}

func (e *Engine) timeIntrinsic(name string, fn *ssa.Function) (handler, bool) {
	T := func(v value) *Term { return v.(*Term) }
	switch name {
	case "time.Now":
		return func(c *frame, f *ssa.Function, a []value) value { return e.timeNow() }, true
	case "time.Since":
		return func(c *frame, f *ssa.Function, a []value) value { return e.durSub(e.timeNow(), T(a[0])) }, true
	case "time.Until":
		return func(c *frame, f *ssa.Function, a []value) value { return e.durSub(T(a[0]), e.timeNow()) }, true
	case "time.Unix":
		return func(c *frame, f *ssa.Function, a []value) value {
			return AddX(MulX(T(a[0]), IntC(1000000000)), T(a[1]))
		}, true
	case "time.UnixMilli":
		return func(c *frame, f *ssa.Function, a []value) value { return MulX(T(a[0]), IntC(1000000)) }, true
	case "time.UnixMicro":
		return func(c *frame, f *ssa.Function, a []value) value { return MulX(T(a[0]), IntC(1000)) }, true
	case "(time.Time).Sub":
		return func(c *frame, f *ssa.Function, a []value) value { return e.durSub(T(a[0]), T(a[1])) }, true
	case "(time.Time).Add":
		return func(c *frame, f *ssa.Function, a []value) value { return AddX(T(a[0]), T(a[1])) }, true
	case "(time.Time).Before":
		return func(c *frame, f *ssa.Function, a []value) value { return Lt(T(a[0]), T(a[1])) }, true
	case "(time.Time).After":
		return func(c *frame, f *ssa.Function, a []value) value { return Gt(T(a[0]), T(a[1])) }, true
	case "(time.Time).Equal":
		return func(c *frame, f *ssa.Function, a []value) value { return EqI(T(a[0]), T(a[1])) }, true
	case "(time.Time).Compare":
		return func(c *frame, f *ssa.Function, a []value) value {
			return Ite(Lt(T(a[0]), T(a[1])), IntC(-1), Ite(Gt(T(a[0]), T(a[1])), IntC(1), IntC(0)))
		}, true
	case "(time.Time).IsZero":
		return func(c *frame, f *ssa.Function, a []value) value { return EqI(T(a[0]), BigC(zeroTimeNS)) }, true
	case "(time.Time).UnixNano":
		return func(c *frame, f *ssa.Function, a []value) value { return e.ctx.Wrap(IntType{64, true}, T(a[0])) }, true
	case "(time.Time).UnixMilli", "(time.Time).UnixMicro", "(time.Time).Unix":
		return func(c *frame, f *ssa.Function, a []value) value {
			d := int64(1000000000)
			if name == "(time.Time).UnixMilli" {
				d = 1000000
			} else if name == "(time.Time).UnixMicro" {
				d = 1000
			}
			// floor division (instants before 1970 round down)
			t := T(a[0])
			if t.K {
				q := new(big.Int).Div(t.C, big.NewInt(d))
				return BigC(q)
			}
			qn, rn := e.ctx.freshInt("q"), e.ctx.freshInt("r")
			e.ctx.Side = append(e.ctx.Side, &Term{Sort: SBool, S: "(and (= " + t.SMT() + " (+ (* " + qn + " " + big.NewInt(d).String() + ") " + rn + ")) (<= 0 " + rn + ") (< " + rn + " " + big.NewInt(d).String() + "))"})
			q := symInt(qn, nil, nil)
			if t.Lo != nil {
				q.Lo = new(big.Int).Div(t.Lo, big.NewInt(d))
			}
			if t.Hi != nil {
				q.Hi = new(big.Int).Div(t.Hi, big.NewInt(d))
			}
			return q
		}, true
	case "(time.Time).UTC", "(time.Time).Local", "(time.Time).Round", "(time.Time).In":
		return func(c *frame, f *ssa.Function, a []value) value { return a[0] }, true
	case "(time.Time).Truncate":
		return func(c *frame, f *ssa.Function, a []value) value {
			d := T(a[1])
			if !d.K || d.C.Sign() <= 0 {
				return a[0]
			}
			t := T(a[0])
			// t - (t mod d) counted from the zero time; harness instants are multiples-agnostic: use Unix epoch
			_, r := e.ctx.QuoRem(t, d)
			return SubX(t, r)
		}, true
	case "(time.Time).String", "(time.Time).Format", "(time.Duration).String":
		return func(c *frame, f *ssa.Function, a []value) value { return "<time>" }, true
	case "time.Sleep":
		return func(c *frame, f *ssa.Function, a []value) value { e.sched.yield(); return nil }, true
	case "time.NewTimer", "time.NewTicker":
		return func(c *frame, f *ssa.Function, a []value) value {
			p := e.newTimer(f)
			e.timers[p.(*value)].due = e.dueIn(a[0])
			return p
		}, true
	case "time.After", "time.Tick":
		return func(c *frame, f *ssa.Function, a []value) value {
			ch := e.newChan(1)
			ch.due = e.dueIn(a[0])
			ch.mayFire = true
			ch.onFire = func() { ch.q = append(ch.q, e.timeNow()); ch.sent++ }
			return ch
		}, true
	case "time.AfterFunc":
		return func(c *frame, f *ssa.Function, a []value) value {
			// the callback may run at any later time: modelled as a goroutine that is started lazily
			p := e.newTimer(f)
			ch := e.timers[p.(*value)]
			fnv := a[1]
			ch.onFire = func() {}
			ch.mayFire = false
			e.afterFuncs = append(e.afterFuncs, &afterFunc{timer: ch, fn: fnv, armed: true})
			ch.af = e.afterFuncs[len(e.afterFuncs)-1]
			return p
		}, true
	case "(*time.Timer).Stop", "(*time.Ticker).Stop":
		return func(c *frame, f *ssa.Function, a []value) value {
			ch := e.timers[a[0].(*value)]
			if ch == nil {
				return retZero(f)
			}
			was := ch.mayFire
			if ch.af != nil {
				was = ch.af.armed
				ch.af.armed = false
			}
			ch.mayFire = false
			if f.Signature.Results().Len() == 0 {
				return nil
			}
			return BoolC(was)
		}, true
	case "(*time.Timer).Reset", "(*time.Ticker).Reset":
		return func(c *frame, f *ssa.Function, a []value) value {
			ch := e.timers[a[0].(*value)]
			if ch == nil {
				return retZero(f)
			}
			was := ch.mayFire
			if ch.af != nil {
				was = ch.af.armed
				ch.af.armed = true
			} else {
				ch.mayFire = true
			}
			if len(a) > 1 {
				ch.due = e.dueIn(a[1])
			}
			if f.Signature.Results().Len() == 0 {
				return nil
			}
			return BoolC(was)
		}, true
	}
	return nil, false
}

type afterFunc struct {
	timer *chanV
	fn    value
	armed bool
}
