package sx

import (
	"bufio"
	"fmt"
	"io"
	"os"
	"os/exec"
	"strings"
	"sync"
	"time"
)

// Solver is a portfolio of persistent incremental SMT processes (z3 -in, cvc5 --incremental) with a
// wall-clock watchdog and a one-shot fall-back. Definite answers are cached by the asserted text.
type Solver struct {
	procs    []*sproc
	decls    []string
	declSet  map[string]bool
	cache    map[string]string
	Log      io.Writer
	BudgetMs int // full per-query budget

	Queries   int
	CacheHits int
	OneShot   int
	Unknown   int
	Restarts  int
	Time      time.Duration
	BySolver  map[string]int
	CrossChk  int // queries re-asked to the other solver (thorough)
	Cross     bool
	Disagree  []string
}

type sproc struct {
	name     string
	argv     []string
	cmd      *exec.Cmd
	in       io.WriteCloser
	lines    chan string
	declSent int
	dead     bool
}

var solverMu sync.Mutex

func startProc(name string, argv []string) *sproc {
	p := &sproc{name: name, argv: argv}
	p.start()
	return p
}

func (p *sproc) start() {
	cmd := exec.Command(p.argv[0], p.argv[1:]...)
	in, _ := cmd.StdinPipe()
	out, _ := cmd.StdoutPipe()
	cmd.Stderr = nil
	if err := cmd.Start(); err != nil {
		p.dead = true
		return
	}
	p.cmd, p.in, p.dead, p.declSent = cmd, in, false, 0
	lines := make(chan string, 256)
	p.lines = lines
	go func() {
		r := bufio.NewReaderSize(out, 1<<20)
		for {
			l, err := r.ReadString('\n')
			if l != "" {
				lines <- strings.TrimSpace(l)
			}
			if err != nil {
				close(lines)
				return
			}
		}
	}()
	io.WriteString(p.in, "(set-option :produce-models true)\n(set-logic ALL)\n")
}

func (p *sproc) kill() {
	if p.cmd != nil && p.cmd.Process != nil {
		p.cmd.Process.Kill()
		go p.cmd.Wait()
	}
	p.dead = true
}

func (p *sproc) readLine(deadline time.Time) (string, bool) {
	d := time.Until(deadline)
	if d < 0 {
		d = 0
	}
	select {
	case l, ok := <-p.lines:
		if !ok {
			return "(error eof)", false
		}
		return l, true
	case <-time.After(d):
		return "timeout", false
	}
}

func NewSolver(budgetMs int) *Solver {
	s := &Solver{cache: map[string]string{}, declSet: map[string]bool{}, BudgetMs: budgetMs, BySolver: map[string]int{}}
	fast := 400
	if budgetMs < fast {
		fast = budgetMs
	}
	s.procs = []*sproc{
		startProc("z3", []string{"z3", "-in", fmt.Sprintf("-t:%d", fast)}),
		startProc("cvc5", []string{"cvc5", "--incremental", "--produce-models", "--lang=smt2", fmt.Sprintf("--tlimit-per=%d", budgetMs)}),
	}
	return s
}

func (s *Solver) Declare(d string) {
	if s.declSet[d] {
		return
	}
	s.declSet[d] = true
	s.decls = append(s.decls, d)
}

func (s *Solver) Close() {
	for _, p := range s.procs {
		if p.in != nil {
			p.in.Close()
		}
		p.kill()
	}
}

// ask runs one push/check/pop round on process p.
func (s *Solver) ask(p *sproc, body string, want []string, wall time.Duration) (string, map[string]string) {
	if p.dead {
		s.Restarts++
		p.start()
		if p.dead {
			return "error: cannot start " + p.name, nil
		}
	}
	var sb strings.Builder
	for _, d := range s.decls[p.declSent:] {
		sb.WriteString(d)
		sb.WriteByte('\n')
	}
	p.declSent = len(s.decls)
	sb.WriteString("(push)\n")
	sb.WriteString(body)
	sb.WriteString("(check-sat)\n")
	if s.Log != nil {
		fmt.Fprintf(s.Log, "; --- %s\n%s", p.name, sb.String())
	}
	if _, err := io.WriteString(p.in, sb.String()); err != nil {
		p.kill()
		return "error: write", nil
	}
	deadline := time.Now().Add(wall)
	res, ok := p.readLine(deadline)
	for ok && (res == "" || strings.HasPrefix(res, ";")) {
		res, ok = p.readLine(deadline)
	}
	if !ok || strings.HasPrefix(res, "(error") {
		p.kill()
		if res == "timeout" {
			return "unknown", nil
		}
		return "error: " + res, nil
	}
	var model map[string]string
	if res == "sat" && len(want) > 0 {
		io.WriteString(p.in, "(get-value ("+strings.Join(want, " ")+"))\n")
		depth, started := 0, false
		var buf strings.Builder
		for !started || depth > 0 {
			l, ok := p.readLine(time.Now().Add(20 * time.Second))
			if !ok || strings.HasPrefix(l, "(error") {
				p.kill()
				return "error: model " + l, nil
			}
			buf.WriteString(l + " ")
			for _, ch := range l {
				if ch == '(' {
					depth++
					started = true
				} else if ch == ')' {
					depth--
				}
			}
		}
		model = map[string]string{}
		parseModel(buf.String(), want, model)
	}
	io.WriteString(p.in, "(pop)\n")
	return res, model
}

// Check returns "sat", "unsat", or "unknown"/"error: ..." for the conjunction of asserts.
func (s *Solver) Check(asserts []*Term, want []string) (string, map[string]string) {
	var sb strings.Builder
	seen := map[string]bool{}
	for _, a := range asserts {
		if a.K {
			if !a.B {
				return "unsat", nil
			}
			continue
		}
		if seen[a.S] {
			continue
		}
		seen[a.S] = true
		sb.WriteString("(assert ")
		sb.WriteString(a.S)
		sb.WriteString(")\n")
	}
	key := sb.String()
	if len(want) == 0 {
		if r, ok := s.cache[key]; ok {
			s.CacheHits++
			return r, nil
		}
	}
	t0 := time.Now()
	s.Queries++
	res, model := "unknown", map[string]string(nil)
	full := time.Duration(s.BudgetMs)*time.Millisecond + 2*time.Second
	hasFP := strings.Contains(key, "fp.") || strings.Contains(key, "to_fp")
	for i, p := range s.procs {
		wall := full
		if i == 0 {
			if hasFP {
				continue // floating point mixed with integers: z3 4.8 does not answer, cvc5 does (probed)
			}
			wall = 3 * time.Second
		}
		r, m := s.ask(p, key, want, wall)
		if r == "sat" || r == "unsat" {
			res, model = r, m
			s.BySolver[p.name]++
			if s.Cross && i == 0 {
				s.CrossChk++
				r2, _ := s.ask(s.procs[1], key, nil, full)
				if (r2 == "sat" || r2 == "unsat") && r2 != r {
					s.Disagree = append(s.Disagree, fmt.Sprintf("z3=%s cvc5=%s on %.200s", r, r2, key))
				}
			}
			break
		}
	}
	if res != "sat" && res != "unsat" {
		res, model = s.oneShot(key, want)
	}
	if res != "sat" && res != "unsat" {
		s.Unknown++
		if os.Getenv("VERIF_DUMP_UNKNOWN") != "" {
			f, _ := os.CreateTemp("", "unknown-*.smt2")
			for _, d := range s.decls {
				fmt.Fprintln(f, d)
			}
			fmt.Fprint(f, key, "(check-sat)\n")
			f.Close()
		}
	}
	s.Time += time.Since(t0)
	if len(want) == 0 && (res == "sat" || res == "unsat") {
		s.cache[key] = res
	}
	return res, model
}

// parseModel reads the answer of (get-value (t1 .. tn)): ((t1 v1) ... (tn vn)); values are matched
// positionally with want so that compound terms (select ...) work as well as names.
func parseModel(txt string, want []string, m map[string]string) {
	txt = strings.TrimSpace(txt)
	if len(txt) < 2 {
		return
	}
	txt = txt[1 : len(txt)-1]
	i, k := 0, 0
	for i < len(txt) && k < len(want) {
		if txt[i] != '(' {
			i++
			continue
		}
		d, j := 0, i
		for ; j < len(txt); j++ {
			if txt[j] == '(' {
				d++
			} else if txt[j] == ')' {
				d--
				if d == 0 {
					break
				}
			}
		}
		pair := strings.TrimSpace(txt[i+1 : j])
		// the value is the last s-expression of the pair
		val := lastSexp(pair)
		val = strings.ReplaceAll(strings.ReplaceAll(strings.ReplaceAll(val, "(- ", "-"), ")", ""), " ", "")
		m[want[k]] = val
		k++
		i = j + 1
	}
}

func lastSexp(s string) string {
	s = strings.TrimSpace(s)
	if s == "" {
		return s
	}
	if s[len(s)-1] != ')' {
		if i := strings.LastIndexAny(s, " )"); i >= 0 {
			return s[i+1:]
		}
		return s
	}
	d := 0
	for j := len(s) - 1; j >= 0; j-- {
		if s[j] == ')' {
			d++
		} else if s[j] == '(' {
			d--
			if d == 0 {
				return s[j:]
			}
		}
	}
	return s
}

func (s *Solver) oneShot(asserts string, want []string) (string, map[string]string) {
	s.OneShot++
	var sb strings.Builder
	sb.WriteString("(set-option :produce-models true)\n(set-logic ALL)\n")
	for _, d := range s.decls {
		sb.WriteString(d + "\n")
	}
	sb.WriteString(asserts + "(check-sat)\n")
	if len(want) > 0 {
		sb.WriteString("(get-value (" + strings.Join(want, " ") + "))\n")
	}
	secs := s.BudgetMs/1000 + 1
	type ans struct {
		res   string
		model map[string]string
		who   string
	}
	ch := make(chan ans, 3)
	cmds := [][]string{
		{"z3", "-in", fmt.Sprintf("-T:%d", secs)},
		{"cvc5", "--produce-models", fmt.Sprintf("--tlimit=%d", secs*1000), "--lang=smt2", "-"},
		{"z3-new", "-in", fmt.Sprintf("-T:%d", secs)},
	}
	var running []*exec.Cmd
	for _, argv := range cmds {
		cmd := exec.Command(argv[0], argv[1:]...)
		cmd.Stdin = strings.NewReader(sb.String())
		running = append(running, cmd)
		go func(cmd *exec.Cmd, who string) {
			out, _ := cmd.Output()
			txt := strings.TrimSpace(string(out))
			parts := strings.SplitN(txt, "\n", 2)
			first := parts[0]
			if strings.Contains(txt, "(error") && first != "unsat" {
				ch <- ans{"unknown", nil, who}
				return
			}
			if first == "unsat" {
				ch <- ans{"unsat", nil, who}
				return
			}
			if first == "sat" {
				m := map[string]string{}
				if len(want) > 0 && len(parts) == 2 {
					parseModel(parts[1], want, m)
				}
				ch <- ans{"sat", m, who}
				return
			}
			ch <- ans{"unknown", nil, who}
		}(cmd, argv[0])
	}
	res := ans{"unknown", nil, ""}
	timeout := time.After(time.Duration(secs+5) * time.Second)
	for i := 0; i < len(cmds); i++ {
		select {
		case a := <-ch:
			if a.res == "sat" || a.res == "unsat" {
				res = a
				i = len(cmds)
			}
		case <-timeout:
			i = len(cmds)
		}
	}
	for _, c := range running {
		if c.Process != nil {
			c.Process.Kill()
		}
	}
	if res.who != "" {
		s.BySolver[res.who+"-oneshot"]++
	}
	return res.res, res.model
}
