package sx

import (
	"fmt"
	"go/token"
	"go/types"
	"math/big"

	"golang.org/x/tools/go/ssa"
)

type value interface{}
type tuple []value
type array []value
type structure []value
type iface struct {
	t types.Type
	v value
}
type closure struct {
	Fn     *ssa.Function
	Env    []value
	Native func(args []value) value // engine-implemented function value (cancel funcs, timers ...)
}
type poison struct{ why string }

type mapV struct {
	keys []value
	vals []value
	kt   types.Type
}

type iter interface{ next() tuple }

type unsupported struct{ what string }

func (u unsupported) Error() string { return "unsupported: " + u.what }

type targetPanic struct{ v value }

func unsup(f string, a ...interface{}) { panic(unsupported{fmt.Sprintf(f, a...)}) }

func intTypeOf(t types.Type) (IntType, bool) {
	b, ok := t.Underlying().(*types.Basic)
	if !ok {
		return IntType{}, false
	}
	switch b.Kind() {
	case types.Int, types.Int64, types.UntypedInt, types.UntypedRune:
		return IntType{64, true}, true
	case types.Int32:
		return IntType{32, true}, true
	case types.Int16:
		return IntType{16, true}, true
	case types.Int8:
		return IntType{8, true}, true
	case types.Uint, types.Uint64, types.Uintptr:
		return IntType{64, false}, true
	case types.Uint32:
		return IntType{32, false}, true
	case types.Uint16:
		return IntType{16, false}, true
	case types.Uint8:
		return IntType{8, false}, true
	}
	return IntType{}, false
}

func isBool(t types.Type) bool {
	b, ok := t.Underlying().(*types.Basic)
	return ok && b.Info()&types.IsBoolean != 0
}

func deref(t types.Type) types.Type {
	if p, ok := t.Underlying().(*types.Pointer); ok {
		return p.Elem()
	}
	panic("deref of non-pointer " + t.String())
}

func isTimeType(t types.Type) bool {
	n, ok := t.(*types.Named)
	return ok && n.Obj().Pkg() != nil && n.Obj().Pkg().Path() == "time" && n.Obj().Name() == "Time"
}

// zero time.Time is a sentinel far below every instant used by harnesses
var zeroTimeNS = new(big.Int).Neg(new(big.Int).Lsh(big.NewInt(1), 80))

func zero(t types.Type) value {
	if isTimeType(t) {
		return BigC(zeroTimeNS)
	}
	switch u := t.Underlying().(type) {
	case *types.Basic:
		if u.Kind() == types.UntypedNil {
			return nil
		}
		if _, ok := intTypeOf(t); ok {
			return IntC(0)
		}
		if isBool(t) {
			return False
		}
		if u.Info()&types.IsString != 0 {
			return ""
		}
		if u.Info()&types.IsFloat != 0 {
			return float64(0)
		}
		if u.Kind() == types.UnsafePointer {
			return nil
		}
		unsup("zero of %s", t)
	case *types.Pointer:
		return (*value)(nil)
	case *types.Array:
		a := make(array, u.Len())
		for i := range a {
			a[i] = zero(u.Elem())
		}
		return a
	case *types.Slice:
		return []value(nil)
	case *types.Struct:
		s := make(structure, u.NumFields())
		for i := range s {
			s[i] = zero(u.Field(i).Type())
		}
		return s
	case *types.Tuple:
		if u.Len() == 1 {
			return zero(u.At(0).Type())
		}
		s := make(tuple, u.Len())
		for i := range s {
			s[i] = zero(u.At(i).Type())
		}
		return s
	case *types.Chan:
		return (*chanV)(nil)
	case *types.Map:
		return (*mapV)(nil)
	case *types.Signature:
		return (*ssa.Function)(nil)
	case *types.Interface:
		return iface{}
	}
	unsup("zero of %T %s", t.Underlying(), t)
	return nil
}

type chanV struct {
	q       []value
	cap     int
	closed  bool
	sent    int // number of values ever enqueued
	taken   int // number of values ever dequeued
	waiters int // goroutines currently blocked receiving
	id      int
	mayFire bool     // timer / deadline channel: may become ready at any moment
	due     *big.Int // virtual instant at which it is due (nil: unknown duration, may fire at any idle moment)
	onFire  func()   // what firing does (push an instant / cancel the context)
	af      *afterFunc
}

// fire makes a may-fire channel ready (called when the explorer decides that the timer fires now).
func (c *chanV) fire() {
	if c.mayFire && len(c.q) == 0 && !c.closed {
		c.mayFire = false
		if c.onFire != nil {
			c.onFire()
		}
	}
}

func copyVal(v value) value {
	switch v := v.(type) {
	case array:
		a := make(array, len(v))
		for i := range v {
			a[i] = copyVal(v[i])
		}
		return a
	case structure:
		a := make(structure, len(v))
		for i := range v {
			a[i] = copyVal(v[i])
		}
		return a
	}
	return v
}

func load(addr *value) value { return copyVal(*addr) }

// store writes v into *addr field-wise, so that pointers previously taken to fields or elements of
// the destination stay valid (as in go/ssa/interp).
func store(addr *value, v value) {
	switch rhs := v.(type) {
	case structure:
		if lhs, ok := (*addr).(structure); ok && len(lhs) == len(rhs) {
			for i := range lhs {
				store(&lhs[i], rhs[i])
			}
			return
		}
	case array:
		if lhs, ok := (*addr).(array); ok && len(lhs) == len(rhs) {
			for i := range lhs {
				store(&lhs[i], rhs[i])
			}
			return
		}
	}
	*addr = copyVal(v)
}

func constValue(c *ssa.Const) value {
	if c.Value == nil {
		return zero(c.Type())
	}
	t := c.Type()
	if _, ok := intTypeOf(t); ok {
		n, ok := new(big.Int).SetString(c.Value.ExactString(), 10)
		if !ok {
			// may be a float-formatted exact int
			i64 := c.Int64()
			n = big.NewInt(i64)
		}
		return BigC(n)
	}
	if isBool(t) {
		return BoolC(c.Value.String() == "true")
	}
	if b, ok := t.Underlying().(*types.Basic); ok {
		if b.Info()&types.IsString != 0 {
			return constantString(c)
		}
		if b.Info()&types.IsFloat != 0 {
			return c.Float64()
		}
	}
	unsup("const of type %s", t)
	return nil
}

// equalsT returns a Bool term for x == y at static type t.
func (e *Engine) equalsT(t types.Type, x, y value) *Term {
	if isTimeType(t) {
		return EqI(x.(*Term), y.(*Term))
	}
	switch u := t.Underlying().(type) {
	case *types.Basic:
		if _, ok := intTypeOf(t); ok {
			return EqI(x.(*Term), y.(*Term))
		}
		if isBool(t) {
			return EqB(x.(*Term), y.(*Term))
		}
		if u.Info()&types.IsString != 0 {
			xs, ok1 := x.(string)
			ys, ok2 := y.(string)
			if ok1 && ok2 {
				return BoolC(xs == ys)
			}
			a, b := e.asStrS(x), e.asStrS(y)
			return e.seqEq(a.arr, a.off, a.len, b.arr, b.off, b.len)
		}
		if u.Info()&types.IsFloat != 0 {
			if isSymFloat(x) || isSymFloat(y) {
				return fpBinop(token.EQL, x, y).(*Term)
			}
			return BoolC(x.(float64) == y.(float64))
		}
		if u.Kind() == types.UnsafePointer || u.Kind() == types.UntypedNil {
			return BoolC(x == y)
		}
	case *types.Pointer:
		return BoolC(x.(*value) == y.(*value))
	case *types.Struct:
		r := True
		xs, ys := x.(structure), y.(structure)
		for i := range xs {
			r = And(r, e.equalsT(u.Field(i).Type(), xs[i], ys[i]))
		}
		return r
	case *types.Array:
		r := True
		xs, ys := x.(array), y.(array)
		for i := range xs {
			r = And(r, e.equalsT(u.Elem(), xs[i], ys[i]))
		}
		return r
	case *types.Interface:
		xi, yi := x.(iface), y.(iface)
		if xi.t == nil || yi.t == nil {
			return BoolC(xi.t == nil && yi.t == nil)
		}
		if !types.Identical(xi.t, yi.t) {
			return False
		}
		if _, ok := xi.v.(builtinObj); ok { // engine-side objects (contexts, reflect types): identity
			return BoolC(xi.v == yi.v)
		}
		return e.equalsT(xi.t, xi.v, yi.v)
	case *types.Chan:
		return BoolC(x.(*chanV) == y.(*chanV))
	case *types.Map:
		return BoolC(x.(*mapV) == nil && y.(*mapV) == nil)
	case *types.Slice:
		isNil := func(v value) bool {
			if s, ok := v.([]value); ok {
				return s == nil
			}
			return v == nil
		}
		return BoolC(isNil(x) && isNil(y))
	case *types.Signature:
		return BoolC(isNilFunc(x) && isNilFunc(y))
	}
	unsup("equals at type %s", t)
	return nil
}

func isNilFunc(x value) bool {
	switch f := x.(type) {
	case *ssa.Function:
		return f == nil
	case *closure:
		return f == nil
	case nil:
		return true
	}
	return false
}
