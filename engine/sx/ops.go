package sx

import (
	"fmt"
	"go/token"
	"go/types"
	"math"
	"math/big"

	"golang.org/x/tools/go/ssa"
)

func pow2(k uint) *big.Int { return new(big.Int).Lsh(big.NewInt(1), k) }

// toU maps a value of integer type it to its unsigned representation in [0, 2^bits).
func (e *Engine) toU(it IntType, a *Term) *Term {
	if !it.Signed || (a.Lo != nil && a.Lo.Sign() >= 0) {
		return a
	}
	if a.K {
		return BigC(toUnsigned(it, a.C))
	}
	t := Ite(Lt(a, IntC(0)), AddX(a, BigC(it.Mod())), a)
	t.Lo, t.Hi = big.NewInt(0), new(big.Int).Sub(it.Mod(), big.NewInt(1))
	return t
}

// andMask computes u & mask for 0 <= u < 2^bits and a constant mask, as a linear term over runs of ones.
func (e *Engine) andMask(u *Term, mask *big.Int, bits int) *Term {
	res := IntC(0)
	i := 0
	for i < bits {
		if mask.Bit(i) == 0 {
			i++
			continue
		}
		j := i
		for j < bits && mask.Bit(j) == 1 {
			j++
		}
		// run [i, j)
		part := u
		if i > 0 {
			part, _ = e.ctx.QuoRem(part, BigC(pow2(uint(i))))
		}
		if j < bits {
			_, part = e.ctx.QuoRem(part, BigC(pow2(uint(j-i))))
		}
		if i > 0 {
			part = MulX(part, BigC(pow2(uint(i))))
		}
		res = AddX(res, part)
		i = j
	}
	if res.Lo == nil || res.Lo.Sign() < 0 {
		res.Lo = big.NewInt(0)
	}
	if res.Hi == nil || res.Hi.Cmp(mask) > 0 {
		res.Hi = mask
	}
	return res
}

func (e *Engine) bitop(op token.Token, it IntType, a, b *Term) *Term {
	if a.K && b.K {
		ua, ub := toUnsigned(it, a.C), toUnsigned(it, b.C)
		var r *big.Int
		switch op {
		case token.AND:
			r = new(big.Int).And(ua, ub)
		case token.OR:
			r = new(big.Int).Or(ua, ub)
		case token.XOR:
			r = new(big.Int).Xor(ua, ub)
		default:
			r = new(big.Int).AndNot(ua, ub)
		}
		return BigC(wrapConst(it, r))
	}
	if op == token.OR {
		for _, p := range [][2]*Term{{a, b}, {b, a}} {
			lo, hiT := p[0], p[1]
			if hiT.Align > 0 && lo.Lo != nil && lo.Lo.Sign() >= 0 && lo.Hi != nil && lo.Hi.BitLen() <= hiT.Align {
				return e.ctx.Wrap(it, AddX(lo, hiT)) // disjoint bits: | is +
			}
		}
	}
	if a.K && (op == token.AND || op == token.OR || op == token.XOR) {
		a, b = b, a
	}
	if b.K {
		ua := e.toU(it, a)
		mask := toUnsigned(it, b.C)
		and := e.andMask(ua, mask, it.Bits)
		var r *Term
		switch op {
		case token.AND:
			r = and
		case token.OR:
			r = SubX(AddX(ua, BigC(mask)), and)
		case token.XOR:
			r = SubX(AddX(ua, BigC(mask)), MulX(and, IntC(2)))
		default: // AND_NOT
			r = SubX(ua, and)
		}
		return e.ctx.Wrap(it, r)
	}
	// symbolic o symbolic: bit-vector round trip at the operand width
	ua, ub := e.toU(it, a), e.toU(it, b)
	var f string
	switch op {
	case token.AND:
		f = "bvand"
	case token.OR:
		f = "bvor"
	case token.XOR:
		f = "bvxor"
	default:
		f = "bvand"
	}
	bs := fmt.Sprintf("((_ int2bv %d) %s)", it.Bits, ub.SMT())
	if op == token.AND_NOT {
		bs = "(bvnot " + bs + ")"
	}
	n := e.ctx.freshInt("bv")
	e.ctx.Side = append(e.ctx.Side, &Term{Sort: SBool, S: fmt.Sprintf("(= %s (bv2nat (%s ((_ int2bv %d) %s) %s)))", n, f, it.Bits, ua.SMT(), bs)})
	r := symInt(n, big.NewInt(0), new(big.Int).Sub(it.Mod(), big.NewInt(1)))
	e.ctx.Side = append(e.ctx.Side, rawRange(n, r.Lo, r.Hi))
	return e.ctx.Wrap(it, r)
}

func (e *Engine) shift(op token.Token, it IntType, a, b *Term) *Term {
	if !b.K {
		// symbolic amount: small ite chain
		if b.Lo == nil || b.Hi == nil || b.Lo.Sign() < 0 || b.Hi.Cmp(big.NewInt(64)) > 0 {
			if !e.Branch(And(Le(IntC(0), b), Le(b, IntC(int64(it.Bits))))) {
				if e.Branch(Lt(b, IntC(0))) {
					panic(targetPanic{"negative shift amount"})
				}
				// shift >= width
				if op == token.SHL || !it.Signed {
					return IntC(0)
				}
				return Ite(Lt(a, IntC(0)), IntC(-1), IntC(0))
			}
		}
		n := e.concInt(b, it.Bits+1, "shift amount")
		b = IntC(int64(n))
	}
	if b.C.Sign() < 0 {
		panic(targetPanic{"negative shift amount"})
	}
	k := uint(b.C.Uint64())
	if b.C.Cmp(big.NewInt(int64(it.Bits))) >= 0 {
		if op == token.SHL || !it.Signed {
			return IntC(0)
		}
		return Ite(Lt(a, IntC(0)), IntC(-1), IntC(0))
	}
	if op == token.SHL {
		r := e.ctx.Wrap(it, MulX(a, BigC(pow2(k))))
		if !r.K {
			cp := *r
			cp.Align = int(k)
			r = &cp
		}
		return r
	}
	if a.K {
		return BigC(new(big.Int).Rsh(a.C, k)) // big.Int Rsh is arithmetic (floor) for negatives
	}
	if k == 0 {
		return a
	}
	// floor division by 2^k (arithmetic shift)
	d := pow2(k)
	if a.Lo != nil && a.Lo.Sign() >= 0 {
		q, _ := e.ctx.QuoRem(a, BigC(d))
		return q
	}
	qn, rn := e.ctx.freshInt("q"), e.ctx.freshInt("r")
	e.ctx.Side = append(e.ctx.Side, &Term{Sort: SBool, S: fmt.Sprintf("(and (= %s (+ (* %s %s) %s)) (<= 0 %s) (< %s %s))", a.SMT(), qn, d.String(), rn, rn, rn, d.String())})
	q := symInt(qn, nil, nil)
	lo, hi := it.Range()
	q.Lo, q.Hi = lo, hi
	return q
}

func (e *Engine) binop(op token.Token, t types.Type, x, y value) value {
	if it, ok := intTypeOf(t); ok {
		a, b := x.(*Term), y.(*Term)
		switch op {
		case token.ADD:
			return e.ctx.Wrap(it, AddX(a, b))
		case token.SUB:
			return e.ctx.Wrap(it, SubX(a, b))
		case token.MUL:
			return e.ctx.Wrap(it, e.ctx.Mul(a, b))
		case token.QUO, token.REM:
			if e.Branch(EqI(b, IntC(0))) {
				panic(targetPanic{"integer divide by zero"})
			}
			lo, hi := it.Range()
			if it.Signed && !(a.Lo != nil && a.Lo.Cmp(lo) > 0) && !(b.Lo != nil && b.Lo.Sign() >= 0) && e.Branch(And(EqI(a, BigC(lo)), EqI(b, IntC(-1)))) {
				if op == token.QUO {
					return BigC(lo) // MinInt / -1 wraps
				}
				return IntC(0)
			}
			q, r := e.ctx.QuoRem(a, b)
			if op == token.QUO {
				if !q.K {
					if q.Lo == nil || q.Lo.Cmp(lo) < 0 {
						q.Lo = lo
					}
					if q.Hi == nil || q.Hi.Cmp(hi) > 0 {
						q.Hi = hi
					}
				}
				return q
			}
			return r
		case token.EQL:
			return EqI(a, b)
		case token.NEQ:
			return Not(EqI(a, b))
		case token.LSS:
			return Lt(a, b)
		case token.LEQ:
			return Le(a, b)
		case token.GTR:
			return Gt(a, b)
		case token.GEQ:
			return Ge(a, b)
		case token.SHL, token.SHR:
			return e.shift(op, it, a, b)
		case token.AND, token.OR, token.XOR, token.AND_NOT:
			return e.bitop(op, it, a, b)
		}
		unsup("int binop %s", op)
	}
	if isBool(t) {
		a, b := x.(*Term), y.(*Term)
		switch op {
		case token.EQL:
			return EqB(a, b)
		case token.NEQ:
			return Not(EqB(a, b))
		case token.LAND, token.AND:
			return And(a, b)
		case token.LOR, token.OR:
			return Or(a, b)
		}
	}
	switch op {
	case token.EQL:
		return e.equalsT(t, x, y)
	case token.NEQ:
		return Not(e.equalsT(t, x, y))
	}
	if b, ok := t.Underlying().(*types.Basic); ok {
		if b.Info()&types.IsString != 0 {
			xs, ok1 := x.(string)
			ys, ok2 := y.(string)
			if ok1 && ok2 {
				switch op {
				case token.ADD:
					return xs + ys
				case token.LSS:
					return BoolC(xs < ys)
				case token.LEQ:
					return BoolC(xs <= ys)
				case token.GTR:
					return BoolC(xs > ys)
				case token.GEQ:
					return BoolC(xs >= ys)
				}
			}
			if op == token.ADD {
				a, b := e.asStrS(x), e.asStrS(y)
				na := &symArr{node: a.arr.node, elem: a.arr.elem}
				// result = a ++ b, built on a fresh array
				r := e.constArr(IntType{8, false}, IntC(0))
				r.copyInto(IntC(0), na.node, a.off, a.len)
				r.copyInto(a.len, b.arr.node, b.off, b.len)
				return strS{r, IntC(0), AddX(a.len, b.len)}
			}
		}
		if b.Info()&types.IsFloat != 0 {
			if isSymFloat(x) || isSymFloat(y) {
				if b.Kind() != types.Float64 && b.Kind() != types.UntypedFloat {
					unsup("symbolic float32 arithmetic")
				}
				return fpBinop(op, x, y)
			}
			xf, yf := x.(float64), y.(float64)
			switch op {
			case token.ADD:
				return xf + yf
			case token.SUB:
				return xf - yf
			case token.MUL:
				return xf * yf
			case token.QUO:
				return xf / yf
			case token.LSS:
				return BoolC(xf < yf)
			case token.LEQ:
				return BoolC(xf <= yf)
			case token.GTR:
				return BoolC(xf > yf)
			case token.GEQ:
				return BoolC(xf >= yf)
			}
		}
	}
	unsup("binop %s at %s", op, t)
	return nil
}

func (e *Engine) asStrS(x value) strS {
	switch x := x.(type) {
	case strS:
		return x
	case string:
		return e.strToSym(x)
	}
	unsup("asStrS %T", x)
	return strS{}
}

func toUnsigned(it IntType, v *big.Int) *big.Int {
	if v.Sign() < 0 {
		return new(big.Int).Add(v, it.Mod())
	}
	return v
}

func (e *Engine) unop(instr *ssa.UnOp, x value) value {
	switch instr.Op {
	case token.ARROW:
		return e.chanRecv(x.(*chanV), instr.CommaOk, instr.X.Type().Underlying().(*types.Chan).Elem())
	case token.SUB:
		if f, ok := x.(float64); ok {
			return -f
		}
		if f, ok := x.(floatS); ok {
			return floatS{"(fp.neg " + f.s + ")"}
		}
		it, _ := intTypeOf(instr.Type())
		return e.ctx.Wrap(it, SubX(IntC(0), x.(*Term)))
	case token.MUL:
		if ep, ok := x.(elemPtr); ok {
			return e.sel(ep.arr, ep.idx)
		}
		p, ok := x.(*value)
		if !ok {
			unsup("load through %T", x)
		}
		if p == nil {
			panic(targetPanic{"nil pointer dereference"})
		}
		return load(p)
	case token.NOT:
		return Not(x.(*Term))
	case token.XOR:
		it, _ := intTypeOf(instr.Type())
		if it.Signed {
			return e.ctx.Wrap(it, SubX(IntC(-1), x.(*Term)))
		}
		_, hi := it.Range()
		return SubX(BigC(hi), x.(*Term))
	}
	unsup("unop %s", instr.Op)
	return nil
}

func isStringT(t types.Type) bool {
	b, ok := t.Underlying().(*types.Basic)
	return ok && b.Info()&types.IsString != 0
}

func (e *Engine) conv(tdst, tsrc types.Type, x value) value {
	if dt, ok := intTypeOf(tdst); ok {
		if _, ok := intTypeOf(tsrc); ok {
			return e.ctx.Wrap(dt, x.(*Term))
		}
		if f, ok := x.(float64); ok {
			return e.ctx.Wrap(dt, BigC(big.NewInt(int64(f))))
		}
		if f, ok := x.(floatS); ok {
			// Go truncates toward zero; the value is assumed representable (out of range is implementation-defined)
			k := e.ctx.freshInt("f2i")
			e.ctx.Side = append(e.ctx.Side, &Term{Sort: SBool, S: fmt.Sprintf("(= %s (to_int (fp.to_real (fp.roundToIntegral RTZ %s))))", k, f.s)})
			return e.ctx.Wrap(dt, symInt(k, nil, nil))
		}
	}
	ud, us := tdst.Underlying(), tsrc.Underlying()
	if bd, ok := ud.(*types.Basic); ok && bd.Info()&types.IsFloat != 0 {
		if _, ok := intTypeOf(tsrc); ok {
			t := x.(*Term)
			if !t.K {
				if bd.Kind() != types.Float64 {
					unsup("float32(symbolic int)")
				}
				// IEEE-754 binary64, round to nearest even - what the hardware conversion does
				return floatS{"((_ to_fp 11 53) RNE (to_real " + t.SMT() + "))"}
			}
			f, _ := new(big.Float).SetInt(t.C).Float64()
			return f
		}
		if f, ok := x.(float64); ok {
			if bd.Kind() == types.Float32 {
				return float64(float32(f))
			}
			return f
		}
		if f, ok := x.(floatS); ok {
			if bd.Kind() == types.Float32 {
				unsup("float32(symbolic float)")
			}
			return f
		}
	}
	if isStringT(tdst) {
		if isStringT(tsrc) {
			return x
		}
		if sl, ok := us.(*types.Slice); ok {
			if it, ok := intTypeOf(sl.Elem()); ok && it.Bits == 32 { // string([]rune)
				xs, _ := x.([]value)
				rs := make([]rune, len(xs))
				for i, v := range xs {
					t := v.(*Term)
					if !t.K {
						unsup("string([]rune) of symbolic runes")
					}
					rs[i] = rune(t.C.Int64())
				}
				return string(rs)
			}
			if _, ok := intTypeOf(sl.Elem()); ok {
				switch xs := x.(type) {
				case sliceS:
					return strS{&symArr{node: xs.arr.node, elem: xs.arr.elem}, xs.off, xs.len}
				case []value:
					b := make([]byte, len(xs))
					allK := true
					for i, v := range xs {
						t := v.(*Term)
						if !t.K {
							allK = false
							break
						}
						b[i] = byte(t.C.Int64())
					}
					if allK {
						return string(b)
					}
					s := e.toSym(xs, IntType{8, false})
					return strS{s.arr, s.off, s.len}
				case nil:
					return ""
				}
			}
		}
		if _, ok := intTypeOf(tsrc); ok { // string(rune)
			t := x.(*Term)
			if t.K {
				return string(rune(t.C.Int64()))
			}
			unsup("string(symbolic rune)")
		}
	}
	if sl, ok := ud.(*types.Slice); ok && isStringT(tsrc) {
		if it, ok := intTypeOf(sl.Elem()); ok && it.Bits == 32 { // []rune(string)
			str, isK := x.(string)
			if !isK {
				unsup("[]rune(symbolic string)")
			}
			var out []value
			for _, r := range str {
				out = append(out, IntC(int64(r)))
			}
			return out
		}
		if it, ok := intTypeOf(sl.Elem()); ok && it.Bits == 8 {
			switch s := x.(type) {
			case string:
				r := make([]value, len(s))
				for i := 0; i < len(s); i++ {
					r[i] = IntC(int64(s[i]))
				}
				return r
			case strS:
				na := e.constArr(it, IntC(0))
				na.copyInto(IntC(0), s.arr.node, s.off, s.len)
				return sliceS{na, IntC(0), s.len, s.len}
			}
		}
	}
	if _, ok := ud.(*types.Pointer); ok {
		if x == nil { // zero unsafe.Pointer -> typed nil pointer
			return (*value)(nil)
		}
		return x
	}
	if bd, ok := ud.(*types.Basic); ok && bd.Kind() == types.UnsafePointer {
		if p, isP := x.(*value); isP && p == nil {
			return nil
		}
		return x
	}
	if types.Identical(ud, us) {
		return x
	}
	unsup("conv %s -> %s", tsrc, tdst)
	return nil
}

// symEq compares two byte sequences (sym or concrete) for equality.
func (e *Engine) seqEq(aArr *symArr, aOff, aLen *Term, bArr *symArr, bOff, bLen *Term) *Term {
	lenEq := EqI(aLen, bLen)
	if lenEq.K && !lenEq.B {
		return False
	}
	var n int
	switch {
	case aLen.K:
		n = int(aLen.C.Int64())
	case bLen.K:
		n = int(bLen.C.Int64())
	default:
		if !e.Branch(lenEq) {
			return False
		}
		n = e.concInt(aLen, 4096, "seqEq length")
		lenEq = True
	}
	r := lenEq
	for i := 0; i < n; i++ {
		r = And(r, EqI(e.sel(aArr, AddX(aOff, IntC(int64(i)))), e.sel(bArr, AddX(bOff, IntC(int64(i))))))
	}
	return r
}

func (e *Engine) asSliceS(x value) (sliceS, bool) {
	switch x := x.(type) {
	case sliceS:
		return x, true
	case []value:
		for _, v := range x {
			if _, ok := v.(*Term); !ok {
				return sliceS{}, false
			}
		}
		return e.toSym(x, IntType{8, false}), true
	case nil:
		return e.toSym(nil, IntType{8, false}), true
	}
	return sliceS{}, false
}

func (e *Engine) callBuiltin(caller *frame, fn *ssa.Builtin, args []value, cc *ssa.CallCommon) value {
	switch fn.Name() {
	case "len":
		switch x := args[0].(type) {
		case sliceS:
			return x.len
		case strS:
			return x.len
		case string:
			return IntC(int64(len(x)))
		case []value:
			return IntC(int64(len(x)))
		case array:
			return IntC(int64(len(x)))
		case *value:
			return IntC(int64(len((*x).(array))))
		case *mapV:
			if x == nil {
				return IntC(0)
			}
			return IntC(int64(len(x.keys)))
		case *chanV:
			if x == nil {
				return IntC(0)
			}
			return IntC(int64(len(x.q)))
		case nil:
			return IntC(0)
		}
	case "cap":
		switch x := args[0].(type) {
		case sliceS:
			return x.cap
		case []value:
			return IntC(int64(cap(x)))
		case array:
			return IntC(int64(len(x)))
		case *chanV:
			if x == nil {
				return IntC(0)
			}
			return IntC(int64(x.cap))
		case nil:
			return IntC(0)
		}
	case "append":
		return e.doAppend(args, cc)
	case "copy":
		return e.doCopy(args)
	case "delete":
		e.mapDelete(args[0].(*mapV), args[1])
		return nil
	case "panic":
		panic(targetPanic{args[0]})
	case "recover":
		return e.doRecover(caller)
	case "min", "max":
		if _, ok := args[0].(*Term); !ok {
			unsup("min/max of %T", args[0])
		}
		r := args[0].(*Term)
		for _, a := range args[1:] {
			b := a.(*Term)
			if fn.Name() == "min" {
				r = Ite(Lt(b, r), b, r)
			} else {
				r = Ite(Gt(b, r), b, r)
			}
		}
		return r
	case "clear":
		switch x := args[0].(type) {
		case *mapV:
			if x != nil {
				x.keys, x.vals = nil, nil
			}
		case []value:
			et := cc.Args[0].Type().Underlying().(*types.Slice).Elem()
			for i := range x {
				x[i] = zero(et)
			}
		case sliceS:
			na := e.constArr(x.arr.elem, IntC(0))
			x.arr.copyInto(x.off, na.node, IntC(0), x.len)
		}
		return nil
	case "close":
		e.chanClose(args[0].(*chanV))
		return nil
	case "print", "println":
		return nil
	case "ssa:wrapnilchk":
		if p, ok := args[0].(*value); ok && p == nil {
			panic(targetPanic{"value method called using nil pointer"})
		}
		return args[0]
	}
	unsup("builtin %s(%T)", fn.Name(), args[0])
	return nil
}

func (e *Engine) doAppend(args []value, cc *ssa.CallCommon) value {
	if args[1] == nil {
		return args[0]
	}
	if s, ok := args[1].([]value); ok && len(s) == 0 {
		if _, isSym := args[0].(sliceS); isSym || args[0] != nil {
			return args[0]
		}
	}
	_, dSym := args[0].(sliceS)
	_, sSym := args[1].(sliceS)
	_, sStr := args[1].(strS)
	if dSym || sSym || sStr {
		var d sliceS
		switch x := args[0].(type) {
		case sliceS:
			d = x
		case []value:
			// concrete destination with symbolic source: move to a functional array (the result
			// is a new slice; aliasing with the old backing array is lost only if cap was sufficient)
			// the result lives in a fresh functional array: if the concrete slice had spare capacity Go would
			// write in place, visible through other slices that share the backing array - such aliasing is
			// not tracked across this representation change (counted, reported in the evidence)
			if cap(x) > len(x) {
				e.AliasRelax++
			}
			d = e.toSym(x, IntType{8, false})
			d.cap = d.len
		case nil:
			d = e.toSym(nil, IntType{8, false})
		default:
			unsup("append(%T, sym)", args[0])
		}
		var n, soff *Term
		var srcNode *arrNode
		switch src := args[1].(type) {
		case sliceS:
			n, srcNode, soff = src.len, src.arr.node, src.off
			d.arr.elem = src.arr.elem
		case strS:
			n, srcNode, soff = src.len, src.arr.node, src.off
		case string:
			s := e.strToSym(src)
			n, srcNode, soff = s.len, s.arr.node, s.off
		case []value:
			s := e.toSym(src, d.arr.elem)
			n, srcNode, soff = s.len, s.arr.node, s.off
		default:
			unsup("append(symslice, %T)", args[1])
		}
		newLen := AddX(d.len, n)
		if e.Branch(Le(newLen, d.cap)) {
			d.arr.copyInto(AddX(d.off, d.len), srcNode, soff, n)
			return sliceS{d.arr, d.off, newLen, d.cap}
		}
		na := e.constArr(d.arr.elem, IntC(0))
		na.copyInto(IntC(0), d.arr.node, d.off, d.len)
		na.copyInto(d.len, srcNode, soff, n)
		return sliceS{na, IntC(0), newLen, newLen}
	}
	var r []value
	if args[0] != nil {
		r = args[0].([]value)
	}
	if s, ok := args[1].(string); ok {
		for i := 0; i < len(s); i++ {
			r = append(r, IntC(int64(s[i])))
		}
		return r
	}
	for _, v := range args[1].([]value) {
		r = append(r, copyVal(v))
	}
	return r
}

func (e *Engine) doCopy(args []value) value {
	if args[0] == nil || args[1] == nil {
		return IntC(0)
	}
	if d, ok := args[0].(sliceS); ok {
		switch src := args[1].(type) {
		case sliceS:
			n := minT(d.len, src.len)
			d.arr.copyInto(d.off, src.arr.node, src.off, n)
			return n
		case strS:
			n := minT(d.len, src.len)
			d.arr.copyInto(d.off, src.arr.node, src.off, n)
			return n
		case string:
			s := e.strToSym(src)
			n := minT(d.len, s.len)
			d.arr.copyInto(d.off, s.arr.node, s.off, n)
			return n
		case []value:
			s := e.toSym(src, d.arr.elem)
			n := minT(d.len, s.len)
			d.arr.copyInto(d.off, s.arr.node, s.off, n)
			return n
		}
		unsup("copy(sym, %T)", args[1])
	}
	dst := args[0].([]value)
	switch src := args[1].(type) {
	case sliceS:
		k := len(dst)
		if !e.Branch(Le(IntC(int64(k)), src.len)) {
			k = e.concInt(src.len, k, "copy len")
		}
		for i := 0; i < k; i++ {
			dst[i] = e.sel(src.arr, AddX(src.off, IntC(int64(i))))
		}
		return IntC(int64(k))
	case strS:
		k := len(dst)
		if !e.Branch(Le(IntC(int64(k)), src.len)) {
			k = e.concInt(src.len, k, "copy len")
		}
		for i := 0; i < k; i++ {
			dst[i] = e.sel(src.arr, AddX(src.off, IntC(int64(i))))
		}
		return IntC(int64(k))
	case string:
		n := 0
		for ; n < len(dst) && n < len(src); n++ {
			dst[n] = IntC(int64(src[n]))
		}
		return IntC(int64(n))
	case []value:
		tmp := make([]value, len(src))
		for i := range src {
			tmp[i] = copyVal(src[i])
		}
		return IntC(int64(copy(dst, tmp)))
	}
	unsup("copy(%T, %T)", args[0], args[1])
	return nil
}

// ---------- symbolic float64 (SMT FloatingPoint 11 53, round to nearest even) ----------

type floatS struct{ s string }

func isSymFloat(v value) bool { _, ok := v.(floatS); return ok }

func fpTerm(v value) string {
	switch x := v.(type) {
	case floatS:
		return x.s
	case float64:
		b := math.Float64bits(x)
		return fmt.Sprintf("(fp #b%d #b%011b #x%013x)", b>>63, (b>>52)&0x7ff, b&((1<<52)-1))
	}
	unsup("float operand %T", v)
	return ""
}

func fpBinop(op token.Token, x, y value) value {
	a, b := fpTerm(x), fpTerm(y)
	switch op {
	case token.ADD:
		return floatS{"(fp.add RNE " + a + " " + b + ")"}
	case token.SUB:
		return floatS{"(fp.sub RNE " + a + " " + b + ")"}
	case token.MUL:
		return floatS{"(fp.mul RNE " + a + " " + b + ")"}
	case token.QUO:
		return floatS{"(fp.div RNE " + a + " " + b + ")"}
	case token.LSS:
		return &Term{Sort: SBool, S: "(fp.lt " + a + " " + b + ")"}
	case token.LEQ:
		return &Term{Sort: SBool, S: "(fp.leq " + a + " " + b + ")"}
	case token.GTR:
		return &Term{Sort: SBool, S: "(fp.gt " + a + " " + b + ")"}
	case token.GEQ:
		return &Term{Sort: SBool, S: "(fp.geq " + a + " " + b + ")"}
	case token.EQL:
		return &Term{Sort: SBool, S: "(fp.eq " + a + " " + b + ")"}
	case token.NEQ:
		return &Term{Sort: SBool, S: "(not (fp.eq " + a + " " + b + "))"}
	}
	unsup("float binop %s", op)
	return nil
}
